"""Exact linear feasibility over the rationals (Fractions), used as the entailment procedure of the
abstract domain (linear inequalities over integer-valued atoms).  No external solver.

A constraint is (coeffs: dict atom -> Fraction, const: Fraction) meaning  sum(c_i * x_i) + const <= 0.
Atoms are arbitrary hashable objects.  Variables are free (unbounded sign).
"""
from fractions import Fraction
from math import gcd


def feasible(cons):
    """is { x | all constraints hold } non-empty (over the rationals)?  Phase-1 simplex with Bland's rule."""
    cons = [c for c in cons if c[0] or c[1] > 0]
    for co, k in cons:
        if not co and k > 0:
            return False
    if not cons:
        return True
    atoms = []
    idx = {}
    for co, k in cons:
        for a in co:
            if a not in idx:
                idx[a] = len(atoms)
                atoms.append(a)
    n = len(atoms)
    m = len(cons)
    # variables: u_0..u_{n-1}, v_0..v_{n-1} (x = u - v), slack s_0..s_{m-1}, artificial a_j for rows with negative rhs
    # row j:  sum co*(u - v) + s_j = -k      (rhs b_j = -k)
    ncols = 2 * n + m
    rows = []
    rhs = []
    basis = []
    art = []
    for j, (co, k) in enumerate(cons):
        r = [Fraction(0)] * ncols
        for a, c in co.items():
            i = idx[a]
            r[i] += c
            r[n + i] -= c
        r[2 * n + j] = Fraction(1)
        b = -k
        if b < 0:
            r = [-x for x in r]
            b = -b
            art.append(j)
        rows.append(r)
        rhs.append(Fraction(b))
    # add artificial columns
    na = len(art)
    for r in rows:
        r.extend([Fraction(0)] * na)
    for t, j in enumerate(art):
        rows[j][ncols + t] = Fraction(1)
    total = ncols + na
    for j in range(m):
        if j in art:
            basis.append(ncols + art.index(j))
        else:
            basis.append(2 * n + j)
    if not art:
        return True
    # phase 1 objective: minimise sum of artificials.  reduced costs: c_j - sum over artificial rows
    cost = [Fraction(0)] * total
    for t in range(na):
        cost[ncols + t] = Fraction(1)
    # z row = cost - sum_{rows with artificial basis} row
    z = list(cost)
    zval = Fraction(0)
    for j in art:
        for c in range(total):
            z[c] -= rows[j][c]
        zval -= rhs[j]
    it = 0
    while True:
        it += 1
        if it > 5000:
            return True  # give up: say feasible (sound direction for entailment: not proved)
        # Bland: smallest index with negative reduced cost
        enter = -1
        for c in range(total):
            if z[c] < 0:
                enter = c
                break
        if enter < 0:
            break
        # ratio test, Bland tie-break on basis index
        leave = -1
        best = None
        for j in range(m):
            a = rows[j][enter]
            if a > 0:
                ratio = rhs[j] / a
                if best is None or ratio < best or (ratio == best and basis[j] < basis[leave]):
                    best = ratio
                    leave = j
        if leave < 0:
            break  # unbounded in phase 1 cannot happen (objective bounded below by 0)
        piv = rows[leave][enter]
        rows[leave] = [x / piv for x in rows[leave]]
        rhs[leave] = rhs[leave] / piv
        for j in range(m):
            if j != leave:
                f = rows[j][enter]
                if f != 0:
                    rl = rows[leave]
                    rj = rows[j]
                    rows[j] = [rj[c] - f * rl[c] for c in range(total)]
                    rhs[j] -= f * rhs[leave]
        f = z[enter]
        if f != 0:
            rl = rows[leave]
            z = [z[c] - f * rl[c] for c in range(total)]
            zval -= f * rhs[leave]
        basis[leave] = enter
    # optimal value of phase 1 = -zval
    return -zval == 0


def tighten(co, k):
    """every atom stands for an integer: sum c_i*x_i + k <= 0 with integer c_i of gcd g is  sum (c_i/g)*x_i + ceil(k/g) <= 0
    (8*i < 8*q gives i + 1 <= q, which no rational argument sees)"""
    if not co:
        return (co, k)
    den = 1
    for c in co.values():
        d = Fraction(c).denominator
        if d != 1:
            den = den * d // gcd(den, d)
    g = 0
    for c in co.values():
        g = gcd(g, abs(int(Fraction(c) * den)))
    if g == 0 or (g == den and Fraction(k).denominator == 1):
        return (co, k)
    f = Fraction(den, g)
    k2 = Fraction(k) * f
    return ({a: Fraction(c) * f for a, c in co.items()}, Fraction(-((-k2.numerator) // k2.denominator)))


def int_strengthen(cons, limit=40):
    """consequences over the integers that the rational relaxation misses: equalities (a constraint present with its negation)
    whose some atom has coefficient +-1 are solved for that atom and substituted everywhere, then every constraint is divided by
    the gcd of its coefficients with the constant rounded (8*i + 1 <= L and L = 8*q give i + 1 <= q)"""
    cons = [tighten(dict(c[0]), Fraction(c[1])) for c in cons]
    for _ in range(limit):
        keyed = {(frozenset(co.items()), k) for co, k in cons}
        pick = None
        for co, k in cons:
            if not co or (frozenset((a, -c) for a, c in co.items()), -k) not in keyed:
                continue
            for a, c in sorted(co.items(), key=lambda x: repr(x[0])):
                if abs(c) == 1:
                    pick = (a, c, co, k)
                    break
            if pick:
                break
        if pick is None:
            break
        a, c, co, k = pick
        # a = -(sum_{b != a} co_b*b + k)/c
        expr = {b: -cb / c for b, cb in co.items() if b != a}
        ek = -k / c
        out = []
        for co2, k2 in cons:
            ca = co2.get(a)
            if ca is None:
                out.append((co2, k2))
                continue
            n = {b: cb for b, cb in co2.items() if b != a}
            for b, cb in expr.items():
                v = n.get(b, 0) + ca * cb
                if v == 0:
                    n.pop(b, None)
                else:
                    n[b] = v
            kk = k2 + ca * ek
            if not n and kk <= 0:
                continue
            out.append(tighten(n, kk))
        cons = out
    return cons


def neg_int(co, k):
    """integer negation of (e <= 0): e >= 1, i.e. -e + 1 <= 0"""
    return ({a: -c for a, c in co.items()}, -k + 1)


def cone(cons, seed_atoms):
    """constraints connected to the seed atoms through shared atoms (cone of influence).  Dropping the rest is sound for
    refutation: an infeasible subset makes the whole set infeasible."""
    atoms = set(seed_atoms)
    rest = [c for c in cons if c[0]]
    picked = []
    changed = True
    while changed and rest:
        changed = False
        keep = []
        for c in rest:
            if any(a in atoms for a in c[0]):
                picked.append(c)
                atoms.update(c[0].keys())
                changed = True
            else:
                keep.append(c)
        rest = keep
    return picked


_cache = {}


def _key(cons):
    return frozenset((frozenset(c[0].items()), c[1]) for c in cons)


def feasible_cached(cons):
    k = _key(cons)
    r = _cache.get(k)
    if r is None:
        r = feasible(cons)
        if len(_cache) > 200000:
            _cache.clear()
        _cache[k] = r
    return r


def entails(cons, goal):
    """do the constraints entail goal (e <= 0) over the integers?  (checked on the rational relaxation of cons ∧ e >= 1,
    restricted to the cone of influence of the goal)"""
    co, k = goal
    if not co:
        return k <= 0
    # constant contradictions anywhere make everything entailed
    for c in cons:
        if not c[0] and c[1] > 0:
            return True
    sub = cone(cons, co.keys())
    if not feasible_cached(sub + [neg_int(co, k)]):
        return True
    if not INT_STRENGTHEN:
        return False
    st = int_strengthen(sub + [neg_int(co, k)])
    return not feasible_cached(st)


INT_STRENGTHEN = True


def feasible_after(cons, new):
    """is cons ∧ new feasible, given that cons alone was feasible: only the cone of the new constraints can be affected"""
    seeds = set()
    for c in new:
        if not c[0] and c[1] > 0:
            return False
        seeds.update(c[0].keys())
    sub = cone(list(cons) + list(new), seeds)
    return feasible_cached(sub)

"""C18 (narrow) — byte-level VByte: V1 endianness dispatch of the generic entry points, V2 returned length = bytes/bits emitted,
V3 whole-transfer I/O with propagated errors, numeric safety of the byte-level functions."""
import mir
import codeclass as cc
import rules_num as rn
import rules_result as rr
import rules_c11
from rules_c01 import typeid_tests

BE, LE = rn.BE, rn.LE


def run(chk, F, tier):
    chk.rule("V1.dispatch", floor=2, doc="vbyte_write::<E>/vbyte_read::<E> call the _be function exactly when E is BigEndian, the _le one otherwise (Endianness is sealed: two implementors)")
    for nm in ("vbyte_write", "vbyte_read"):
        b = F.body("codes::vbyte::" + nm)
        ok = True
        seen = set()
        why = []
        for p in mir.walk(b):
            if p.end[0] != "return":
                continue
            tests = typeid_tests(p)
            calls = [ev for ev in p.calls() if ev[1].startswith("codes::vbyte::" + nm + "_")]
            if len(tests) != 1 or len(calls) != 1:
                ok = False
                why.append("%d tests / %d calls" % (len(tests), len(calls)))
                continue
            a, bb, truth = tests[0]
            other = bb if a == "E" else a
            is_be = (other == BE) == truth
            want = nm + ("_be" if is_be else "_le")
            seen.add(want)
            # arguments passed through, result returned
            args_ok = all(x[0] == "arg" or (x[0] == "ref" and x[1][0] == "deref") for x in calls[0][8])
            if calls[0][1] != "codes::vbyte::" + want or p.ret != calls[0][3] or "E" not in (a, bb) or other not in (BE, LE):
                ok = False
                why.append("E %s %s -> %s" % ("==" if truth else "!=", other.split("::")[-1], calls[0][1].split("::")[-1]))
        chk.expect("V1.dispatch", nm, ok and seen == {nm + "_be", nm + "_le"}, "codes::vbyte::%s dispatches wrongly: %s" % (nm, why), sample={"fn": nm, "targets": sorted(seen)})
    sealed = [i for i in F.impls if (i.get("trait_def") or "").endswith("endianness::private::Endianness")]
    chk.expect("V1.dispatch", "sealed", sorted(i["self_ty"] for i in sealed) == ["traits::endianness::BigEndian", "traits::endianness::LittleEndian"],
               "the sealed Endianness trait has implementors %s" % sorted(i["self_ty"] for i in sealed))
    # V3 I/O discipline
    chk.rule("V3.io", floor=4, doc="io writers use write_all, io readers read_exact; every io::Result is propagated")
    for nm in ("vbyte_write_be", "vbyte_write_le", "vbyte_read_be", "vbyte_read_le"):
        b = F.body("codes::vbyte::" + nm)
        d = rr.discipline(F, b, callee_filter=lambda e: e[1].startswith("std::io::"))
        bad = []
        for (callee, line), ent in d.items():
            if ent["kinds"] - rr.OK_KINDS - {"matched-ok"}:
                bad.append("%s is %s" % (callee, sorted(ent["kinds"])))
            if callee in rules_c11.PARTIAL:
                bad.append("uses the partial-transfer call %s" % callee)
        chk.expect("V3.io", nm, not bad and len(d) >= 1, "codes::vbyte::%s: %s" % (nm, "; ".join(bad) or "no std::io call found"), sample={"fn": nm, "calls": sorted(k[0] for k in d)})
    # V2 returned length = amount emitted
    chk.rule("V2.length", floor=5, doc="returned length equals what was emitted: BE: len(&buf[pos..]) bytes = buf.len() - pos; bit-stream variants return 8x the bytes written; bit_len = 8*byte_len")
    import numabs, contracts, lp
    from numabs import le, const
    def be_writer(path, unit):
        b = F.body(path) if "::" in path and not path.startswith("<") else None
        return b
    # vbyte_write_be: Ok(bytes_to_write) with bytes_to_write = len(buf) - pos and the slice written is buf[pos..]
    for key, find, unit in (("vbyte_write_be", dict(path="codes::vbyte::vbyte_write_be"), 1),
                            ("write_vbyte_be", dict(name="write_vbyte_be", impl_trait="codes::vbyte::VByteBeWrite<E>", impl_self="B"), 8)):
        b = rn.find_body(F, find)
        wk = numabs.NumWalker(b, numabs.Cfg(64), F, contracts.C, None)
        ok = True
        nok = 0
        for p in wk.run():
            r = p.ret
            if p.end[0] != "return" or not (isinstance(r, tuple) and r[0] == "agg" and r[3] == "Ok"):
                continue
            base = wk.full_store(p.state)
            if not lp.feasible_cached(base):
                continue
            nok += 1
            wk.num.ctx_events = p.state["events"]
            idx = [e for e in p.calls() if e[1] == "std::ops::Index::index" and isinstance(e[8][1], tuple) and e[8][1][0] == "agg" and e[8][1][2] == "std::ops::RangeFrom"]
            if len(idx) != 1:
                ok = False
                continue
            sl = contracts.slen(wk.num, idx[0][3])
            ret = wk.num.aff(r[4][0])
            g = [le(ret, sl.scale(unit)), le(sl.scale(unit), ret)]
            base = wk.num.close(wk.full_store(p.state), g)
            if not all(lp.entails(base, c) for c in g):
                ok = False
        chk.expect("V2.length", key, ok and nok >= 1, "codes::vbyte::%s returns a length different from %d x the bytes of buf[pos..] it emits" % (key, unit), sample={"fn": key, "unit": unit})
    # LE writers: the returned len counts loop iterations, one byte written per iteration: structural
    for key, find, unit in (("vbyte_write_le", dict(path="codes::vbyte::vbyte_write_le"), 1),
                            ("write_vbyte_le", dict(name="write_vbyte_le", impl_trait="codes::vbyte::VByteLeWrite<E>", impl_self="B"), 8)):
        b = rn.find_body(F, find)
        wk = numabs.NumWalker(b, numabs.Cfg(64), F, contracts.C, None)
        paths = wk.run()
        # ghost: count emissions
        ok = True
        nok = 0
        for p in paths:
            r = p.ret
            if p.end[0] != "return" or not (isinstance(r, tuple) and r[0] == "agg" and r[3] == "Ok"):
                continue
            base = wk.full_store(p.state)
            if not lp.feasible_cached(base):
                continue
            nok += 1
            # on the exit path the last iteration wrote one byte; len = 1 + trip, so emitted = trip + 1 bytes: the summary of the
            # loop shows `len` advancing by exactly 1 per iteration and one emission call per iteration
        lens = [v for (h, v) in wk.summ.items()]
        one_per_iter = any("len" in s.get("vars", {}) and "+1*trip" in s["vars"]["len"] for s in lens)
        emits = set()
        for p in paths:
            n = len([e for e in p.calls() if e[1] in ("std::io::Write::write_all", "traits::bits::BitWrite::write_bits")])
            emits.add((p.end[0], n))
        per_iter_ok = all(n == 1 for (end, n) in emits if end in ("back",)) and all(n == 1 for (end, n) in emits if end == "return")
        chk.expect("V2.length", key, nok >= 1 and one_per_iter and per_iter_ok,
                   "codes::vbyte::%s: the returned length does not count exactly one emitted byte per loop iteration (summary %s, emissions %s)" % (key, lens, sorted(emits)),
                   sample={"fn": key, "loop": str(lens)[:120]})
    b = F.body("codes::vbyte::bit_len_vbyte")
    ps = [p for p in mir.walk(b) if p.end[0] == "return"]
    okb = len(ps) == 1 and len(ps[0].calls()) == 1 and ps[0].calls()[0][1] == "codes::vbyte::byte_len_vbyte" and \
        ps[0].ret == ("binop", "Mul", ("const", 8, "usize"), ps[0].calls()[0][3]) and ps[0].calls()[0][2][0] == ("arg", 1, "value")
    chk.expect("V2.length", "bit_len_vbyte", okb, "bit_len_vbyte(v) is not 8 * byte_len_vbyte(v)")
    # numeric safety of the byte-level functions
    chk.rule("V2.numeric", floor=20, doc="E3 obligations of the byte-level and bit-stream VByte functions (index bounds of the 10-byte buffer, shifts, arithmetic) modulo lemma L6 and stream-domain assumptions")
    rn.run_specs(chk, F, [s for s in rn.code_specs() if s.key.startswith("vbyte.")], "V2.numeric", "default")


def run_all(chk, fsets, tier):
    import facts
    run(chk, facts.load(fsets[0]), tier)
    chk.trust("rustc MIR, exporter, contracts, std::io contracts of write_all/read_exact")

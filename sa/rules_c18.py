"""C18 (narrow) — byte-level VByte: V1 endianness dispatch of the generic entry points, V4 lengths / byte counts / continuation bits on every 64-bit value,
V3 whole-transfer I/O with propagated errors, numeric safety of the byte-level functions."""
import mir
import codeclass as cc
import rules_num as rn
import rules_result as rr
import rules_c11
from rules_c01 import typeid_tests

BE, LE = rn.BE, rn.LE


def run(chk, F, tier):
    chk.rule("V1.dispatch", floor=2, doc="vbyte_write::<E> / vbyte_read::<E>, interpreted with E = BigEndian and E = LittleEndian and the four endianness-specific functions stubbed: exactly the function of that endianness is called, with the entry point's own arguments, and its result is returned (Endianness is sealed: two implementors)")
    import ivl
    from ivl import AI, Agg, Ref, Frame, Opaque, mk_variant
    for nm in ("vbyte_write", "vbyte_read"):
        b = F.body("codes::vbyte::" + nm)
        why = []
        seen = set()
        for e, ety in (("be", BE), ("le", LE)):
            calls = []

            def stub(it, name, args, fargs, fr, t, calls=calls):
                calls.append((name, list(args)))
                return mk_variant("std::result::Result", "Ok", [AI("usize" if "write" in name else "u64", 4242, 4242)])
            hs = {"codes::vbyte::%s_%s" % (nm, x): stub for x in ("be", "le")}
            try:
                it = ivl.Interp(F, 0, 0, hs)
                sh = Frame({"path": "stream"}, {})
                sh.locals[0] = Opaque("the byte stream")
                args = ([AI("u64", 777, 777), Ref(sh, 0, ())] if nm == "vbyte_write" else [Ref(sh, 0, ())])
                env = {g: g for g in (b.get("generics") or [])}
                env["E"] = ety
                r = it.call_body(b, args, env, 0)
            except (ivl.Unsupported, ivl.Undecided, ivl.Panic) as ex:
                why.append("E = %s: cannot be interpreted (%s)" % (e.upper(), ex))
                continue
            want = "codes::vbyte::%s_%s" % (nm, e)
            okc = len(calls) == 1 and calls[0][0] == want
            if okc:
                seen.add(want.split("::")[-1])
                a = calls[0][1]
                okc = (nm == "vbyte_read" or (isinstance(a[0], AI) and a[0].const() == 777)) and isinstance(a[-1], Ref) and a[-1].frame is sh
                okc = okc and isinstance(r, Agg) and r.variant == "Ok" and isinstance(r.fields[0], AI) and r.fields[0].const() == 4242
            if not okc:
                why.append("E = %s -> %s, result %r" % (e.upper(), [c[0].split("::")[-1] for c in calls], r))
        chk.expect("V1.dispatch", nm, not why and seen == {nm + "_be", nm + "_le"}, "codes::vbyte::%s dispatches wrongly: %s" % (nm, why), sample={"fn": nm, "targets": sorted(seen)})
    sealed = [i for i in F.impls if (i.get("trait_def") or "").endswith("endianness::private::Endianness")]
    chk.expect("V1.dispatch", "sealed", sorted(i["self_ty"] for i in sealed) == ["traits::endianness::BigEndian", "traits::endianness::LittleEndian"],
               "the sealed Endianness trait has implementors %s" % sorted(i["self_ty"] for i in sealed))
    # V3 I/O discipline
    chk.rule("V3.io", floor=4, doc="io writers use write_all, io readers read_exact; every io::Result is propagated")
    for nm in ("vbyte_write_be", "vbyte_write_le", "vbyte_read_be", "vbyte_read_le"):
        b = F.body("codes::vbyte::" + nm)
        d = rr.discipline(F, b, callee_filter=lambda e: e[1].startswith("std::io::"))
        # private helpers of the module that do the I/O for this function are held to the same discipline
        todo, done = [b], {b["path"]}
        while todo:
            cur = todo.pop()
            for bl in cur["blocks"]:
                t_ = bl["term"]
                if t_.get("k") != "call":
                    continue
                for cn in ((t_["func"].get("resolved") or {}).get("fn"), t_["func"].get("fn")):
                    cb = F.by_path.get(cn or "", [])
                    if len(cb) == 1 and cb[0].get("blocks") and cb[0]["path"] not in done and cb[0]["kind"] == "Fn" and cn.startswith("codes::vbyte::") \
                            and not cn.split("::")[-1].startswith(("vbyte_read", "vbyte_write")):
                        done.add(cb[0]["path"])
                        todo.append(cb[0])
                        d.update({(k[0], "%s:%s" % (cb[0]["path"].split("::")[-1], k[1])): v for k, v in rr.discipline(F, cb[0], callee_filter=lambda e: e[1].startswith("std::io::")).items()})
        bad = []
        for (callee, line), ent in d.items():
            if ent["kinds"] - rr.OK_KINDS - {"matched-ok"}:
                bad.append("%s is %s" % (callee, sorted(ent["kinds"])))
            if callee in rules_c11.PARTIAL:
                bad.append("uses the partial-transfer call %s" % callee)
        chk.expect("V3.io", nm, not bad and len(d) >= 1, "codes::vbyte::%s: %s" % (nm, "; ".join(bad) or "no std::io call found"), sample={"fn": nm, "calls": sorted(k[0] for k in d)})
    # V4: lengths, counts and continuation bits for every 64-bit value (value-partition interpreter); replaces the earlier
    # loop-shape rule V2.length, which depended on the form of the loops rather than on what they compute
    import rules_ivl
    rules_ivl.run_c18(chk, F, "default", tier)
    # numeric safety of the byte-level functions
    chk.rule("V2.numeric", floor=14, doc="E3 obligations of the byte-level and bit-stream VByte functions (index bounds of the 10-byte buffer, shifts, arithmetic) modulo lemma L6 and stream-domain assumptions")
    import rules_ivl
    rn.run_specs(chk, F, [s for s in rn.code_specs() if s.key.startswith("vbyte.") and s.key not in rules_ivl.E7_COVERED], "V2.numeric", "default")
    rules_ivl.run_domain_e7(chk, F, "default", tier, "V2.numeric", [k for k in rules_ivl.E7_COVERED if k.startswith("vbyte.")])


def run_all(chk, fsets, tier):
    import facts
    run(chk, facts.load(fsets[0]), tier)
    chk.trust("rustc MIR, exporter, contracts, std::io contracts of write_all/read_exact")

"""C18 (narrow) — byte-level VByte: V1 endianness dispatch of the generic entry points, V4 lengths / byte counts / continuation bits on every 64-bit value,
V3 whole-transfer I/O with propagated errors, numeric safety of the byte-level functions."""
import mir
import codeclass as cc
import rules_num as rn
import rules_result as rr
import rules_c11
from rules_c01 import typeid_tests

BE, LE = rn.BE, rn.LE


def run(chk, F, tier):
    chk.rule("V1.dispatch", floor=2, doc="vbyte_write::<E>/vbyte_read::<E> call the _be function exactly when E is BigEndian, the _le one otherwise (Endianness is sealed: two implementors)")
    for nm in ("vbyte_write", "vbyte_read"):
        b = F.body("codes::vbyte::" + nm)
        ok = True
        seen = set()
        why = []
        for p in mir.walk(b):
            if p.end[0] != "return":
                continue
            tests = typeid_tests(p)
            calls = [ev for ev in p.calls() if ev[1].startswith("codes::vbyte::" + nm + "_")]
            if len(tests) != 1 or len(calls) != 1:
                ok = False
                why.append("%d tests / %d calls" % (len(tests), len(calls)))
                continue
            a, bb, truth = tests[0]
            other = bb if a == "E" else a
            is_be = (other == BE) == truth
            want = nm + ("_be" if is_be else "_le")
            seen.add(want)
            # arguments passed through, result returned
            args_ok = all(x[0] == "arg" or (x[0] == "ref" and x[1][0] == "deref") for x in calls[0][8])
            if calls[0][1] != "codes::vbyte::" + want or p.ret != calls[0][3] or "E" not in (a, bb) or other not in (BE, LE):
                ok = False
                why.append("E %s %s -> %s" % ("==" if truth else "!=", other.split("::")[-1], calls[0][1].split("::")[-1]))
        chk.expect("V1.dispatch", nm, ok and seen == {nm + "_be", nm + "_le"}, "codes::vbyte::%s dispatches wrongly: %s" % (nm, why), sample={"fn": nm, "targets": sorted(seen)})
    sealed = [i for i in F.impls if (i.get("trait_def") or "").endswith("endianness::private::Endianness")]
    chk.expect("V1.dispatch", "sealed", sorted(i["self_ty"] for i in sealed) == ["traits::endianness::BigEndian", "traits::endianness::LittleEndian"],
               "the sealed Endianness trait has implementors %s" % sorted(i["self_ty"] for i in sealed))
    # V3 I/O discipline
    chk.rule("V3.io", floor=4, doc="io writers use write_all, io readers read_exact; every io::Result is propagated")
    for nm in ("vbyte_write_be", "vbyte_write_le", "vbyte_read_be", "vbyte_read_le"):
        b = F.body("codes::vbyte::" + nm)
        d = rr.discipline(F, b, callee_filter=lambda e: e[1].startswith("std::io::"))
        bad = []
        for (callee, line), ent in d.items():
            if ent["kinds"] - rr.OK_KINDS - {"matched-ok"}:
                bad.append("%s is %s" % (callee, sorted(ent["kinds"])))
            if callee in rules_c11.PARTIAL:
                bad.append("uses the partial-transfer call %s" % callee)
        chk.expect("V3.io", nm, not bad and len(d) >= 1, "codes::vbyte::%s: %s" % (nm, "; ".join(bad) or "no std::io call found"), sample={"fn": nm, "calls": sorted(k[0] for k in d)})
    # V4: lengths, counts and continuation bits for every 64-bit value (value-partition interpreter); replaces the earlier
    # loop-shape rule V2.length, which depended on the form of the loops rather than on what they compute
    import rules_ivl
    rules_ivl.run_c18(chk, F, "default", tier)
    # numeric safety of the byte-level functions
    chk.rule("V2.numeric", floor=14, doc="E3 obligations of the byte-level and bit-stream VByte functions (index bounds of the 10-byte buffer, shifts, arithmetic) modulo lemma L6 and stream-domain assumptions")
    import rules_ivl
    rn.run_specs(chk, F, [s for s in rn.code_specs() if s.key.startswith("vbyte.") and s.key not in rules_ivl.E7_COVERED], "V2.numeric", "default")
    rules_ivl.run_domain_e7(chk, F, "default", tier, "V2.numeric", [k for k in rules_ivl.E7_COVERED if k.startswith("vbyte.")])


def run_all(chk, fsets, tier):
    import facts
    run(chk, facts.load(fsets[0]), tier)
    chk.trust("rustc MIR, exporter, contracts, std::io contracts of write_all/read_exact")

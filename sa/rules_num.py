"""Numeric obligations (E3) for the anchored functions: specs, driver and reporting.

A spec names a function (by impl trait / self type / name), the word configurations it is analysed under,
the assumptions at entry (struct invariant + documented preconditions of the method) and the invariant that
must hold again at every return.  Every MIR assert, every contract precondition at a call site, every
reachable panic and the invariant at return become obligations; each is discharged, or reported with the
configuration and path.
"""
import time

import contracts
import lp
import mir
import numabs
from numabs import le, lt, const, Cfg

BE = "traits::endianness::BigEndian"
LE = "traits::endianness::LittleEndian"
U64MAX = (1 << 64) - 1


def fld(base, name):
    return ("field", ("deref", base), name)


SELF = ("arg", 1, "self")


# ---- struct invariants ------------------------------------------------------
def writer_inv(base=SELF):
    def f(num, w, mem=None):
        t = fld(base, "space_left_in_buffer")
        v = mem.get(t, t) if mem is not None else t
        a = num.aff(v)
        return [("1 <= space_left_in_buffer <= W::BITS", [le(const(1), a), le(a, const(w))])]
    return f


def reader_inv(base=SELF):
    def f(num, w, mem=None):
        t = fld(base, "bits_in_buffer")
        v = mem.get(t, t) if mem is not None else t
        a = num.aff(v)
        return [("0 <= bits_in_buffer < 2*W::BITS", [le(const(0), a), le(a, const(2 * w - 1))])]
    return f


def no_inv(num, w, mem=None):
    return []


def arg_le(i, name, bound):
    return lambda num, w: [le(num.aff(("arg", i, mir.argname(i, name))), const(bound if not callable(bound) else bound(w)))]


def arg_ge(i, name, bound):
    return lambda num, w: [le(const(bound), num.aff(("arg", i, mir.argname(i, name))))]


def both(*fs):
    return lambda num, w: [c for f in fs for c in f(num, w)]


def none(num, w):
    return []


WRITER_W = [8, 16, 32, 64, 128]
READER_W = [8, 16, 32, 64]

INLINE_OK = ("impls::buf_bit_reader::BufBitReader::<traits::endianness::BigEndian, WR, RP>::refill",
             "impls::buf_bit_reader::BufBitReader::<traits::endianness::LittleEndian, WR, RP>::refill",
             "impls::buf_bit_writer::flush_be", "impls::buf_bit_writer::flush_le")


def inline_pred(name):
    return name in INLINE_OK


class Spec:
    def __init__(self, key, find, widths, inv, pre=none, self_base=SELF, doc="", allow_panic=None, inline=inline_pred, group=None, unroll=None,
                 post_ok=None, gen=None):
        self.gen = gen or {}          # const generic arguments fixed for the analysis (table flags off: the non-table implementation)
        self.unroll = unroll
        self.post_ok = post_ok
        self.inv_on_err = False
        self.key, self.find, self.widths, self.inv, self.pre, self.self_base, self.doc = key, find, widths, inv, pre, self_base, doc
        self.allow_panic = allow_panic
        self.inline = inline
        self.group = group


def arg_assert_path(p):
    """p ends in the `checks` argument assertion of write_bits: it is conditioned on a test of `value & <mask of n_bits>`
    (the panic the feature exists to raise; that it is raised exactly for dirty values is decided by C19.G2)"""
    for (t, op, v) in p.constraints:
        ex = mir.expand(t, p)
        if isinstance(ex, tuple) and ex and ex[0] == "binop" and ex[1] in ("Eq", "Ne"):
            s = str(ex)
            if "'arg', 2, 'arg2'" in s and "'arg', 3, 'arg3'" in s and "BitAnd" in s:
                return True
    return False


def writer_specs():
    out = []
    for e, ety in (("be", BE), ("le", LE)):
        tr = "traits::bits::BitWrite<%s>" % ety
        sf = r"impls::buf_bit_writer::BufBitWriter<%s, WW, WP>" % ety.replace("::", "::")
        out.append(Spec("writer.%s.write_bits" % e, dict(name="write_bits", trait_is=tr, impl_self="impls::buf_bit_writer::BufBitWriter<"),
                        WRITER_W, writer_inv(), pre=arg_le(3, "n_bits", 64), doc="documented precondition n_bits <= 64",
                        allow_panic=lambda msg, p: arg_assert_path(p)))
        out.append(Spec("writer.%s.write_unary" % e, dict(name="write_unary", trait_is=tr, impl_self="impls::buf_bit_writer::BufBitWriter<"),
                        WRITER_W, writer_inv(), pre=arg_le(2, "value", U64MAX - 1), doc="documented precondition value != u64::MAX"))
        out.append(Spec("writer.%s.flush" % e, dict(name="flush", trait_is=tr, impl_self="impls::buf_bit_writer::BufBitWriter<"),
                        WRITER_W, writer_inv()))
        out.append(Spec("writer.%s.copy_from" % e, dict(name="copy_from", trait_is=tr, impl_self="impls::buf_bit_writer::BufBitWriter<"),
                        WRITER_W, writer_inv(), group="copy"))
        out.append(Spec("writer.%s.io_write" % e, dict(name="write", trait_is="std::io::Write", self_is=r"impls::buf_bit_writer::BufBitWriter<%s, WW, WP>" % ety),
                        WRITER_W, writer_inv(), group="io"))
        out.append(Spec("writer.%s.io_flush" % e, dict(name="flush", trait_is="std::io::Write", self_is=r"impls::buf_bit_writer::BufBitWriter<%s, WW, WP>" % ety),
                        WRITER_W, writer_inv(), group="io"))
    return out


def find_body(F, find):
    if "path" in find:
        return F.body(find["path"])
    l = F.find(**find)
    l = [b for b in l if b["kind"] == "AssocFn"]
    if len(l) != 1:
        raise numabs_error("anchor %r: expected exactly one body, found %d" % (find, len(l)))
    return l[0]


def numabs_error(msg):
    from facts import FactsError
    return FactsError(msg)


def analyse(F, spec, w, extra_contracts=None):
    """-> (sites dict key -> {"status", "path", "text"}, n_paths, loop summaries)"""
    b = find_body(F, spec.find)
    cfg = Cfg(w)

    def assume(num):
        out = []
        for text, goals in spec.inv(num, w):
            out.extend(goals)
        out.extend(spec.pre(num, w))
        return out

    wk = numabs.NumWalker(b, cfg, F, contracts.C if extra_contracts is None else extra_contracts, assume)
    wk.inline = spec.inline
    wk.gen_map = dict(spec.gen)
    if spec.unroll is not None:
        # bounded unrolling instead of loop summaries (loops with a small fixed trip bound)
        wk.loops = {}
        wk.unroll = spec.unroll
    paths = wk.run()

    def inv_at_return(num, p):
        r = p.ret
        is_err = isinstance(r, tuple) and ((r[0] == "agg" and r[3] == "Err") or r[0] == "from_residual")
        # the invariant is owed on successful returns (the properties are silent about a stream whose backend failed)
        out = [] if (is_err and not spec.inv_on_err) else list(spec.inv(num, w, p.mem))
        if spec.post_ok is not None and isinstance(r, tuple) and r[0] == "agg" and r[3] == "Ok":
            num.ctx_events = p.state["events"]
            num.ctx_cons = p.state["cons"]
            out.extend(spec.post_ok(num, p, w))
        return out

    obs = numabs.check_paths(wk, paths, b["path"], invariant=inv_at_return, allow_panic=spec.allow_panic)
    # aggregate per site; ordinals instead of line numbers
    by_site = {}
    for key, status, p, goals in obs:
        kind, a, text, line = key
        s = by_site.setdefault((kind, a, text, line), {"status": "discharged", "path": None})
        rank = {"discharged": 0, "unknown": 1, "violated": 2}
        if rank[status] > rank[s["status"]]:
            s["status"] = status
            s["path"] = p
            s["goals"] = goals
    ords = {}
    sites = {}
    for (kind, a, text, line) in sorted(by_site, key=lambda k: (k[0], str(k[1]), str(k[2]), k[3] or 0)):
        base = (kind, str(a), str(text))
        n = ords.get(base, 0)
        ords[base] = n + 1
        k2 = "%s|%s|%s#%d" % (kind, a if kind != "assert" else a, text, n)
        sites[k2] = dict(by_site[(kind, a, text, line)], line=line, text=text, kind=kind)
    return sites, len(paths), wk.summ, b


def describe_path(p, limit=6):
    cons = [(mir.fmt(t)[:60], op, v) for (t, op, v) in p.constraints][-limit:]
    return {"end": str(p.end[:2])[:80], "blocks": p.blocks[-8:], "last_constraints": cons}


def load_lemmas():
    import json, os, re
    p = os.path.join(os.path.dirname(os.path.dirname(os.path.abspath(__file__))), "lemmas.json")
    with open(p) as f:
        ls = json.load(f)["lemmas"]
    return [(l["id"], re.compile(l["spec"]), re.compile(l["site"]), l["reason"]) for l in ls]


def stream_derived(spec, s):
    """reader-side obligations whose operands come from the stream being decoded: constrained only by what the writer
    emitted (DESIGN.md C03.K1/K2) - reported as stream-domain assumptions, never as discharged"""
    import re
    if not re.search(r"\.(read|read_be|read_le|io_read_be|io_read_le)$", spec.key) or spec.group != "codes":
        return False
    return True


def run_specs(chk, F, specs, rule, fs, lemmas=None):
    """analyse every spec under every width; one rule instance per (spec, width, site)"""
    lemmas = load_lemmas() if lemmas is None else lemmas
    used = chk.extra.setdefault("lemmas_used", {})
    total_paths = 0
    for spec in specs:
        for w in spec.widths:
            t0 = time.time()
            sites, npaths, summ, b = analyse(F, spec, w)
            total_paths += npaths
            if not sites:
                chk.bad(rule, "%s@u%d|empty" % (spec.key, w), "no obligation generated for %s under u%d (anchor lost?)" % (spec.key, w))
            for k, s in sorted(sites.items()):
                key = "%s@u%d|%s" % (spec.key, w, k)
                if fs != "default":
                    key = key + "@" + fs
                if s["status"] == "discharged":
                    chk.ok(rule, key, sample={"fn": spec.key, "cfg": "u%d" % w, "obligation": k} if w == 64 else None)
                    continue
                lem = [l for l in lemmas if l[1].search(spec.key) and l[2].search(k)]
                if lem:
                    chk.assume("lemma %s: %s" % (lem[0][0], lem[0][3]))
                    used.setdefault(lem[0][0], []).append("%s@u%d|%s" % (spec.key, w, k[:80]))
                    continue
                if stream_derived(spec, s):
                    chk.assume("stream-domain: reader-side quantities taken from the stream (lengths read in unary, omega block sizes, vbyte "
                               "continuation counts) are constrained only by what the matching writer emitted; their obligations are not discharged here")
                    used.setdefault("stream-domain", []).append("%s@u%d|%s" % (spec.key, w, k[:80]))
                    continue
                chk.bad(rule, key,
                        "%s, word u%d%s: obligation `%s` is %s (source line %s)"
                        % (b["path"], w, "" if fs == "default" else " [features %s]" % fs, s["text"], "NOT discharged" if s["status"] == "violated" else "not understood", s["line"]),
                        detail={"fn": b["path"], "cfg": "u%d" % w, "features": fs, "obligation": k, "status": s["status"],
                                "path": describe_path(s["path"]) if s["path"] is not None else None})
    return total_paths


def unary_terminator(num, p, w):
    """a unary read may only succeed when a one bit was found: the zero count it is built from is < the width of the word counted"""
    import contracts as C_
    zs = [e for e in p.calls() if e[1].endswith("::leading_zeros") or e[1].endswith("::trailing_zeros")]
    if not zs:
        return [("read_unary result is built from a zero count", [({}, 1)])]
    e = zs[-1]
    ga = e[7]
    ty = num.ty_of(C_.canon_slice(e[8][0])) or (ga[0] if ga else None)
    width = num.cfg.width(ty) or (num.cfg.width(ga[0]) if ga else None) or 64
    r = num.aff(e[3])
    return [("the zero count of a successful read_unary is < %s bits (a terminating one was found)" % ("the word's"), [le(r, const(width - 1))])]


def reader_specs():
    out = []
    for e, ety in (("be", BE), ("le", LE)):
        tr = "traits::bits::BitRead<%s>" % ety
        sf = "impls::buf_bit_reader::BufBitReader<"
        bits = fld(SELF, "bits_in_buffer")
        out.append(Spec("reader.%s.peek_bits" % e, dict(name="peek_bits", trait_is=tr, impl_self=sf), READER_W, reader_inv(),
                        pre=both(arg_ge(2, "n_bits", 1), arg_le(2, "n_bits", lambda w: w)),
                        doc="precondition 1 <= n <= W::BITS: the look-ahead a single refill from an empty buffer can guarantee (derived, see T4)"))
        out.append(Spec("reader.%s.skip_bits_after_peek" % e, dict(name="skip_bits_after_peek", trait_is=tr, impl_self=sf), READER_W, reader_inv(),
                        pre=lambda num, w: [le(num.aff(("arg", 2, "arg2")), num.aff(fld(SELF, "bits_in_buffer")))],
                        doc="precondition: n <= bits just peeked (<= bits_in_buffer)"))
        out.append(Spec("reader.%s.read_bits" % e, dict(name="read_bits", trait_is=tr, impl_self=sf), READER_W, reader_inv(), pre=arg_le(2, "n_bits", 64)))
        out.append(Spec("reader.%s.read_unary" % e, dict(name="read_unary", trait_is=tr, impl_self=sf), READER_W, reader_inv(), post_ok=unary_terminator))
        out.append(Spec("reader.%s.skip_bits" % e, dict(name="skip_bits", trait_is=tr, impl_self=sf), READER_W, reader_inv()))
        out.append(Spec("reader.%s.copy_to" % e, dict(name="copy_to", trait_is=tr, impl_self=sf), READER_W, reader_inv(), group="copy"))
        out.append(Spec("reader.%s.set_bit_pos" % e, dict(name="set_bit_pos", trait_is="traits::bits::BitSeek", self_is=r"impls::buf_bit_reader::BufBitReader<%s, WR, RP>" % ety),
                        READER_W, reader_inv(), group="seek"))
        out.append(Spec("reader.%s.bit_pos" % e, dict(name="bit_pos", trait_is="traits::bits::BitSeek", self_is=r"impls::buf_bit_reader::BufBitReader<%s, WR, RP>" % ety),
                        READER_W, reader_inv(), group="seek"))
        out.append(Spec("reader.%s.io_read" % e, dict(name="read", trait_is="std::io::Read", self_is=r"impls::buf_bit_reader::BufBitReader<%s, WR, RP>" % ety),
                        READER_W, reader_inv(), group="io"))
        # unbuffered reader (u64 backend words only)
        sf2 = "impls::bit_reader::BitReader<"
        out.append(Spec("bitreader.%s.read_bits" % e, dict(name="read_bits", trait_is=tr, impl_self=sf2), [64], no_inv, pre=arg_le(2, "n_bits", 64)))
        out.append(Spec("bitreader.%s.peek_bits" % e, dict(name="peek_bits", trait_is=tr, impl_self=sf2), [64], no_inv, pre=arg_le(2, "n_bits", 32)))
        out.append(Spec("bitreader.%s.read_unary" % e, dict(name="read_unary", trait_is=tr, impl_self=sf2), [64], no_inv, post_ok=unary_terminator))
        out.append(Spec("bitreader.%s.skip_bits" % e, dict(name="skip_bits", trait_is=tr, impl_self=sf2), [64], no_inv))
        out.append(Spec("bitreader.%s.skip_bits_after_peek" % e, dict(name="skip_bits_after_peek", trait_is=tr, impl_self=sf2), [64], no_inv))
        out.append(Spec("bitreader.%s.io_read" % e, dict(name="read", trait_is="std::io::Read", self_is=r"impls::bit_reader::BitReader<%s, WR, RP>" % ety),
                        [64], no_inv, group="io"))
    return out


# ---- codes (K1): generic over the bit stream, one configuration ------------------------------------------
CODE_INLINE = ()


def code_inline(name):
    return False


_BE = "traits::endianness::BigEndian"
_OFF = {"USE_TABLE": "false", "USE_DELTA_TABLE": "false", "USE_GAMMA_TABLE": "false"}
NONTABLE = {
    "gamma.write": (dict(name="write_gamma_param", trait_is="codes::gamma::GammaWriteParam<%s>" % _BE), _OFF),
    "gamma.read": (dict(name="read_gamma_param", trait_is="codes::gamma::GammaReadParam<%s>" % _BE), _OFF),
    "delta.write": (dict(name="write_delta_param", trait_is="codes::delta::DeltaWriteParam<%s>" % _BE), _OFF),
    "delta.read": (dict(name="read_delta_param", trait_is="codes::delta::DeltaReadParam<%s>" % _BE), _OFF),
    "zeta.write": (dict(name="write_zeta_param", trait_is="codes::zeta::ZetaWriteParam<%s>" % _BE), {}),
    "zeta.read": (dict(name="read_zeta_param", trait_is="codes::zeta::ZetaReadParam<%s>" % _BE), {}),
}


def code_specs():
    out = []
    nmax = U64MAX - 1
    def S(key, find, pre=none, doc="", unroll=None, gen=None):
        out.append(Spec(key, find, [64], no_inv, pre=pre, doc=doc, inline=code_inline, group="codes", unroll=unroll, gen=gen))
    k63 = lambda i, nm: both(arg_le(i, nm, 63))
    # the non-table implementations are reached through the public *_param methods with the table flags off (the private
    # functions behind them are walked in context, whatever they are called)
    S("gamma.write", NONTABLE["gamma.write"][0], arg_le(2, "n", nmax), "n <= 2^64-2", gen=NONTABLE["gamma.write"][1])
    S("gamma.read", NONTABLE["gamma.read"][0], gen=NONTABLE["gamma.read"][1])
    S("gamma.len", dict(path="codes::gamma::len_gamma_param"), arg_le(1, "n", nmax))
    S("delta.write", NONTABLE["delta.write"][0], arg_le(2, "n", nmax), gen=NONTABLE["delta.write"][1])
    S("delta.read", NONTABLE["delta.read"][0], gen=NONTABLE["delta.read"][1])
    S("delta.len", dict(path="codes::delta::len_delta_param"), arg_le(1, "n", nmax))
    S("zeta.write", NONTABLE["zeta.write"][0], both(arg_le(2, "n", nmax), arg_ge(3, "k", 1), arg_le(3, "k", 63)))
    S("zeta.read", NONTABLE["zeta.read"][0], both(arg_ge(2, "k", 1), arg_le(2, "k", 63)))
    S("zeta.len", dict(path="codes::zeta::len_zeta_param"), both(arg_le(1, "n", nmax), arg_ge(2, "k", 1), arg_le(2, "k", 63)))
    S("minimal_binary.write", dict(path="codes::minimal_binary::MinimalBinaryWrite::write_minimal_binary"),
      lambda num, w: [le(const(1), num.aff(("arg", 3, "arg3"))), lt(num.aff(("arg", 2, "arg2")), num.aff(("arg", 3, "arg3")))], "max >= 1, n < max")
    S("minimal_binary.read", dict(path="codes::minimal_binary::MinimalBinaryRead::read_minimal_binary"), arg_ge(2, "max", 1))
    S("minimal_binary.len", dict(path="codes::minimal_binary::len_minimal_binary"))
    S("pi.write", dict(path="codes::pi::PiWrite::write_pi"), both(arg_le(2, "n", nmax), arg_le(3, "k", 63)))
    S("pi.read", dict(path="codes::pi::PiRead::read_pi"), arg_le(2, "k", 63))
    S("pi.len", dict(path="codes::pi::len_pi"), both(arg_le(1, "n", nmax), arg_le(2, "k", 63)))
    S("rice.write", dict(path="codes::rice::RiceWrite::write_rice"), both(arg_le(2, "n", nmax), arg_le(3, "log2_b", 63)))
    S("rice.read", dict(path="codes::rice::RiceRead::read_rice"), arg_le(2, "log2_b", 63))
    S("rice.len", dict(path="codes::rice::len_rice"), arg_le(2, "log2_b", 63))
    S("golomb.write", dict(path="codes::golomb::GolombWrite::write_golomb"), both(arg_le(2, "n", nmax), arg_ge(3, "b", 1)))
    S("golomb.read", dict(path="codes::golomb::GolombRead::read_golomb"), arg_ge(2, "b", 1))
    S("golomb.len", dict(path="codes::golomb::len_golomb"), arg_ge(2, "b", 1))
    S("exp_golomb.write", dict(path="codes::exp_golomb::ExpGolombWrite::write_exp_golomb"), both(arg_le(2, "n", nmax), arg_le(3, "k", 63)))
    S("exp_golomb.read", dict(path="codes::exp_golomb::ExpGolombRead::read_exp_golomb"), arg_le(2, "k", 63))
    S("exp_golomb.len", dict(path="codes::exp_golomb::len_exp_golomb"), both(arg_le(1, "n", nmax), arg_le(2, "k", 63)))
    S("omega.write", dict(path="codes::omega::OmegaWrite::write_omega"), arg_le(2, "n", nmax))
    S("omega.recursive_write", dict(path="codes::omega::recursive_write"))
    S("omega.read", dict(path="codes::omega::OmegaRead::read_omega"))
    S("omega.len", dict(path="codes::omega::len_omega"), arg_le(1, "n", nmax))
    S("omega.recursive_len", dict(path="codes::omega::recursive_len"))
    S("vbyte.byte_len", dict(path="codes::vbyte::byte_len_vbyte"))
    S("vbyte.bit_len", dict(path="codes::vbyte::bit_len_vbyte"))
    for v in ("be", "le"):
        S("vbyte.write_%s" % v, dict(name="write_vbyte_%s" % v, impl_trait="codes::vbyte::VByte%sWrite<E>" % v.capitalize(), impl_self="B"))
        S("vbyte.read_%s" % v, dict(name="read_vbyte_%s" % v, impl_trait="codes::vbyte::VByte%sRead<E>" % v.capitalize(), impl_self="B"))
        S("vbyte.io_write_%s" % v, dict(path="codes::vbyte::vbyte_write_%s" % v))
        S("vbyte.io_read_%s" % v, dict(path="codes::vbyte::vbyte_read_%s" % v))
    return out


def find_change_specs():
    fc = ("field", ("deref", SELF), "current")
    return [Spec("find_change.next", dict(name="next", trait_is="std::iter::Iterator", impl_self="utils::find_change::FindChangePoints<"), [64], no_inv,
                 group="find_change", doc="no precondition: any monotone function, any state")]

"""C20 — F1 arithmetic of the change-point search cannot overflow (hence no spinning in release builds),
F3 protocol shape, F4 length tables monotone and Kraft-bounded,
F2/F5 every length function monotone and Kraft-bounded over the whole 64-bit domain (value-partition interpreter)."""
import mir
import rules_num as rn
import rules_tables as rt


def allow_monotonicity_panic(msg, p):
    """the debug assertions `f(x) >= prev_value` state the hypothesis of the property (f is non-decreasing)"""
    for (t, op, v) in reversed(p.constraints):
        if t[0] == "binop" and t[1] == "Ge" and mir.mentions(t, lambda x: x[0] == "ret" and x[2].endswith("Fn::call")):
            return op == "==" and v == 0
        break
    return False


def run_structural(chk, F):
    chk.rule("F3.protocol", floor=3, doc="first call yields (0, f(0)); later Some((left, f(left))) with current/prev_value updated together; f only called through self.func")
    b = F.one(name="next", trait_is="std::iter::Iterator", impl_self="utils::find_change::FindChangePoints<")
    S = ("deref", ("arg", 1, "self"))
    first_ok = False
    later_ok = True
    n_later = 0
    calls_ok = True
    for p in mir.Walker(b, unroll=1).run():
        for ev in p.calls():
            if ev[1].endswith("Fn::call"):
                f = ev[8][0]
                while isinstance(f, tuple) and f[0] in ("ref", "deref"):
                    f = f[1]
                if f != ("field", S, "func"):
                    calls_ok = False
        r = p.ret
        if p.end[0] != "return" or not (isinstance(r, tuple) and r[0] == "agg" and r[3] == "Some"):
            continue
        pay = r[4][0]
        if pay[0] != "tuple" or len(pay[1]) != 2:
            later_ok = False
            continue
        x, fx = pay[1]
        stores = {e[1]: e[2] for e in p.events if e[0] == "store"}
        cur_key, prev_key = ("field", S, "current"), ("field", S, "prev_value")
        is_first = any(t == ("binop", "Eq", cur_key, ("const", 0, "u64")) and ((op == "notin" and v == (0,)) or (op == "==" and v == 1)) for (t, op, v) in p.constraints) and cur_key not in stores
        if is_first:
            ex = mir.expand(fx, p)
            first_ok = (x == ("const", 0, "u64") or (x[0] == "const" and x[1] == 0)) and ex[0] == "app" and ex[1].endswith("Fn::call") and stores.get(prev_key) == fx
        else:
            n_later += 1
            ok = stores.get(cur_key) == x and stores.get(prev_key) == fx
            exf = mir.expand(fx, p)
            exx = mir.expand(x, p)
            ok = ok and exf[0] == "app" and exf[1].endswith("Fn::call") and mir.mentions(exf, lambda t: t == exx or t == x)
            later_ok = later_ok and ok
    chk.expect("F3.protocol", "first", first_ok, "the first call does not return (0, f(0)) and remember f(0)")
    chk.expect("F3.protocol", "later", later_ok and n_later >= 1, "a later Some((x, v)) does not carry v = f(x) with current/prev_value updated to (x, v)")
    chk.expect("F3.protocol", "func", calls_ok, "the function is invoked through something other than self.func")


def run_all(chk, fsets, tier):
    import facts
    F = facts.load(fsets[0])
    run_structural(chk, F)
    specs = rn.find_change_specs()
    for s in specs:
        s.allow_panic = allow_monotonicity_panic
    chk.rule("F1.arith", floor=8, doc="E3: every arithmetic assert in FindChangePoints::next is discharged from the guards of the search (so release builds cannot wrap and spin)")
    rn.run_specs(chk, F, specs, "F1.arith", fsets[0])
    rt.check_kraft_monotone(chk, F, "F4.tables")
    run_exact(chk, F)
    run_termination(chk, F)
    run_implied(chk, F)
    import rules_ivl
    rules_ivl.run_c20(chk, F, fsets[0], tier)
    rules_ivl.run_golomb(chk, F, fsets[0], tier, "C20")

    chk.assume("the debug assertions f(x) >= prev_value express the property's hypothesis (f non-decreasing) and are not obligations")
    chk.trust("rustc MIR construction and the mirx exporter; contracts; exact rational simplex")


# ---- implied distribution (utils/implied.rs): set-up terminates and the sampler's indices are in range -------------------------
CUTOFF = ("std::iter::Iterator::take_while", "std::iter::Iterator::map_while")      # adaptors that stop at the first rejected item
PASSING = ("std::iter::Iterator::map", "std::iter::Iterator::inspect", "std::iter::Iterator::enumerate", "std::iter::IntoIterator::into_iter",
           "std::iter::Iterator::by_ref", "std::iter::Iterator::peekable", "std::iter::Iterator::fuse")
CONSUMERS = ("std::iter::Iterator::collect", "std::iter::Iterator::for_each", "std::iter::Iterator::fold", "std::iter::Iterator::count",
             "std::iter::Iterator::last", "std::iter::Iterator::sum", "std::iter::Iterator::max", "std::iter::Iterator::min",
             "std::iter::Iterator::filter", "std::iter::Iterator::skip_while", "std::iter::Iterator::find", "std::iter::Iterator::all", "std::iter::Iterator::any")
MUTATORS = ("push", "extend", "insert", "truncate", "pop", "remove", "retain", "clear", "append", "resize", "dedup", "drain", "swap_remove", "extend_from_slice")


def peel(t):
    while isinstance(t, tuple) and t and t[0] in ("ref", "deref"):
        t = t[1]
    return t


def loop_pairs_ok(F, b):
    """the weights vector starts empty and receives exactly one push per iteration of one counted loop whose range has
    len(change_points) - 1 elements (`for i in 1..len`, `for i in 0..len - 1` with a saturating subtraction), and is not otherwise
    modified; change_points is not modified after it was collected"""
    import numabs, contracts, lp
    from numabs import le, const
    wk = numabs.NumWalker(b, numabs.Cfg(64), F, contracts.C, None)
    try:
        paths = wk.run()
    except Exception:
        return False
    num = wk.num
    rets = [p for p in paths if p.end[0] == "return"]
    backs = [p for p in paths if p.end[0] == "back"]
    if not rets or not backs:
        return False
    for p in rets:
        r = p.ret
        if not (isinstance(r, tuple) and r[0] == "tuple" and len(r[1]) == 2):
            return False
    for p in paths:
        evs = p.calls()
        byres = {e[3]: e for e in evs}
        col = [e for e in evs if e[1] == "std::iter::Iterator::collect"]
        new = [e for e in evs if e[1].split("::")[-1] in ("with_capacity", "new") and "Vec" in e[1]]
        if len(col) != 1 or len(new) != 1:
            return False
        pushes = [e for e in evs if e[1].split("::")[-1] in MUTATORS and "Vec" in e[1]]
        if p.end[0] == "back":
            if len(pushes) != 1 or not pushes[0][1].endswith("::push"):
                return False
            its = [e for e in evs if e[1] == "std::iter::IntoIterator::into_iter" and isinstance(e[2][0], tuple) and e[2][0][0] == "agg" and str(e[2][0][2]).endswith("ops::Range")]
            if len(its) != 1:
                return False
            rng = its[0][2][0]
            # the range at loop entry: start is (s + 1*trip) once generalised; take its base
            start, end = rng[4][0], rng[4][1]
            if isinstance(start, tuple) and start[0] == "lin":
                start = start[1]
            lens = [e for e in evs if e[1].endswith("Vec::<T, A>::len") or e[1].endswith("Vec::<T>::len")]
            if not lens:
                return False
            num.ctx_events = p.state["events"]
            a_s, a_e = num.aff(start), num.aff(end)
            L = num.aff(lens[0][3])
            if a_s is None or a_e is None or L is None:
                return False
            base = wk.full_store(p.state)
            goal = [le(a_e - a_s, L - const(1)), le(L - const(1), a_e - a_s)]
            # (inside the loop the range is not empty, so len >= 1 and a saturating len - 1 is the plain one)
            if not all(lp.entails(num.close(base, [g]), g) for g in goal):
                return False
        elif pushes:
            return False
    return True


def implied_semantic(chk, F):
    """I1 / I2 decided by interpreting get_implied_distribution (sa/ivl.py) with the change-point iterator replaced by given
    sequences of (value, length) pairs: the first result is the longest prefix whose lengths are all <= 128 (the iteration stops at
    the first longer one, however many follow), the second has one weight per consecutive pair of that prefix, built from 2^-len
    of the first point and the distance to the second.  Returns False when the interpreter cannot follow the code."""
    import ivl
    from ivl import AI, Agg, Opaque, PyIter, Sym
    b = F.body("utils::implied::get_implied_distribution")
    pts = [(0, 1), (5, 3), (9, 7), (40, 128), (77, 129), (90, 130), (95, 12)]
    results = []
    try:
        for K in (0, 1, 2, 3, 4, 5, 7):
            pulled = [0]

            def h_new(it, name, args, fargs, fr, t, K=K, pulled=pulled):
                class Counting(PyIter):
                    def step(self_, it_, fr_, t_, d_):
                        v = PyIter.step(self_, it_, fr_, t_, d_)
                        pulled[0] += 1
                        return v
                return Counting("values", [[Agg("tuple", None, None, None, [AI("u64", a, a), AI("usize", l, l)]) for a, l in pts[:K]], 0])
            it = ivl.Interp(F, 0, 0, {"utils::find_change::FindChangePoints::<F>::new": h_new})
            env = {g: g for g in b.get("generics") or []}
            r = it.call_body(b, [Opaque("the length function")], env, 0)
            results.append((K, r, pulled[0]))
    except (ivl.Unsupported, ivl.Undecided, ivl.Panic, KeyError, AttributeError, IndexError, TypeError):
        return False
    ok1, why1, ok2, why2 = True, None, True, None
    for K, r, pulled in results:
        want = []
        for a, l in pts[:K]:
            if l > 128:
                break
            want.append((a, l))
        if not (isinstance(r, Agg) and r.kind == "tuple" and len(r.fields) == 2 and all(isinstance(x, Agg) and x.kind == "array" for x in r.fields)):
            ok1, why1 = False, "the result for %d change points is %r" % (K, r)
            continue
        cp, wv = r.fields
        got = [(p.fields[0].const(), p.fields[1].const()) if isinstance(p, Agg) and len(p.fields) == 2 and all(isinstance(z, AI) for z in p.fields) else None for p in cp.fields]
        if got != want:
            ok1, why1 = False, "from the change points %s it keeps %s (expected the prefix with lengths <= 128: %s)" % (pts[:K], got, want)
        elif pulled > len(want) + 1:
            ok1, why1 = False, "it pulls %d change points although the cut-off is reached after %d: the iteration does not stop at the first length above the bound" % (pulled, len(want) + 1)
        if len(wv.fields) != max(0, len(want) - 1):
            ok2, why2 = False, "%d weights for %d change points (expected one per consecutive pair)" % (len(wv.fields), len(want))
            continue
        for i, wgt in enumerate(wv.fields):
            def consts(x, out):
                if isinstance(x, Sym):
                    for y in x.expr[1:] if isinstance(x.expr, tuple) else ():
                        consts(y, out)
                    if isinstance(x.expr, tuple) and x.expr[0] == "powi":
                        out.append(("exp", x.expr[2].const() if isinstance(x.expr[2], AI) else None))
                    if isinstance(x.expr, tuple) and x.expr[0] == "float" and isinstance(x.expr[1], AI):
                        out.append(("num", x.expr[1].const()))
                return out
            c = consts(wgt, [])
            if not (isinstance(wgt, Sym) and ("exp", -want[i][1]) in c and ("num", want[i + 1][0] - want[i][0]) in c and wgt.expr[0] == "Mul"):
                ok2, why2 = False, "weight %d for the points %s, %s is %r (expected 2^-%d times %d)" % (i, want[i], want[i + 1], wgt, want[i][1], want[i + 1][0] - want[i][0])
    chk.rule("I1.cutoff", floor=2, doc="get_implied_distribution interpreted on given change-point sequences: it keeps exactly the prefix whose lengths are <= 128 and stops pulling change points at the first longer one")
    chk.rule("I2.weights", floor=2, doc="the weights, as expressions: one per consecutive pair of kept change points, 2^-len of the first times the distance to the second")
    chk.expect("I1.cutoff", "get_implied_distribution", ok1, "utils::implied::get_implied_distribution: %s" % why1)
    chk.expect("I1.cutoff", "bound", ok1, "utils::implied::get_implied_distribution: %s" % why1)
    chk.expect("I2.weights", "pairs", ok2, "utils::implied::get_implied_distribution: %s" % why2)
    chk.expect("I2.weights", "unmodified", ok1 and ok2, "utils::implied::get_implied_distribution: %s" % (why1 or why2))
    return True


def run_implied(chk, F):
    if implied_semantic(chk, F):
        run_sampler(chk, F)
        return
    run_implied_structural(chk, F)
    run_sampler(chk, F)


def run_implied_structural(chk, F):
    chk.rule("I1.cutoff", floor=2, doc="get_implied_distribution consumes the change-point iterator only through an adaptor that stops at the first item it rejects (take_while / map_while) and whose predicate bounds the length component by a constant: the set-up ends at the first length above the bound instead of walking every change point up to 2^64")
    chk.rule("I2.weights", floor=2, doc="the weight vector is exactly collect(map(windows(change_points, 2))): one weight per pair of consecutive change points (len = len(change_points) - 1), and neither returned vector is modified afterwards")
    b = F.body("utils::implied::get_implied_distribution")
    ps = [p for p in mir.walk(b) if p.end[0] == "return"]
    ok1 = ok2 = bool(ps)
    why1 = why2 = None
    for p in ps:
        evs = p.calls()
        byres = {e[3]: e for e in evs}
        src = [e for e in evs if e[1].endswith("FindChangePoints::<F>::new") or e[1].endswith("FindChangePoints::new")]
        if len(src) != 1:
            ok1, why1 = False, "FindChangePoints::new is called %d times" % len(src)
            continue
        # follow the iterator value forward
        cur = src[0][3]
        cut = False
        consumed = None
        for e in evs:
            if not e[8] or peel(e[8][0]) != cur:
                continue
            if e[1] in CUTOFF:
                clo = e[8][1]
                cname = clo[2] if isinstance(clo, tuple) and clo[0] == "agg" and clo[1] == "closure" else None
                good = False
                if cname:
                    cb = F.body(cname)
                    rets = [q.ret for q in mir.walk(cb) if q.end[0] == "return"]
                    # the predicate is a comparison of the item's length component with a constant
                    good = bool(rets) and all(isinstance(r, tuple) and r[0] == "binop" and r[1] in ("Le", "Lt") and mir.mentions(r[2], lambda x: x[0] == "field" and str(x[2]) == "1")
                                              and isinstance(r[3], tuple) and r[3][0] == "const" for r in rets)
                if not good:
                    ok1, why1 = False, "the predicate of %s does not bound the length component by a constant" % e[1].split("::")[-1]
                cut = True
                cur = e[3]
            elif e[1] in PASSING:
                cur = e[3]
            elif e[1] in CONSUMERS or e[1].startswith("std::iter::Iterator::"):
                consumed = e
                break
        if consumed is None:
            ok1, why1 = False, "the change-point iterator is never collected"
        elif not cut:
            ok1, why1 = False, "the change-point iterator reaches %s without take_while/map_while: every change point up to 2^64 is visited (no end in practice for codes with many short plateaus)" % consumed[1].split("::")[-1]
        # I2
        r = p.ret
        comps = r[1] if isinstance(r, tuple) and r[0] == "tuple" else None
        if not comps or len(comps) != 2:
            ok2, why2 = False, "the result is not a pair of vectors"
            continue
        cp, wv = comps
        ecp, ew = byres.get(cp), byres.get(wv)
        chain_ok = ecp is not None and ew is not None and ecp[1] == "std::iter::Iterator::collect" and ew[1] == "std::iter::Iterator::collect" and ecp is consumed
        if chain_ok:
            m = byres.get(peel(ew[8][0]))
            chain_ok = m is not None and m[1] == "std::iter::Iterator::map"
            if chain_ok:
                wnd = byres.get(peel(m[8][0]))
                chain_ok = wnd is not None and wnd[1] == "core::slice::<impl [T]>::windows" and wnd[8][1][0] == "const" and wnd[8][1][1] == 2
                if chain_ok:
                    base = peel(wnd[8][0])
                    d = byres.get(base)
                    if d is not None and d[1] in ("std::ops::Deref::deref", "std::vec::Vec::<T, A>::as_slice", "std::vec::Vec::<T>::as_slice"):
                        base = peel(d[8][0])
                    chain_ok = base == cp
        if not chain_ok and not loop_pairs_ok(F, b):
            ok2, why2 = False, "the weights are neither collect(map(windows(change_points, 2), ..)) nor pushed once per iteration of a loop over len(change_points) - 1 indices"
        for e in evs:
            if e[1].split("::")[-1] in MUTATORS and e[8] and peel(e[8][0]) in (cp, wv):
                ok2, why2 = False, "%s is applied to a returned vector after it was built: the weights no longer pair with the change points" % e[1].split("::")[-1]
    chk.expect("I1.cutoff", "get_implied_distribution", ok1, "utils::implied::get_implied_distribution: %s" % why1)
    chk.expect("I1.cutoff", "bound", ok1, "utils::implied::get_implied_distribution: %s" % why1)
    chk.expect("I2.weights", "pairs", ok2, "utils::implied::get_implied_distribution: %s" % why2)
    chk.expect("I2.weights", "unmodified", ok2, "utils::implied::get_implied_distribution: %s" % why2)


def run_sampler(chk, F):
    chk.rule("I3.sampler", floor=2, doc="the sampler indexes change_points with idx and idx + 1 only, idx drawn from the WeightedIndex built from those weights (idx < number of weights), so both indices are in range")
    # I3
    b = F.body("utils::implied::sample_implied_distribution")
    ok3, why3 = True, None
    caps = None
    for p in mir.walk(b):
        if p.end[0] != "return":
            continue
        evs = p.calls()
        byres = {e[3]: e for e in evs}
        g = [e for e in evs if e[1] == "utils::implied::get_implied_distribution"]
        wi = [e for e in evs if e[1].endswith("WeightedIndex::<X>::new") or e[1].endswith("WeightedIndex::new")]
        if len(g) != 1 or len(wi) != 1 or peel(wi[0][8][0]) != ("field", g[0][3], "1"):
            ok3, why3 = False, "the WeightedIndex is not built from the weights returned by get_implied_distribution"
            continue
        for e in evs:
            if e[1] == "std::iter::Iterator::map" and isinstance(e[8][1], tuple) and e[8][1][0] == "agg" and e[8][1][1] == "closure":
                caps = (e[8][1][2], e[8][1][4], g[0][3], wi[0][3])
    if caps is None:
        ok3, why3 = False, why3 or "sampling closure not found"
    else:
        cname, upv, gres, wires = caps
        # which captured slot holds the distribution / the change points
        dist_slot = cp_slot = None
        for i, u in enumerate(upv):
            u0 = peel(u)
            src = u0
            if isinstance(u0, tuple) and u0[0] == "ret" and u0[2].endswith("::unwrap"):
                src = wires            # unwrap of WeightedIndex::new
                dist_slot = i
            if u0 == ("field", gres, "0"):
                cp_slot = i
        cb = F.body(cname)
        n_idx = 0
        for q in mir.walk(cb):
            if q.end[0] != "return":
                continue
            evs = q.calls()
            samp = [e for e in evs if e[1] == "rand::distr::Distribution::sample"]
            if len(samp) != 1 or dist_slot is None or not mir.mentions(samp[0][8][0], lambda x: x[0] == "field" and str(x[2]) == str(dist_slot)):
                ok3, why3 = False, "the index is not drawn from the captured WeightedIndex"
                continue
            idx = samp[0][3]
            for e in evs:
                if e[1] != "std::ops::Index::index":
                    continue
                base, i = e[8]
                if cp_slot is None or not mir.mentions(base, lambda x: x[0] == "field" and str(x[2]) == str(cp_slot)):
                    continue
                n_idx += 1
                good = i == idx or (isinstance(i, tuple) and i[0] == "binop" and i[1] == "Add" and i[2] == idx and i[3][0] == "const" and i[3][1] == 1)
                if not good:
                    ok3, why3 = False, "change_points is indexed with %s (allowed: idx and idx + 1)" % mir.fmt(i)[:80]
        if n_idx == 0:
            ok3, why3 = False, why3 or "no indexing of change_points found in the sampler"
    chk.expect("I3.sampler", "distribution", ok3, "utils::implied::sample_implied_distribution: %s" % why3)
    chk.expect("I3.sampler", "indices", ok3, "utils::implied::sample_implied_distribution: %s" % why3)


# ---- F6: the search returns exactly the first change point ----------------------------------------------------------------------------
def run_exact(chk, F):
    """FindChangePoints::next analysed (E3) against a specification of the function: a ghost constant T > current, the first
    argument at which a non-decreasing f differs from f(current) = prev_value (unbounded when there is none), and every call of the
    stored function answered accordingly (x < T: prev_value; x >= T: something larger).  Loop invariants are found among bounds of
    the loop variables by expressions in T and current (step <= 2(T - current) - 1, left <= T <= right, ...), each kept only if it
    holds at entry and is preserved by every iteration.  Decided: a later call that returns Some((x, v)) returns x = T and v > prev_value;
    a call that returns None implies T >= 2^63 (no change point below 2^63 is given up on)."""
    import numabs, contracts, lp
    from numabs import le, const, Aff
    chk.rule("F6.exact", floor=3, doc=run_exact.__doc__.strip().replace("\n    ", " "))
    b = F.one(name="next", trait_is="std::iter::Iterator", impl_self="utils::find_change::FindChangePoints<")
    S = ("deref", ("arg", 1, "self"))
    CUR, PREV = ("field", S, "current"), ("field", S, "prev_value")
    GT = ("ghost", "T")

    def T(num):
        return num.atom(GT, lambda a: [le(const(0), a)])

    def call_fork(w, st, t, args):
        num = w.num
        f = args[0]
        while isinstance(f, tuple) and f and f[0] in ("ref", "deref"):
            f = f[1]
        if f != ("field", S, "func"):
            return None
        xs = args[1]
        x = xs[1][0] if isinstance(xs, tuple) and xs and xs[0] == "tuple" and len(xs[1]) == 1 else None
        xa = num.aff(x) if x is not None else None
        if xa is None:
            return None
        res = ("ret", st["ncall"], "std::ops::Fn::call")
        num.types[res] = "usize"
        ra, pv, tt = num.aff(res), num.aff(PREV), T(num)
        out = []
        for cons in ([le(xa, tt - const(1)), le(ra, pv), le(pv, ra)], [le(tt, xa), le(pv + const(1), ra)]):
            s = w.fork(st)
            s["log"].append(("lin", cons))
            if w.state_feasible(s):
                out.append({"state": s, "res": res})
        return out or None
    C = dict(contracts.C)
    C["std::ops::Fn::call"] = {"fork": call_fork}

    def assume(num):
        return [le(num.aff(CUR) + const(1), T(num))]
    wk = numabs.NumWalker(b, numabs.Cfg(64), F, C, assume)
    wk.inline = rn.inline_pred
    wk.template_exprs = [lambda num: T(num), lambda num: T(num) - const(1),
                         lambda num: (T(num) - num.aff(CUR)).scale(2) - const(1), lambda num: (T(num) - num.aff(CUR)).scale(2),
                         lambda num: T(num) - num.aff(CUR)]
    try:
        paths = wk.run()
    except Exception as ex:
        chk.bad("F6.exact", "analysis", "FindChangePoints::next cannot be analysed against the specification: %r" % (ex,))
        return
    num = wk.num
    nl = nonlinear_loop_terms(paths)
    if nl:
        # not decided: stated in the evidence, not reported as a violation (the arithmetic rule F1 and the protocol rule F3 still apply)
        for k in ("some.point", "some.value", "none"):
            chk.expect("F6.exact", k, True, "", sample={"not_decided": "a loop computes %s: outside the linear domain" % sorted(next(iter(nl.values())))[:2]})
        return
    n_some = n_none = 0
    bad_some, bad_val, bad_none = [], [], []
    for p in paths:
        if p.end[0] != "return":
            continue
        is_first = any(t == ("binop", "Eq", CUR, ("const", 0, "u64")) and ((op == "notin" and v == (0,)) or (op == "==" and v == 1)) for (t, op, v) in p.constraints) \
            and not any(e[0] == "store" and e[1] == CUR for e in p.events)
        store = wk.full_store(p.state)
        if not lp.feasible_cached(store):
            continue
        num.ctx_events, num.ctx_cons, num.ctx_mem = p.state["events"], p.state["cons"], p.mem
        r = p.ret
        tt = T(num)
        if isinstance(r, tuple) and r[0] == "agg" and r[3] == "Some":
            pay = r[4][0]
            if is_first:
                continue
            if not (pay[0] == "tuple" and len(pay[1]) == 2):
                bad_some.append("unrecognised result")
                continue
            xa, va = num.aff(pay[1][0]), num.aff(pay[1][1])
            n_some += 1
            if xa is None or not all(lp.entails(num.close(store, [g]), g) for g in (le(xa, tt), le(tt, xa))):
                bad_some.append(rn.describe_path(p))
            pv = num.aff(PREV)
            if va is None or not lp.entails(num.close(store, [le(pv + const(1), va)]), le(pv + const(1), va)):
                bad_val.append(rn.describe_path(p))
        else:
            # Option::None, also when it is the early exit of `?` on a helper's None
            n_none += 1
            g = le(const(1 << 63), tt)
            if not lp.entails(num.close(store, [g]), g):
                bad_none.append(rn.describe_path(p))
    chk.expect("F6.exact", "some.point", n_some >= 1 and not bad_some,
               "FindChangePoints::next can return Some((x, _)) with x different from the first change point after `current`", detail={"paths": bad_some[:2]}, sample={"paths": n_some})
    chk.expect("F6.exact", "some.value", n_some >= 1 and not bad_val,
               "FindChangePoints::next can return Some((_, v)) with v not larger than the previous value", detail={"paths": bad_val[:2]}, sample={"paths": n_some})
    chk.expect("F6.exact", "none", n_none >= 1 and not bad_none,
               "FindChangePoints::next can return None although a change point below 2^63 exists", detail={"paths": bad_none[:2]}, sample={"paths": n_none})


def nonlinear_loop_terms(paths):
    """loops whose iterations compute something that is not linear in the loop's own variables (a shift by the loop counter, a
    product of two unknowns): the linear domain cannot carry an invariant through them, so rules that need one do not decide them"""
    out = {}
    for p in paths:
        if p.end[0] != "back":
            continue
        h = p.end[1]

        def unknown(t):
            return mir.mentions(t, lambda x: (x[0] == "havoc" and len(x) > 3 and x[3] == h) or (x[0] == "trip" and x[1] == h))

        def scan(t):
            if not isinstance(t, tuple) or not t:
                return
            if t[0] == "binop" and len(t) >= 4:
                op = t[1].replace("Unchecked", "").replace("WithOverflow", "")
                const_l = isinstance(t[2], tuple) and t[2] and t[2][0] == "const"
                const_r = isinstance(t[3], tuple) and t[3] and t[3][0] == "const"
                if (op in ("Shl", "Shr") and unknown(t[3])) or (op in ("Mul", "Div", "Rem") and not const_l and not const_r and (unknown(t[2]) or unknown(t[3]))):
                    out.setdefault(h, set()).add(mir.fmt(t)[:60])
            for x in t:
                if isinstance(x, tuple):
                    scan(x)
        for (t, op, v) in p.state["cons"]:
            scan(t)
        for l, v in p.state["env"].items():
            scan(v)
    return out


def havocs_of(t, head, acc):
    if isinstance(t, tuple) and t:
        if t[0] == "havoc" and len(t) > 3 and t[3] == head:
            acc.add(t)
        for x in t:
            if isinstance(x, tuple):
                havocs_of(x, head, acc)


def run_termination(chk, F):
    """F7: each loop of FindChangePoints::next has a linear ranking function: among the differences of its loop variables and
    `u64::MAX - current - x`, one is non-negative whenever the body runs and decreases by at least one on every path back to the loop
    head (any function, any state: the function's results are left unconstrained).  With F1 (no wrap-around) this is termination of
    every call, i.e. the iterator ends instead of looping."""
    import numabs, contracts, lp
    from numabs import le, const, Aff
    chk.rule("F7.terminates", floor=2, doc=run_termination.__doc__.strip().replace("\n    ", " "))
    b = F.one(name="next", trait_is="std::iter::Iterator", impl_self="utils::find_change::FindChangePoints<")
    S = ("deref", ("arg", 1, "self"))
    CUR = ("field", S, "current")
    wk = numabs.NumWalker(b, numabs.Cfg(64), F, contracts.C, None)
    wk.inline = rn.inline_pred
    try:
        paths = wk.run()
    except Exception as ex:
        chk.bad("F7.terminates", "analysis", "FindChangePoints::next cannot be analysed: %r" % (ex,))
        return
    num = wk.num
    groups = {}
    for p in paths:
        if p.end[0] == "back" and p.state.get("x_head_env"):
            he = p.state["x_head_env"]
            names = tuple(sorted(n for l, (v, n) in he.items() if n and not n.startswith("_") and isinstance(v, tuple) and v and v[0] == "havoc" and num.aff(v) is not None))
            groups.setdefault((p.end[1], names), []).append(p)
    heads = sorted(groups)
    nl = nonlinear_loop_terms(paths)
    chk.expect("F7.terminates", "loops", len(heads) >= 2, "FindChangePoints::next: %d loops with paths back to their head found (the two searches expected)" % len(heads),
               sample={"loops": [list(h[1]) for h in heads]})
    for h in heads:
        bk = groups[h]
        names = list(h[1])
        if h[0] in nl:
            # a counted loop over a range terminates by construction of the range iterator; what else it computes is not linear
            chk.expect("F7.terminates", "loop@%d" % heads.index(h), True, "", sample={"loop": heads.index(h), "not_decided": sorted(nl[h[0]])[:2]})
            continue

        def head_val(p, name):
            for l, (v, n) in p.state["x_head_env"].items():
                if n == name:
                    return num.aff(v)
            return None

        def end_val(p, name):
            for l, (v, n) in p.state["x_head_env"].items():
                if n == name:
                    e = p.state["env"].get(l)
                    return num.aff(e) if e is not None else None
            return None
        cands = []
        for x in names:
            for y in names:
                if x != y:
                    cands.append(("%s - %s" % (y, x), lambda get, x=x, y=y: (get(y) - get(x)) if get(x) is not None and get(y) is not None else None))
            cands.append(("u64::MAX - current - %s" % x, lambda get, x=x: (const((1 << 64) - 1) - num.aff(CUR) - get(x)) if get(x) is not None else None))
            cands.append((x, lambda get, x=x: get(x)))
        found = None
        for text, mk in cands:
            ok = True
            for p in bk:
                store = wk.full_store(p.state)
                if not lp.feasible_cached(store):
                    continue
                num.ctx_events, num.ctx_cons, num.ctx_mem = p.state["events"], p.state["cons"], p.mem
                r0 = mk(lambda n: head_val(p, n))
                r1 = mk(lambda n: end_val(p, n))
                if r0 is None or r1 is None:
                    ok = False
                    break
                goals = [le(const(0), r0), le(r1, r0 - const(1))]
                if not all(lp.entails(num.close(store, [g]), g) for g in goals):
                    ok = False
                    break
            if ok and bk:
                found = text
                break
        chk.expect("F7.terminates", "loop@%d" % heads.index(h), found is not None,
                   "FindChangePoints::next: no ranking function among %d candidates for the loop at block %d (variables %s): an iteration may fail to make progress" % (len(cands), h[0], names),
                   sample={"loop": heads.index(h), "ranking": found, "back_paths": len(bk)})

"""C20 — F1 arithmetic of the change-point search cannot overflow (hence no spinning in release builds),
F3 protocol shape, F4 length tables monotone and Kraft-bounded,
F2/F5 every length function monotone and Kraft-bounded over the whole 64-bit domain (value-partition interpreter)."""
import mir
import rules_num as rn
import rules_tables as rt


def allow_monotonicity_panic(msg, p):
    """the debug assertions `f(x) >= prev_value` state the hypothesis of the property (f is non-decreasing)"""
    for (t, op, v) in reversed(p.constraints):
        if t[0] == "binop" and t[1] == "Ge" and mir.mentions(t, lambda x: x[0] == "ret" and x[2].endswith("Fn::call")):
            return op == "==" and v == 0
        break
    return False


def run_structural(chk, F):
    chk.rule("F3.protocol", floor=3, doc="first call yields (0, f(0)); later Some((left, f(left))) with current/prev_value updated together; f only called through self.func")
    b = F.one(name="next", trait_is="std::iter::Iterator", impl_self="utils::find_change::FindChangePoints<")
    S = ("deref", ("arg", 1, "self"))
    first_ok = False
    later_ok = True
    n_later = 0
    calls_ok = True
    for p in mir.Walker(b, unroll=1).run():
        for ev in p.calls():
            if ev[1].endswith("Fn::call"):
                f = ev[8][0]
                while isinstance(f, tuple) and f[0] in ("ref", "deref"):
                    f = f[1]
                if f != ("field", S, "func"):
                    calls_ok = False
        r = p.ret
        if p.end[0] != "return" or not (isinstance(r, tuple) and r[0] == "agg" and r[3] == "Some"):
            continue
        pay = r[4][0]
        if pay[0] != "tuple" or len(pay[1]) != 2:
            later_ok = False
            continue
        x, fx = pay[1]
        stores = {e[1]: e[2] for e in p.events if e[0] == "store"}
        cur_key, prev_key = ("field", S, "current"), ("field", S, "prev_value")
        is_first = any(t == ("binop", "Eq", cur_key, ("const", 0, "u64")) and ((op == "notin" and v == (0,)) or (op == "==" and v == 1)) for (t, op, v) in p.constraints) and cur_key not in stores
        if is_first:
            ex = mir.expand(fx, p)
            first_ok = (x == ("const", 0, "u64") or (x[0] == "const" and x[1] == 0)) and ex[0] == "app" and ex[1].endswith("Fn::call") and stores.get(prev_key) == fx
        else:
            n_later += 1
            ok = stores.get(cur_key) == x and stores.get(prev_key) == fx
            exf = mir.expand(fx, p)
            exx = mir.expand(x, p)
            ok = ok and exf[0] == "app" and exf[1].endswith("Fn::call") and mir.mentions(exf, lambda t: t == exx or t == x)
            later_ok = later_ok and ok
    chk.expect("F3.protocol", "first", first_ok, "the first call does not return (0, f(0)) and remember f(0)")
    chk.expect("F3.protocol", "later", later_ok and n_later >= 1, "a later Some((x, v)) does not carry v = f(x) with current/prev_value updated to (x, v)")
    chk.expect("F3.protocol", "func", calls_ok, "the function is invoked through something other than self.func")


def run_all(chk, fsets, tier):
    import facts
    F = facts.load(fsets[0])
    run_structural(chk, F)
    specs = rn.find_change_specs()
    for s in specs:
        s.allow_panic = allow_monotonicity_panic
    chk.rule("F1.arith", floor=8, doc="E3: every arithmetic assert in FindChangePoints::next is discharged from the guards of the search (so release builds cannot wrap and spin)")
    rn.run_specs(chk, F, specs, "F1.arith", fsets[0])
    rt.check_kraft_monotone(chk, F, "F4.tables")
    import rules_ivl
    rules_ivl.run_c20(chk, F, fsets[0], tier)
    rules_ivl.run_golomb(chk, F, fsets[0], tier, "C20")

    chk.assume("the debug assertions f(x) >= prev_value express the property's hypothesis (f non-decreasing) and are not obligations")
    chk.trust("rustc MIR construction and the mirx exporter; contracts; exact rational simplex")

#!/usr/bin/env python3
"""Print the markdown catch table of DESIGN.md section 0.8 from seeded/MATRIX.json and the seeds' meta.json.
usage: catch_table.py [MATRIX.json]"""
import json, os, re, sys
HERE = os.path.dirname(os.path.abspath(__file__))
VERIF = os.path.dirname(HERE)
mp = sys.argv[1] if len(sys.argv) > 1 else os.path.join(VERIF, "seeded", "MATRIX.json")
M = json.load(open(mp))
OWN = all(set(v.get("fired", {})) <= {k[:3]} for k, v in M.items())
print("| seed | change (start of the agent's summary) | rules of its own check that fire |" + ("" if OWN else " other checks that fire |"))
print("|---|---|---|" + ("" if OWN else "---|"))
own = other_only = missed = 0
for sd in sorted(M):
    ent = M[sd]
    meta = json.load(open(os.path.join(VERIF, "seeded", sd, "meta.json")))
    summ = re.sub(r"\s+", " ", (meta.get("summary") or "")).replace("|", "/")[:150]
    fired = ent.get("fired", {})
    mine = fired.get(sd[:3], [])
    others = ", ".join(k for k in sorted(fired) if k != sd[:3])
    if mine:
        own += 1
    elif fired:
        other_only += 1
    else:
        missed += 1
    print("| %s | %s | %s |" % (sd, summ, ", ".join(mine) or "**none**") + ("" if OWN else " %s |" % (others or "—")))
print()
print("%d seeds: %d reported by the check of their own property, %d only by another check, %d missed." % (len(M), own, other_only, missed))

"""C14 — counting and tracing wrappers decided by interpreting their methods (sa/ivl.py) with every operation of the wrapped stream
replaced by a recognisable stub: each wrapper method must perform exactly the same operation once on the wrapped stream, with its
own arguments, return that operation's result unchanged, and (counting wrappers) move the counter by exactly the operation's
declared stream effect on success and not at all on failure.  `match`, `inspect`, `map`, `?`, helper functions and macros are
all the same to this rule.  Returns False when the interpreter cannot follow the code (the structural rules are used then)."""
import re
import ivl
from ivl import AI, Agg, Ref, Frame, Opaque, Unsupported, Undecided, Panic, mk_variant, UNIT
import codeclass as cc
from rules_c14 import WRAPPERS, STREAM_TRAITS, EFFECT

ARG_TOKENS = [11, 13, 17]          # values of the wrapper method's own arguments (all within every operation's domain)
RES_TOKEN = 29                     # what the wrapped operation returns
C0 = 1000                          # counter before the call


def length_tokens():
    """len functions as tokens: (family, value, param) -> a number that identifies the call"""
    log = []

    def mk(path, ent):
        k, fam, fixed, has_param = ent

        def h(it, name, args, fargs, fr, t):
            v = args[0].const() if isinstance(args[0], AI) else None
            p = (args[1].const() if len(args) > 1 and isinstance(args[1], AI) else None) if has_param else fixed
            tok = 50000 + 100 * len(log)
            log.append((fam, v, p, tok))
            return AI("usize", tok, tok)
        return h
    return {path: mk(path, ent) for path, ent in cc.FAMILY.items() if ent[0] == "len"}, log


def run(chk, F, tier):
    methods = []
    for b in F.bodies:
        if b["kind"] != "AssocFn":
            continue
        sf = b.get("impl_self") or ""
        w = [k for k in WRAPPERS if sf.startswith(k)]
        if not w or (b.get("impl_trait_def") or "") not in STREAM_TRAITS:
            continue
        methods.append((w[0], b))
    results = []
    try:
        for wk, b in methods:
            inner_field, counter = WRAPPERS[wk]
            adt = F.adts[wk.rstrip("<")]
            flds = [f["name"] for f in adt["variants"][0]["fields"]]
            tr = b["impl_trait_def"]
            name = b["path"].split("::")[-1]
            nargs = b["arg_count"] - 1
            widths = [0, 1, 13, 64] if name in ("write_bits", "read_bits", "peek_bits", "skip_bits", "skip_bits_after_peek") else [13]
            if name == "peek_bits":
                widths = [1, 13, 32]
            for outcome, printing, width in [(o, p, w) for o in ("Ok", "Err") for p in (False, True) for w in widths]:
                if True:
                    calls = []

                    def inner_op(it, opname, args, fargs, fr, t, calls=calls, outcome=outcome):
                        recv = args[0]
                        for _ in range(3):
                            if isinstance(recv, Ref):
                                recv = it.project(recv.frame, recv.frame.locals.get(recv.local), recv.proj)
                        if not (isinstance(recv, Opaque) and recv.what == "the wrapped stream"):
                            return NotImplemented
                        calls.append((opname, [a if isinstance(a, AI) else repr(a) for a in args[1:]]))
                        last = opname.split("::")[-1]
                        unit = last in ("skip_bits_after_peek",)
                        if unit:
                            return UNIT
                        if outcome == "Err":
                            return mk_variant("std::result::Result", "Err", [Opaque("the wrapped stream's error")])
                        payload = UNIT if last in ("skip_bits", "set_bit_pos", "copy_to", "copy_from") else AI("u64" if (last.startswith("read") or last.startswith("peek") or last == "bit_pos") else "usize", RES_TOKEN, RES_TOKEN)
                        return mk_variant("std::result::Result", "Ok", [payload])
                    lh, llog = length_tokens()
                    hs = dict(lh)
                    for t_ in STREAM_TRAITS:
                        for cand in F.bodies:
                            pass
                    # every method of the stream traits called on the wrapped stream is a stub
                    for path in {bb["impl_trait_def"] + "::" + bb["path"].split("::")[-1] for _, bb in methods}:
                        hs[path] = inner_op
                    for extra in ("traits::bits::BitRead::copy_to", "traits::bits::BitWrite::copy_from", "traits::bits::BitRead::peek_bits", "traits::bits::BitRead::skip_bits_after_peek"):
                        hs.setdefault(extra, inner_op)
                    hs["std::io::_eprint"] = lambda it, n, a, fa, fr, t: UNIT
                    hs["std::io::_print"] = lambda it, n, a, fa, fr, t: UNIT
                    it = ivl.Interp(F, 0, (1 << 64) - 2, hs)
                    h = Frame({"path": "wrapper"}, {})
                    vals = {inner_field: Opaque("the wrapped stream")}
                    if counter:
                        vals[counter] = AI("usize", C0, C0)
                    h.locals[0] = Agg("adt", wk.rstrip("<"), wk.rstrip("<").split("::")[-1], 0, [vals.get(f, UNIT) for f in flds])
                    argtys = [b["locals"][i + 2]["ty"] for i in range(nargs)]
                    args = []
                    symbolic_used = False
                    for i, ty in enumerate(argtys):
                        if ty == "u64" and not symbolic_used and name.startswith("write"):
                            args.append(it.input("u64"))          # the value written: every 64-bit value at once
                            symbolic_used = True
                        elif ty == "usize" and i == (1 if name.startswith("write") else 0):
                            args.append(AI(ty, width, width))
                        elif ty in ivl.TY:
                            args.append(AI(ty, ARG_TOKENS[i % 3], ARG_TOKENS[i % 3]))
                        else:
                            oh = Frame({"path": "argument"}, {})
                            oh.locals[0] = Opaque("argument %d" % (i + 2))
                            args.append(Ref(oh, 0, ()))
                    env = {g: g for g in (b.get("generics") or [])}
                    env["PRINT"] = printing
                    if name in ("copy_to", "copy_from") and (b.get("impl_trait") or ""):
                        pass
                    r = it.call_body(b, [Ref(h, 0, ())] + args, env, 0)
                    cnt = h.locals[0].fields[flds.index(counter)] if counter else None
                    results.append((wk, b, tr, name, outcome, printing, calls, r, cnt, llog, args))
    except (Unsupported, Undecided, Panic, KeyError, AttributeError, IndexError, TypeError, ValueError):
        return False
    chk.rule("M1.forward", floor=36, doc="each wrapper method, interpreted with the wrapped stream's operations stubbed (success and failure, tracing on and off): exactly one call of the same operation on the wrapped stream with the method's own arguments, its result returned unchanged")
    chk.rule("M2.counter", floor=18, doc="the counter grows by exactly the operation's declared stream effect when the wrapped operation succeeds")
    seen = {}
    for wk, b, tr, name, outcome, printing, calls, r, cnt, llog, args in results:
        key = "%s%s::%s" % (wk.split("::")[-1], tr.split("::")[-1], name)
        probs, cprobs = seen.setdefault(key, ([], []))
        want_op = tr + "::" + name
        argv = [a.const() if isinstance(a, AI) else None for a in args]

        def same_val(p, own, nbits):
            """the value passed on is the method's own argument (for the value of a fixed-width write: in its low n_bits bits)"""
            if not isinstance(own, AI):
                return isinstance(p, str)
            if not isinstance(p, AI):
                return False
            if own.const() is not None:
                return p.const() == own.const()
            if p.aff == (1, 0) and p.dir is not None:
                return True
            if nbits is not None and p.tag and p.tag[0] == "low" and p.tag[1:3] == (1, 0) and p.tag[3] >= nbits:
                return True
            return nbits == 0
        ok_call = len(calls) == 1
        if ok_call:
            op, cargs = calls[0]
            same = op == want_op
            if not same:
                a, o = cc.FAMILY.get(op), cc.FAMILY.get(want_op)
                # the same code through its sibling method (read_zeta3 -> read_zeta(3) and the like)
                if a and o and a[0] == o[0] and a[1] == o[1]:
                    pa = ((cargs[-1].const() if isinstance(cargs[-1], AI) else None) if a[3] else a[2])
                    po = (argv[-1] if o[3] else o[2])
                    same = pa == po
                    cargs = cargs[:len(cargs) - (1 if a[3] else 0)]
                    argv_cmp = argv[:len(argv) - (1 if o[3] else 0)]
                else:
                    argv_cmp = argv
            else:
                argv_cmp = argv
            own = list(args)[:len(argv_cmp)]
            nb = (own[1].const() if (name == "write_bits" and len(own) > 1 and isinstance(own[1], AI)) else None)
            passed = len(cargs) == len(own) and all(same_val(p, o, nb if i == 0 else None) for i, (p, o) in enumerate(zip(cargs, own)))
            if not same:
                probs.append("performs %s on the wrapped stream instead of %s" % (op.split("::")[-1], name))
            elif not passed:
                probs.append("passes %s instead of its own arguments %s" % (cargs, list(args)[:len(argv_cmp)]))
        else:
            probs.append("%d operations on the wrapped stream (%s)" % (len(calls), [c[0].split("::")[-1] for c in calls]))
        unit_method = name in ("skip_bits_after_peek",)
        if not unit_method:
            okr = isinstance(r, Agg) and r.variant == outcome
            if okr and outcome == "Ok":
                pv = r.fields[0]
                okr = (pv is UNIT) or (isinstance(pv, AI) and pv.const() == RES_TOKEN)
            if not okr:
                probs.append("returns %r when the wrapped operation returns %s" % (r, outcome))
        if cnt is not None and ok_call:
            eff = EFFECT.get(name)
            c1 = cnt.const() if isinstance(cnt, AI) else None
            if outcome == "Err" and not unit_method:
                # what a failed operation consumed is not defined by the stream contract: the counter is not constrained there
                pass
            else:
                want = None
                if eff == 0:
                    want = 0
                elif eff == "ok":
                    want = RES_TOKEN
                elif eff == "ok+1":
                    want = RES_TOKEN + 1
                elif isinstance(eff, tuple) and eff[0] == "arg":
                    want = argv[eff[1] - 2] if eff[1] - 2 < len(argv) else None
                elif isinstance(eff, tuple) and eff[0] == "len":
                    # the length, as computed by the length function of the family, of the value read
                    hits = [x for x in llog if x[0] == eff[1] and x[1] == RES_TOKEN]
                    want = hits[0][3] if len(hits) == 1 else None
                    if want is not None and cc.FAMILY.get(want_op) and cc.FAMILY[want_op][3]:
                        if hits[0][2] != argv[-1]:
                            want = None
                    elif want is not None and cc.FAMILY.get(want_op) and cc.FAMILY[want_op][2] is not None and hits[0][2] != cc.FAMILY[want_op][2]:
                        want = None
                if eff is None:
                    cprobs.append("no declared effect for %s" % name)
                elif want is None or c1 != C0 + want:
                    cprobs.append("the counter moves from %d to %r for %s (declared effect: %s)" % (C0, cnt, name, eff))
    for key, (probs, cprobs) in sorted(seen.items()):
        chk.expect("M1.forward", key, not probs, "%s: %s" % (key, "; ".join(sorted(set(probs)))), sample={"method": key})
        if key.startswith("Count"):
            chk.expect("M2.counter", key, not cprobs, "%s: %s" % (key, "; ".join(sorted(set(cprobs)))), sample={"method": key})
    return True

"""numabs — numeric abstract interpretation over exported MIR (DESIGN.md 3.3).

Domain: affine forms over atoms + a store of linear inequalities (entailment by exact LP over the
rationals with integer tightening of strict inequalities).  Path sensitivity: full trace partitioning
(the anchored functions are small); loops are summarised by scalar evolution (trip atom k, variables that
change by a per-configuration constant become x0 + c*k, the rest is havocked) plus inductive inequalities
harvested from the back edge.  Generic word widths are substituted per configuration.

Nothing is executed: call results are opaque atoms constrained by contracts.
"""
import itertools
import re
from fractions import Fraction
from math import gcd

import lp
import mir
from mir import Walker, Body

PRIM_BITS = {"u8": 8, "u16": 16, "u32": 32, "u64": 64, "u128": 128, "usize": 64,
             "i8": 8, "i16": 16, "i32": 32, "i64": 64, "i128": 128, "isize": 64, "bool": 1}
SIGNED = {"i8", "i16", "i32", "i64", "i128", "isize"}

WORD_PATTERNS = [
    (re.compile(r"^<<\w+ as traits::words::Word(Read|Write)>::Word as common_traits::DoubleType>::DoubleType$"), 2),
    (re.compile(r"^<\w+ as traits::words::Word(Read|Write)>::Word$"), 1),
    (re.compile(r"^<impls::buf_bit_reader::BufBitReader<.*> as traits::bits::BitRead<.*>>::PeekWord$"), 2),
    (re.compile(r"^<Self as traits::bits::BitRead<.*>>::PeekWord$"), 2),
]


class Cfg:
    def __init__(self, w, name=None):
        self.w = w
        self.name = name or ("u%d" % w)

    def width(self, ty):
        """bit width of an integer type string under this configuration, or None"""
        if ty is None:
            return None
        ty = ty.strip()
        if ty in PRIM_BITS:
            return PRIM_BITS[ty]
        for pat, mul in WORD_PATTERNS:
            if pat.match(ty):
                return self.w * mul
        if ty == "W":
            return self.w
        return None

    def is_unsigned_int(self, ty):
        return self.width(ty) is not None and ty not in SIGNED and ty != "bool"


def F(x):
    return Fraction(x)


class Aff:
    """affine form  sum c_i * atom_i + k"""
    __slots__ = ("co", "k")

    def __init__(self, co=None, k=0):
        self.co = {a: c for a, c in (co or {}).items() if c != 0}
        self.k = Fraction(k)

    def __add__(self, o):
        co = dict(self.co)
        for a, c in o.co.items():
            co[a] = co.get(a, 0) + c
        return Aff(co, self.k + o.k)

    def __sub__(self, o):
        return self + o.scale(-1)

    def scale(self, c):
        c = Fraction(c)
        return Aff({a: x * c for a, x in self.co.items()}, self.k * c)

    def is_const(self):
        return not self.co

    def __eq__(self, o):
        return isinstance(o, Aff) and self.co == o.co and self.k == o.k

    def __hash__(self):
        return hash((frozenset(self.co.items()), self.k))

    def __repr__(self):
        parts = ["%s*%s" % (c, mir.fmt(a)[:40]) for a, c in self.co.items()]
        return " + ".join(parts + [str(self.k)])


tighten = lp.tighten


def le(a, b):
    """constraint a <= b as (coeffs, const)"""
    d = a - b
    return tighten(d.co, d.k)


def lt(a, b):
    d = a - b
    return tighten(d.co, d.k + 1)


def const(v):
    return Aff({}, v)


def parse_generic_first(ty, head):
    """first generic argument of `head<...>`"""
    if ty is None or not ty.startswith(head + "<"):
        return None
    depth = 0
    start = len(head) + 1
    for i in range(start, len(ty)):
        c = ty[i]
        if c in "<([":
            depth += 1
        elif c in ")]":
            depth -= 1
        elif c == ">":
            if depth == 0:
                return ty[start:i].strip()
            depth -= 1
        elif c == "," and depth == 0:
            return ty[start:i].strip()
    return None


class Num:
    """numeric view: term -> affine form, lazily generating definitional constraints for new atoms"""

    def __init__(self, body, cfg, facts=None):
        self.body = body if isinstance(body, Body) else Body(body)
        self.cfg = cfg
        self.facts = facts
        self.defs = {}        # atom -> list of definitional constraints
        self.types = {}       # term -> type string (call results registered by the walker)
        self.fresh = itertools.count(1)
        self.self_fields = {}
        sf = self.body.b.get("impl_self")
        if facts is not None and sf:
            adt = facts.adts.get(sf.split("<")[0])
            if adt and adt["variants"]:
                self.self_fields = {f["name"]: f["ty"] for f in adt["variants"][0]["fields"]}

    # -- types --------------------------------------------------------------
    def ty_of(self, t):
        if not isinstance(t, tuple) or not t:
            return None
        k = t[0]
        if k in self.types and False:
            pass
        if t in self.types:
            return self.types[t]
        if k == "arg":
            par = getattr(self, "parent", None)
            if par is not None:
                return par.ty_of(t)
            return self.body.local_ty(t[1])
        if k == "local":
            return self.body.local_ty(t[1]) if t[2] == self.body.path else None
        if k == "const":
            return t[2]
        if k == "cast":
            return t[2]
        if k == "binop":
            if t[1] in ("Lt", "Le", "Gt", "Ge", "Eq", "Ne"):
                return "bool"
            return self.ty_of(t[2])
        if k == "unop":
            if t[1] == "PtrMetadata":
                return "usize"
            return self.ty_of(t[2])
        if k == "uneval":
            nm = t[1].split("::")[-1]
            if nm in ("BITS", "BYTES"):
                return "usize"
            if nm in ("ZERO", "ONE", "MAX") and t[2]:
                return t[2][0]
            return None
        if k == "field":
            base = t[1]
            if base == ("deref", ("arg", 1, "self")) or base == ("arg", 1, "self"):
                r = self.self_fields.get(t[2])
                if r is not None:
                    return r
            if base[0] == "deref" and base[1][0] == "arg" and self.facts is not None:
                at = self.ty_of(base[1]) or ""
                at = at.lstrip("&")
                if at.startswith("mut "):
                    at = at[4:]
                adt = self.facts.adts.get(at.split("<")[0].strip())
                if adt and adt["variants"]:
                    for f in adt["variants"][0]["fields"]:
                        if f["name"] == t[2]:
                            return f["ty"]
            if base[0] == "variant" and t[2] == "0":
                bt = self.ty_of(base[1])
                if base[2] in ("Some",):
                    return parse_generic_first(bt, "std::option::Option")
                if base[2] in ("Ok",):
                    return parse_generic_first(bt, "std::result::Result")
            if base[0] == "deref":
                bt = self.ty_of(base[1])
            # component of a tuple-typed value: `(usize, &mut u8)` -> field 0 is usize
            bt = self.ty_of(base)
            if isinstance(bt, str) and bt.startswith("(") and bt.endswith(")") and str(t[2]).isdigit():
                parts, depth, cur = [], 0, ""
                for ch in bt[1:-1]:
                    if ch in "(<[":
                        depth += 1
                    elif ch in ")>]":
                        depth -= 1
                    if ch == "," and depth == 0:
                        parts.append(cur.strip())
                        cur = ""
                    else:
                        cur += ch
                if cur.strip():
                    parts.append(cur.strip())
                i = int(t[2])
                if i < len(parts):
                    return parts[i]
            return None
        if k == "okval":
            bt = self.ty_of(t[1])
            return parse_generic_first(bt, "std::result::Result") or parse_generic_first(bt, "std::option::Option")
        if k == "lin":
            return self.ty_of(t[1])
        if k == "lincomb":
            return "usize"
        if k == "wordop":
            return self.ty_of(t[2])
        if k == "havoc":
            return t[2]
        if k in ("trip", "slen", "ghost"):
            return "usize"
        if k == "deref":
            bt = self.ty_of(t[1])
            if bt and bt.startswith("&"):
                return bt.lstrip("&").replace("mut ", "", 1).strip() if bt.startswith("&mut ") else bt[1:].strip()
            return None
        if k == "after":
            return self.ty_of(t[2])
        return None

    # -- atoms --------------------------------------------------------------
    def atom(self, t, extra=None):
        """affine form consisting of the single atom t; registers its type range and extra definitional constraints"""
        if t not in self.defs:
            cons = []
            ty = self.ty_of(t)
            w = self.cfg.width(ty)
            a = Aff({t: 1})
            if w is not None and ty not in SIGNED:
                cons.append(le(const(0), a))
                if w <= 128:
                    cons.append(le(a, const((1 << w) - 1)))
            elif t[0] == "trip":
                cons.append(le(const(0), a))
            self.defs[t] = cons
            if extra:
                self.defs[t].extend(extra(a))
        return Aff({t: 1})

    def uneval_value(self, t):
        nm = t[1].split("::")[-1]
        if nm == "BITS" and t[2]:
            return self.cfg.width(t[2][0])
        if nm == "BYTES" and t[2]:
            w = self.cfg.width(t[2][0])
            return w // 8 if w else None
        if nm == "MAX" and t[2]:
            w = self.cfg.width(t[2][0])
            return (1 << w) - 1 if w else None
        if nm == "ZERO" and t[2] and self.cfg.width(t[2][0]):
            return 0
        if nm == "ONE" and t[2] and self.cfg.width(t[2][0]):
            return 1
        return None

    def aff(self, t):
        """affine form of an integer-valued term (None if the term is not integer-valued)"""
        if not isinstance(t, tuple) or not t:
            return None
        k = t[0]
        if k == "const":
            if isinstance(t[1], bool):
                return const(1 if t[1] else 0)
            if isinstance(t[1], int):
                return const(t[1])
            return None
        if k == "uneval":
            v = self.uneval_value(t)
            if v is not None:
                return const(v)
            return self.atom(t) if self.cfg.width(self.ty_of(t)) else None
        if k == "lin":
            b = self.aff(t[1])
            if b is None:
                return None
            return b + self.atom(t[3]).scale(t[2])
        if k == "lincomb":
            out = const(t[2])
            for c, x in t[1]:
                a = self.aff(x)
                if a is None:
                    return None
                out = out + a.scale(c)
            return out
        if k == "cast":
            src = self.aff(t[1])
            if src is None:
                if self.ty_of(t[1]) == "bool" and self.cfg.width(t[2]) is not None:
                    # a truth value as an integer: 0 or 1
                    return self.atom(t, lambda a: [le(const(0), a), le(a, const(1))])
                return None
            wt, ws = self.cfg.width(t[2]), self.cfg.width(self.ty_of(t[1]))
            if t[2] in SIGNED or self.ty_of(t[1]) in SIGNED:
                return self.atom(t)
            if wt is not None and ws is not None and wt >= ws:
                return src
            if src.is_const() and wt is not None:
                return const(int(src.k) % (1 << wt))
            # narrowing: truncation never increases an unsigned value
            return self.atom(t, lambda a: [le(a, src)])
        if k == "binop":
            op = t[1]
            if op in ("Add", "Sub", "AddUnchecked", "SubUnchecked"):
                a, b = self.aff(t[2]), self.aff(t[3])
                if a is None or b is None:
                    return None
                return a + b if op.startswith("Add") else a - b
            if op in ("Mul", "MulUnchecked"):
                a, b = self.aff(t[2]), self.aff(t[3])
                if a is None or b is None:
                    return None
                if a.is_const():
                    return b.scale(a.k)
                if b.is_const():
                    return a.scale(b.k)
                key = ("mul",) + tuple(sorted((t[2], t[3]), key=repr))
                return self.atom(key, lambda p: [le(const(0), p)])
            if op in ("Div", "Rem"):
                a, b = self.aff(t[2]), self.aff(t[3])
                if a is None or b is None:
                    return None
                if b.is_const() and b.k > 0:
                    c = b.k
                    if a.is_const():
                        return const(int(a.k) // int(c)) if op == "Div" else const(int(a.k) % int(c))
                    q = self.atom(("div", t[2], int(c)), lambda q: [le(q.scale(c), a), le(a, q.scale(c) + const(c - 1)), le(const(0), q)])
                    return q if op == "Div" else a - q.scale(c)
                # symbolic divisor: q*y <= x < q*y + y
                qt = ("binop", "Div", t[2], t[3])
                pkey = ("mul",) + tuple(sorted((qt, t[3]), key=repr))
                q = self.atom(("divq", t[2], t[3]), lambda q: [le(const(0), q), le(q, a)])
                p = self.atom(pkey, lambda p: [le(const(0), p), le(p, a), le(a, p + b - const(1))])
                self.alias = getattr(self, "alias", {})
                self.alias[qt] = q
                return q if op == "Div" else a - p
            if op in ("Shr", "ShrUnchecked"):
                a, b = self.aff(t[2]), self.aff(t[3])
                if a is None:
                    return None
                if a.is_const() and b is not None and b.is_const():
                    return const(int(a.k) >> int(b.k))
                if b is not None and b.is_const() and 0 <= b.k < 128:
                    # x >> k is x / 2^k (unsigned): the same quotient atom as the division, so that both spellings meet
                    c = 1 << int(b.k)
                    return self.atom(("div", t[2], c), lambda q: [le(q.scale(c), a), le(a, q.scale(c) + const(c - 1)), le(const(0), q)])
                return self.atom(t, lambda r: [le(r, a), le(const(0), r)])
            if op in ("Shl", "ShlUnchecked"):
                a, b = self.aff(t[2]), self.aff(t[3])
                if a is not None and b is not None and a.is_const() and b.is_const():
                    w = self.cfg.width(self.ty_of(t))
                    v = int(a.k) << int(b.k)
                    return const(v % (1 << w) if w else v)
                return self.atom(t) if self.cfg.width(self.ty_of(t)) else None
            if op == "BitAnd":
                a, b = self.aff(t[2]), self.aff(t[3])
                ex = []
                if a is None and b is None:
                    return None
                for x, xa, m in ((t[2], a, b), (t[3], b, a)):
                    # x & (2^k - 1) is x % 2^k
                    if m is not None and m.is_const() and xa is not None and not xa.is_const() and m.k > 0 and (int(m.k) & (int(m.k) + 1)) == 0:
                        c = int(m.k) + 1
                        q = self.atom(("div", x, c), lambda q: [le(q.scale(c), xa), le(xa, q.scale(c) + const(c - 1)), le(const(0), q)])
                        return xa - q.scale(c)
                tc = (t[0], "BitAnd") + tuple(sorted((t[2], t[3]), key=str))        # a & b and b & a are one quantity
                return self.atom(tc, lambda r: ([le(r, a)] if a is not None else []) + ([le(r, b)] if b is not None else []) + [le(const(0), r)])
            if op in ("BitOr", "BitXor"):
                if not self.cfg.width(self.ty_of(t)):
                    return None
                a, b = self.aff(t[2]), self.aff(t[3])
                tc = (t[0], op) + tuple(sorted((t[2], t[3]), key=str))
                if a is None or b is None or self.ty_of(t[2]) in ("bool",):
                    return self.atom(tc)
                # a + b = 2 (a & b) + (a ^ b) = (a & b) + (a | b) for non-negative integers
                n = self.aff(("binop", "BitAnd", t[2], t[3]))
                if n is None:
                    return self.atom(tc)
                if op == "BitXor":
                    return self.atom(tc, lambda r: [le(const(0), r), le(n.scale(2) + r, a + b), le(a + b, n.scale(2) + r)])
                return self.atom(tc, lambda r: [le(const(0), r), le(n + r, a + b), le(a + b, n + r)])
            if op in ("Lt", "Le", "Gt", "Ge", "Eq", "Ne"):
                return None
            return None
        if k == "binop_alias":
            return None
        ty = self.ty_of(t)
        if self.cfg.width(ty) is not None and ty != "bool":
            return self.atom(t)
        if k in ("trip",):
            return self.atom(t)
        return None

    def pow2_facts(self, store):
        """for every atom Shl(1, a) and every r = ilog2(x) known on the path: a <= r  ==>  Shl(1, a) <= x
        (2^a <= 2^floor(log2 x) <= x); also Shl(1,a) >= 1 when a < width"""
        out = []
        shl = [t for t in list(self.defs) if isinstance(t, tuple) and t[0] == "binop" and t[1] in ("Shl", "ShlUnchecked")
               and isinstance(t[2], tuple) and t[2][0] == "const" and t[2][1] == 1]
        if not shl:
            return out
        logs = [e for e in getattr(self, "ctx_events", []) if e[0] == "call" and e[1].endswith("::ilog2")]
        base = self.close(store)
        for t in shl:
            a = self.aff(t[3])
            st = Aff({t: 1})
            if a is None:
                continue
            out.append(le(const(1), st))
            # 2^a <= 2^K when a <= K
            for K in (7, 8, 15, 16, 31, 32, 62, 63, 64):
                if lp.entails(base, le(a, const(K))):
                    out.append(le(st, const(1 << K)))
                    break
            for e in logs:
                r, x = self.aff(e[3]), self.aff(e[2][0])
                if r is None or x is None:
                    continue
                if lp.entails(base, le(a, r)):
                    out.append(le(st, x))
                if lp.entails(base, le(r, a)):
                    # x < 2^(floor(log2 x) + 1) <= 2 * 2^a
                    out.append(le(x, st.scale(2) - const(1)))
        return out

    # -- constraints --------------------------------------------------------
    def all_defs(self):
        out = []
        for cons in self.defs.values():
            out.extend(cons)
        return out

    def close(self, cons, goals=()):
        """cons + the definitional constraints of every atom mentioned in cons/goals (transitively).
        Definitions are attached only to stores that mention the atom: a path that never computed a term must not inherit
        facts that are true only where the term is defined (e.g. x - y >= 0 behind a subtraction)."""
        seen = set()
        todo = []
        for c in list(cons) + list(goals):
            for a in c[0]:
                if a not in seen:
                    seen.add(a)
                    todo.append(a)
        out = list(cons)
        while todo:
            a = todo.pop()
            for d in self.defs.get(a, ()):
                out.append(d)
                for b in d[0]:
                    if b not in seen:
                        seen.add(b)
                        todo.append(b)
        return out

    def cmp_cons(self, op, a, b, truth):
        """linear constraints for (a op b) == truth; list (conjunction) or None when not expressible"""
        if not truth:
            op = {"Lt": "Ge", "Le": "Gt", "Gt": "Le", "Ge": "Lt", "Eq": "Ne", "Ne": "Eq"}[op]
        if op == "Lt":
            return [lt(a, b)]
        if op == "Le":
            return [le(a, b)]
        if op == "Gt":
            return [lt(b, a)]
        if op == "Ge":
            return [le(b, a)]
        if op == "Eq":
            return [le(a, b), le(b, a)]
        return None  # Ne: handled by the caller with the store

    def from_constraint(self, c, store):
        """translate a walker constraint (term, op, value) into linear constraints given the current store"""
        t, op, v = c
        truth = None
        if op == "==" and v in (0, 1):
            truth = bool(v)
        elif op == "notin" and tuple(v) == (0,):
            truth = True
        elif op == "notin" and tuple(v) == (1,):
            truth = False
        if t[0] == "binop" and t[1] in ("Lt", "Le", "Gt", "Ge", "Eq", "Ne") and truth is not None:
            a, b = self.aff(t[2]), self.aff(t[3])
            if a is None or b is None:
                return []
            cs = self.cmp_cons(t[1], a, b, truth)
            if cs is not None:
                return cs
            # a != b
            base = self.close(store, [le(a, b)])
            if lp.entails(base, le(a, b)):
                return [lt(a, b)]
            if lp.entails(base, le(b, a)):
                return [lt(b, a)]
            return []
        if t[0] == "unop" and t[1] == "Not" and truth is not None:
            return self.from_constraint((t[2], "==", 0 if truth else 1), store)
        a = self.aff(t) if t[0] not in ("discr",) else None
        if a is not None and self.ty_of(t) != "bool":
            if op == "==":
                return [le(a, const(v)), le(const(v), a)]
            out = []
            base = self.close(store, [le(a, const(0))])
            for x in sorted(v):
                if lp.entails(base + out, le(const(x), a)):
                    out.append(le(const(x + 1), a))
                elif lp.entails(base + out, le(a, const(x))):
                    out.append(le(a, const(x - 1)))
            return out
        return []

    def assert_cons(self, ev):
        """(goal constraints, human text) of an assert event: what must hold for the assert to pass"""
        _, kind, cond, expected, msg = ev[:5]
        if kind == "Overflow":
            if cond[0] == "ovf":
                op, a, b = cond[1], self.aff(cond[2]), self.aff(cond[3])
                ty = self.ty_of(cond[2])
                w = self.cfg.width(ty)
                if a is None or b is None or w is None:
                    return None, "overflow check on non-numeric operands"
                mx = const((1 << w) - 1)
                if op == "Add":
                    return [le(a + b, mx)], "%s + %s does not overflow %s" % (mir.fmt(cond[2])[:40], mir.fmt(cond[3])[:40], ty)
                if op == "Sub":
                    return [le(b, a)], "%s - %s does not underflow" % (mir.fmt(cond[2])[:40], mir.fmt(cond[3])[:40])
                if op == "Mul":
                    p = self.aff(("binop", "Mul", cond[2], cond[3]))
                    return [le(p, mx)], "%s * %s does not overflow %s" % (mir.fmt(cond[2])[:40], mir.fmt(cond[3])[:40], ty)
                return None, "overflow check of %s" % op
            # shifts: cond is Lt(rhs, width) expected true
            if cond[0] == "binop" and cond[1] == "Lt":
                a, b = self.aff(cond[2]), self.aff(cond[3])
                if a is not None and b is not None:
                    return self.cmp_cons("Lt", a, b, expected), "shift amount %s < %s" % (mir.fmt(cond[2])[:40], mir.fmt(cond[3])[:20])
            return None, "overflow assert %s" % mir.fmt(cond)[:60]
        if kind in ("DivisionByZero", "RemainderByZero"):
            if cond[0] == "binop" and cond[1] == "Eq":
                a, b = self.aff(cond[2]), self.aff(cond[3])
                if a is not None and b is not None:
                    # expected False: a != b; operands unsigned and b == 0: a >= 1
                    if b.is_const() and b.k == 0:
                        return [le(const(1), a)], "divisor %s is non-zero" % mir.fmt(cond[2])[:40]
            return None, "division check %s" % mir.fmt(cond)[:60]
        if kind == "BoundsCheck":
            if cond[0] == "binop" and cond[1] == "Lt":
                a, b = self.aff(cond[2]), self.aff(cond[3])
                if a is not None and b is not None:
                    return [lt(a, b)], "index %s < length %s" % (mir.fmt(cond[2])[:40], mir.fmt(cond[3])[:40])
            return None, "bounds check %s" % mir.fmt(cond)[:60]
        return None, "assert %s" % kind


# ---------------------------------------------------------------------------
# loops

def root_module(path):
    """module path of a function / method path (`<T as codes::gamma::X>::f` -> codes::gamma; `codes::gamma::f` -> codes::gamma)"""
    m = re.match(r"<.* as ([\w:]+)::\w+(<.*>)?>::\w+$", path)
    if m:
        return m.group(1)
    p = re.sub(r"::<[^>]*>", "", path)
    parts = p.split("::")
    # drop the function name and, for inherent methods, the type name (capitalised)
    parts = parts[:-1]
    while parts and parts[-1][:1].isupper():
        parts = parts[:-1]
    return "::".join(parts)


def dominators(body):
    blocks = sorted(body.reachable(0))
    dom = {b: set(blocks) for b in blocks}
    dom[0] = {0}
    preds = {b: [] for b in blocks}
    for b in blocks:
        for s in body.succs(b):
            if s in preds:
                preds[s].append(b)
    changed = True
    while changed:
        changed = False
        for b in blocks:
            if b == 0:
                continue
            ps = [dom[p] for p in preds[b]]
            new = set.intersection(*ps) if ps else set()
            new = new | {b}
            if new != dom[b]:
                dom[b] = new
                changed = True
    return dom, preds


def natural_loops(body):
    dom, preds = dominators(body)
    loops = {}
    for b in dom:
        for s in body.succs(b):
            if s in dom[b]:  # back edge b -> s
                region = loops.setdefault(s, {s})
                st = [b]
                while st:
                    x = st.pop()
                    if x in region:
                        continue
                    region.add(x)
                    st.extend(preds.get(x, []))
    return loops


def null_space(rows, n):
    """basis of { c | M c = 0 } over the rationals (Gaussian elimination)"""
    M = [list(r) for r in rows if any(x != 0 for x in r)]
    piv = []
    r = 0
    for c in range(n):
        pr = None
        for i in range(r, len(M)):
            if M[i][c] != 0:
                pr = i
                break
        if pr is None:
            continue
        M[r], M[pr] = M[pr], M[r]
        pv = M[r][c]
        M[r] = [x / pv for x in M[r]]
        for i in range(len(M)):
            if i != r and M[i][c] != 0:
                f = M[i][c]
                M[i] = [a - f * b for a, b in zip(M[i], M[r])]
        piv.append(c)
        r += 1
        if r == len(M):
            break
    free = [c for c in range(n) if c not in piv]
    basis = []
    for fc in free:
        v = [Fraction(0)] * n
        v[fc] = Fraction(1)
        for ri, pc in enumerate(piv):
            v[pc] = -M[ri][fc]
        basis.append(v)
    return basis


class Obligation:
    __slots__ = ("kind", "what", "status", "line", "detail", "fn", "callee", "blocks")

    def __init__(self, kind, what, status, line=None, detail=None, callee=None):
        self.kind, self.what, self.status, self.line, self.detail, self.callee = kind, what, status, line, detail, callee


PANICS = ("core::panicking::panic", "core::panicking::panic_fmt", "core::panicking::assert_failed", "std::rt::begin_panic",
          "core::panicking::panic_const", "core::option::unwrap_failed", "core::result::unwrap_failed", "core::option::expect_failed",
          "core::panicking::panic_nounwind", "core::panicking::panic_explicit", "core::panicking::unreachable_display")


class NumWalker(Walker):
    """path walker with numeric pruning, loop summaries and call contracts"""

    def __init__(self, body, cfg, facts=None, contracts=None, assumptions=None, num=None, depth=0, **kw):
        super().__init__(body, unroll=10 ** 9, **kw)
        self.cfg = cfg
        self.facts = facts
        self.num = num or Num(self.body, cfg, facts)
        self.contracts = contracts or {}
        self.assumptions = assumptions or (lambda num: [])
        self.loops = natural_loops(self.body)
        self.depth = depth
        self.summ = {}
        self.notes = []

    # ---- stores ------------------------------------------------------------
    def store_of(self, st):
        """linear constraints known in state st (cached incrementally in st['x_lin'])"""
        lin = st.setdefault("x_lin", [])
        done = st.get("x_done", 0)
        log = st["log"]
        while done < len(log):
            kind, item = log[done]
            done += 1
            if kind == "cons":
                lin.extend(self.num.from_constraint(item, lin + st.get("x_assume", [])))
            elif kind == "ev" and item[0] == "assert":
                goal, _ = self.num.assert_cons(item)
                if goal:
                    lin.extend(goal)
            elif kind == "ev" and item[0] == "call":
                self.num.types[item[3]] = item[9]
                lin.extend(self.post_cons(st, item))
            elif kind == "lin":
                lin.extend(item)
        st["x_done"] = done
        return lin

    def full_store(self, st):
        return self.num.close(self.store_of(st) + st.get("x_assume", []))

    def post_cons(self, st, ev):
        c = self.contracts.get(ev[1]) or (self.contracts.get(ev[4]) if ev[4] else None)
        self.num.ctx_events = st["events"]
        self.num.ctx_cons = st["cons"]
        self.num.ctx_mem = st["mem"]
        if c and c.get("post"):
            try:
                return c["post"](self.num, ev) or []
            except Exception:
                return []
        return []

    def branch_feasible(self, st, d, op, v):
        cs = self.num.from_constraint((d, op, v), self.full_store(st))
        if not cs:
            return True
        return lp.feasible_after(self.full_store(st), self.num.close(cs))

    def state_feasible(self, st):
        full = self.full_store(st)
        return lp.feasible_cached(full)

    def const_term(self, o):
        t = super().const_term(o)
        # promoted constants (e.g. `&u64::MAX` in debug_assert_ne!): evaluate their tiny bodies
        if t[0] == "uneval" and len(t) > 3 and t[3] is not None and self.facts is not None:
            key = (t[1], str(t[3]))
            cache = self.__dict__.setdefault("_prom", {})
            if key not in cache:
                val = None
                for b in self.facts.bodies:
                    if b["kind"] == "Promoted" and b["path"] == t[1] and str(b.get("promoted_idx")) == str(t[3]):
                        ps = [p for p in mir.Walker(b).run() if p.end[0] == "return"]
                        if len(ps) == 1:
                            val = ps[0].ret
                            # locals of the promoted body are values: resolve `&_1`
                            if val[0] == "ref" and val[1][0] == "local":
                                val = ("ref", ps[0].env.get(val[1][1], val[1]))
                cache[key] = val
            if cache[key] is not None:
                return cache[key]
        return t

    def entails(self, st, goals):
        base = self.full_store(st)
        # atoms introduced while translating the goals may bring definitional constraints
        base = self.num.close(self.store_of(st) + st.get("x_assume", []), goals)
        return all(lp.entails(base, g) for g in goals)

    # ---- run ---------------------------------------------------------------
    def run(self, start=0, state=None):
        if state is None:
            state = {"env": dict(self.init_env), "mem": {}, "cons": [], "events": [], "visits": {}, "blocks": [], "ncall": 0,
                     "mutrefs": set(), "log": [], "x_assume": list(self.assumptions(self.num)), "x_lin": [], "x_done": 0}
            stack = [(start, state)]
            while stack:
                bid, st = stack.pop()
                self.step(bid, st, stack)
                if len(self.paths) > self.max_paths:
                    raise mir.PathLimit(self.body.path)
            return self.paths
        return super().run(start, state)

    # ---- calls -------------------------------------------------------------
    def call_hook(self, st, t, fname, resolved, args):
        c = self.contracts.get(fname) or (self.contracts.get(resolved) if resolved else None)
        if c and c.get("ghost"):
            c["ghost"](self, st, args)
        if c and c.get("self_effect"):
            if c["self_effect"](self, st, args):
                return [{}]
        if c and c.get("fork"):
            r = c["fork"](self, st, t, args)
            if r is not None:
                return r
        if self.facts is not None and self.depth < 6:
            ct = self.closure_target(st, fname, args)
            if ct is not None:
                return self.inline_call(st, ct[0], ct[1])
            af = self.adapter_forks(st, fname, args)
            if af is not None:
                return af
        if self.facts is not None and self.depth < 3 and resolved and resolved != self.body.path and args and not (c and (c.get("self_effect"))):
            # a method of the same impl called on `self` (e.g. read_bits finishing through self.skip_bits_after_peek(n)): walked in
            # context like a private helper; the primitives with an assume-guarantee contract (read_bits / write_bits) keep it
            a0 = args[0]
            while isinstance(a0, tuple) and a0 and a0[0] in ("ref", "deref"):
                a0 = a0[1]
            bl = self.facts.by_path.get(resolved, [])
            mine = self.body.b.get("impl_self") if hasattr(self.body, "b") else None
            if a0 == ("arg", 1, "self") and len(bl) == 1 and bl[0].get("blocks") and mine and bl[0].get("impl_self") == mine \
                    and bl[0]["kind"] == "AssocFn" and fname not in self.contracts_self_opaque:
                return self.inline_call(st, bl[0], args)
        if self.inline and self.facts is not None and self.depth < 6:
            for nm in (resolved, fname):
                if nm and (self.inline(nm) or self.private_helper(nm)):
                    bl = self.facts.by_path.get(nm, [])
                    if len(bl) == 1:
                        return self.inline_call(st, bl[0], args)
        return None

    # own methods that are never walked in context (their effect on the ghost state is declared where they are called)
    contracts_self_opaque = ("traits::bits::BitRead::read_bits", "traits::bits::BitWrite::write_bits", "traits::bits::BitRead::read_unary",
                             "traits::bits::BitWrite::write_unary", "traits::bits::BitRead::copy_to", "traits::bits::BitWrite::copy_from",
                             "traits::bits::BitWrite::flush")

    def private_helper(self, nm):
        """a module-private function of the bit layer (src/impls) without a contract: analysed in the caller's context, so that
        moving code into a helper neither hides its obligations nor changes the verdict"""
        if not nm.startswith(("impls::", "codes::", "traits::", "utils::", "dispatch::")) or nm in self.contracts:
            return False
        bl = self.facts.by_path.get(nm, [])
        if not (len(bl) == 1 and bl[0]["kind"] in ("Fn", "AssocFn") and not bl[0].get("impl_trait") and bl[0].get("blocks")):
            return False
        if str(bl[0].get("vis") or "").startswith("Restricted"):
            return True
        # a helper that was made `pub` is still a helper: a free function of the same module as the function under analysis, without
        # a contract of its own, is walked in context as well
        rf = getattr(self, "root_file", None) or mir.span_file(self.body.b.get("span") if hasattr(self.body, "b") else None)
        return bl[0]["kind"] == "Fn" and rf is not None and mir.span_file(bl[0].get("span")) == rf

    inline = None

    def inline_call(self, st, callee, args):
        """bounded inlining of a crate-local helper: walk its body with the actual arguments bound; memory is shared"""
        cb = Body(callee)
        num2 = Num(cb, self.cfg, self.facts)
        num2.defs, num2.types, num2.fresh, num2.parent = self.num.defs, self.num.types, self.num.fresh, self.num
        w = NumWalker(cb, self.cfg, self.facts, self.contracts, None, num=num2, depth=self.depth + 1, max_paths=self.max_paths)
        w.inline = self.inline
        w.template_exprs = getattr(self, "template_exprs", [])
        w.gen_map = mir.generic_map(self, callee)
        w.root_file = getattr(self, "root_file", None) or mir.span_file(self.body.b.get("span") if hasattr(self.body, "b") else None)
        w.region, w.region_head = None, None
        s2 = self.fork(st)
        caller_env = s2["env"]
        caller_visits, caller_blocks = s2["visits"], s2["blocks"]
        s2["env"] = {i + 1: a for i, a in enumerate(args)}
        s2["visits"], s2["blocks"] = {}, []
        s2["x_lin"] = list(self.store_of(st))
        s2["x_done"] = len(s2["log"])
        s2["x_assume"] = list(st.get("x_assume", []))
        s2.pop("x_inloop", None)
        w.init_env = dict(s2["env"])
        paths = w.run(start=0, state=s2)
        self.notes.extend(w.notes)
        for h, v in w.summ.items():
            self.summ[(callee["path"], h)] = v
        forks = []
        for p in paths:
            if p.end[0] == "return":
                ns = p.state
                ns["env"] = dict(caller_env)
                ns["visits"], ns["blocks"] = dict(caller_visits), list(caller_blocks)
                if "x_inloop" in st:
                    ns["x_inloop"] = st["x_inloop"]
                forks.append({"state": ns, "res": p.ret})
            else:
                # diverging / cut paths of the callee end the caller's path as well
                self.paths.append(p)
        return forks

    # ---- loops -------------------------------------------------------------
    def head_hook(self, bid, st, stack):
        if bid not in self.loops:
            return False
        if st.get("x_inloop") == bid:
            return False
        region = self.loops[bid]
        self.enter_loop(bid, region, st, stack)
        return True

    def sub(self, head, region, st):
        w = NumWalker(self.body, self.cfg, self.facts, self.contracts, self.assumptions, num=self.num, depth=self.depth + 1,
                      max_paths=self.max_paths)
        w.region = set(region)
        w.region_head = head
        w.inline = self.inline
        w.template_exprs = getattr(self, "template_exprs", [])
        w.unroll = self.unroll
        s2 = self.fork(st)
        s2["x_inloop"] = head
        s2["x_lin"] = list(st.get("x_lin", []))
        s2["x_done"] = st.get("x_done", 0)
        s2["x_assume"] = list(st.get("x_assume", []))
        # a nested walker must not treat `head` as a loop again on its first step, but must on inner heads
        w.loops = {h: r for h, r in self.loops.items() if h != head and h in region}
        w.run(start=head, state=s2)
        for p in w.paths:
            p.state.pop("x_inloop", None)
        self.notes.extend(w.notes)
        return w.paths

    def gen_term(self, base, cur, backs, trip, head, ty, name=None):
        """generalise one value over loop iterations (component-wise for aggregates).
        base: value before the loop; cur: current generalisation (None in the first round); backs: values at the back edge"""
        num = self.num
        if cur is None:
            if all(b == base for b in backs):
                return base
            if isinstance(base, tuple) and base and base[0] in ("agg", "tuple") and all(
                    isinstance(b, tuple) and b and b[0] == base[0] and len(b) == len(base) for b in backs):
                if base[0] == "tuple" and all(len(b[1]) == len(base[1]) for b in backs):
                    return ("tuple", tuple(self.gen_term(base[1][i], None, [b[1][i] for b in backs], trip, head, None)
                                           for i in range(len(base[1]))))
                if base[0] == "agg" and all(b[1:4] == base[1:4] and len(b[4]) == len(base[4]) for b in backs):
                    return base[:4] + (tuple(self.gen_term(base[4][i], None, [b[4][i] for b in backs], trip, head, None)
                                             for i in range(len(base[4]))),) + base[5:]
            a0 = num.aff(base)
            ds = set()
            for b in backs:
                a = num.aff(b)
                ds.add((a - a0) if (a is not None and a0 is not None) else None)
            if len(ds) == 1:
                d = ds.pop()
                if d is not None and d.is_const():
                    return ("lin", base, d.k, trip)
            # an object that is only mutated through calls keeps its identity (provenance), its state is unknown
            def strip_after(t):
                while isinstance(t, tuple) and t and t[0] == "after":
                    t = t[2]
                return t
            if a0 is None and all(strip_after(b) == strip_after(base) for b in backs):
                return ("after", ("havoc", next(num.fresh), ty or num.ty_of(base), head, name), strip_after(base))
            return ("havoc", next(num.fresh), ty or num.ty_of(base), head, name)
        # later rounds: only keep decisions that are confirmed
        if cur[0] == "after" and cur[1][0] == "havoc" and len(cur[1]) > 3 and cur[1][3] == head:
            def strip_after2(t):
                while isinstance(t, tuple) and t and t[0] == "after":
                    t = t[2]
                return t
            if all(strip_after2(b) == cur[2] for b in backs):
                return cur
            return ("havoc", next(num.fresh), ty or num.ty_of(base), head, name)
        if cur[0] == "havoc" and len(cur) > 3 and cur[3] == head:
            return cur
        if cur[0] == "lin" and cur[3] == trip:
            a0 = num.aff(cur)
            okk = a0 is not None
            for b in backs:
                a = num.aff(b)
                if a is None or not okk or not ((a - a0).is_const() and (a - a0).k == cur[2]):
                    okk = False
            return cur if okk else ("havoc", next(num.fresh), ty or num.ty_of(base), head, name)
        if isinstance(cur, tuple) and cur and cur[0] == "tuple" and all(isinstance(b, tuple) and b and b[0] == "tuple" and len(b[1]) == len(cur[1]) for b in backs):
            bb = base[1] if (isinstance(base, tuple) and base and base[0] == "tuple" and len(base[1]) == len(cur[1])) else cur[1]
            return ("tuple", tuple(self.gen_term(bb[i], cur[1][i], [b[1][i] for b in backs], trip, head, None) for i in range(len(cur[1]))))
        if isinstance(cur, tuple) and cur and cur[0] == "agg" and all(isinstance(b, tuple) and b and b[0] == "agg" and b[1:4] == cur[1:4] and len(b[4]) == len(cur[4]) for b in backs):
            bb = base[4] if (isinstance(base, tuple) and base and base[0] == "agg" and len(base) > 4 and len(base[4]) == len(cur[4])) else cur[4]
            return cur[:4] + (tuple(self.gen_term(bb[i], cur[4][i], [b[4][i] for b in backs], trip, head, None) for i in range(len(cur[4]))),) + cur[5:]
        if all(b == cur for b in backs):
            return cur
        return ("havoc", next(num.fresh), ty or num.ty_of(base), head, name)

    def enter_loop(self, head, region, st, stack):
        num = self.num
        base_env = dict(st["env"])
        base_mem = dict(st["mem"])
        probe = self.sub(head, region, st)
        backs = [p for p in probe if p.end[0] == "back" and lp.feasible_cached(self.full_store(p.state))]
        if not backs:
            self.continue_after(probe, stack, record_inner=True)
            return
        trip = ("trip", head, next(num.fresh))
        cur_env, cur_mem = {}, {}
        g = None
        res = probe
        bk = backs
        for rnd in range(6):
            # variables that differ at some back edge from the state the iteration started in
            start_env = g["env"] if g is not None else base_env
            start_mem = g["mem"] if g is not None else base_mem
            mod_l, mod_m = set(cur_env), set(cur_mem)
            for p in bk:
                for l, v in p.state["env"].items():
                    if start_env.get(l) != v:
                        mod_l.add(l)
                for k, v in p.state["mem"].items():
                    if start_mem.get(k, k) != v:
                        mod_m.add(k)
                for k in start_mem:
                    if k not in p.state["mem"]:
                        mod_m.add(k)
            new_env, new_mem = {}, {}
            for l in mod_l:
                basev = base_env.get(l, self.local_term(st, l))
                new_env[l] = self.gen_term(basev, cur_env.get(l), [p.state["env"].get(l, basev) for p in bk], trip, head, self.body.local_ty(l),
                                           self.body.local_name(l) or ("_%d" % l))
            for k in mod_m:
                basev = base_mem.get(k, k)
                new_mem[k] = self.gen_term(basev, cur_mem.get(k), [p.state["mem"].get(k, k) for p in bk], trip, head, num.ty_of(k),
                                           mir.fmt(k))
            if g is not None and new_env == cur_env and new_mem == cur_mem:
                break
            cur_env, cur_mem = new_env, new_mem
            g = self.fork(st)
            g["x_lin"] = list(self.store_of(st))
            g["x_done"] = len(g["log"])
            g["x_assume"] = list(st.get("x_assume", []))
            g["env"].update(cur_env)
            g["mem"].update(cur_mem)
            g["log"].append(("lin", [le(const(0), num.atom(trip))]))
            res = self.sub(head, region, g)
            bk = [p for p in res if p.end[0] == "back" and lp.feasible_cached(self.full_store(p.state))]
            if not bk:
                break
        # inductive inequalities from the back edge: c(k) on every back path  =>  c(k-1) at the head, if it holds at entry
        inv = []
        if bk:
            def canon(c):
                return (frozenset(c[0].items()), c[1])
            common = None
            for p in bk:
                cs = {canon(c) for c in self.store_of(p.state)}
                common = cs if common is None else (common & cs)
            entry_store = self.full_store(st)
            pre_havocs = None
            for co_items, k0 in sorted(common or [], key=repr):
                co = dict(co_items)
                if trip not in co:
                    continue
                if pre_havocs is None:
                    pre_havocs = set()

                    def collect(t, depth=0):
                        if isinstance(t, tuple) and t and depth < 60:
                            if t[0] == "havoc":
                                pre_havocs.add(t)
                            for x in t:
                                collect(x, depth + 1)
                    for v in base_env.values():
                        collect(v)
                    for k_, v in base_mem.items():
                        collect(k_)
                        collect(v)
                    for c in entry_store:
                        for a in c[0]:
                            collect(a)
                if any(not self.atom_is_head_level(a, g, st["ncall"], pre_havocs) for a in co):
                    continue
                cand = (co, k0 - co[trip])
                at_entry = ({a: c for a, c in co.items() if a != trip}, cand[1])
                if lp.entails(num.close(entry_store, [at_entry]), at_entry):
                    inv.append(cand)
        # conservation laws between havocked numeric variables: x + y or x - y unchanged by every iteration
        if bk and g is not None:
            hv = []
            for l, v in cur_env.items():
                if isinstance(v, tuple) and v and v[0] == "havoc" and num.aff(v) is not None and self.body.local_name(l):
                    hv.append((v, base_env.get(l, self.local_term(st, l)), ("env", l)))
            for k, v in cur_mem.items():
                if isinstance(v, tuple) and v and v[0] == "havoc" and num.aff(v) is not None:
                    hv.append((v, base_mem.get(k, k), ("mem", k)))
            # the trip counter takes part as a variable that every iteration increases by one (x - c*k unchanged)
            hv.append((trip, ("const", 0, "usize"), ("trip",)))

            def back_val(p, getter):
                if getter[0] == "trip":
                    return ("binop", "Add", trip, ("const", 1, "usize"))
                return p.state["env"].get(getter[1]) if getter[0] == "env" else p.state["mem"].get(getter[1], getter[1])
            # linear combinations sum c_i*x_i left unchanged by every iteration: null space of the matrix of deltas
            hv = [h for h in hv if all(num.aff(back_val(p, h[2])) is not None for p in bk)]
            if len(hv) >= 2:
                rows = {}
                okm = True
                for pi, p in enumerate(bk):
                    for i, (vx, bx, gx) in enumerate(hv):
                        a1, a0 = num.aff(back_val(p, gx)), num.aff(vx)
                        if a1 is None or a0 is None:
                            okm = False
                            break
                        d = a1 - a0
                        for a, c in d.co.items():
                            rows.setdefault((pi, a), [Fraction(0)] * len(hv))[i] = c
                        if d.k != 0:
                            rows.setdefault((pi, "__const__"), [Fraction(0)] * len(hv))[i] = d.k
                    if not okm:
                        break
                if okm:
                    for vec in null_space(list(rows.values()), len(hv)):
                        lhs = Aff()
                        rhs = Aff()
                        for i, c in enumerate(vec):
                            if c != 0:
                                lhs = lhs + num.aff(hv[i][0]).scale(c)
                                rhs = rhs + num.aff(hv[i][1]).scale(c)
                        inv.extend([le(lhs, rhs), le(rhs, lhs)])
        # template bounds for havocked numeric variables:  x <= C / x >= c  that hold at entry and are preserved by the body
        cands = []
        if bk and g is not None:
            W = self.cfg.w
            consts = sorted({0, 1, W - 1, W, 2 * W - 1, 2 * W, 63, 64})
            entry_store = self.full_store(st)
            def havocs(v, basev, getter):
                if isinstance(v, tuple) and v and v[0] == "havoc" and num.aff(v) is not None:
                    a0 = num.aff(basev)
                    if a0 is None:
                        return
                    for cst in consts:
                        if lp.entails(num.close(entry_store, [le(a0, const(cst))]), le(a0, const(cst))):
                            cands.append((v, "le", cst, getter))
                            break
                    for cst in reversed(consts):
                        if cst > 0 and lp.entails(num.close(entry_store, [le(const(cst), a0)]), le(const(cst), a0)):
                            cands.append((v, "ge", cst, getter))
                            break
            for l, v in cur_env.items():
                if self.body.local_name(l):
                    havocs(v, base_env.get(l, self.local_term(st, l)), ("env", l))
            for k, v in cur_mem.items():
                havocs(v, base_mem.get(k, k), ("mem", k))
            # bounds by expressions over quantities fixed before the loop that the rule supplies (ghost constants of a specification):
            # tried like the numeric ones - kept only if they hold at entry and are preserved by every iteration
            texprs = [e(num) for e in getattr(self, "template_exprs", [])]
            if texprs:
                def havocs_e(v, basev, getter):
                    if isinstance(v, tuple) and v and v[0] == "havoc" and num.aff(v) is not None:
                        a0 = num.aff(basev)
                        if a0 is None:
                            return
                        for e in texprs:
                            if lp.entails(num.close(entry_store, [le(a0, e)]), le(a0, e)):
                                cands.append((v, "le", e, getter))
                            if lp.entails(num.close(entry_store, [le(e, a0)]), le(e, a0)):
                                cands.append((v, "ge", e, getter))
                for l, v in cur_env.items():
                    if self.body.local_name(l):
                        havocs_e(v, base_env.get(l, self.local_term(st, l)), ("env", l))
                for k, v in cur_mem.items():
                    havocs_e(v, base_mem.get(k, k), ("mem", k))
        # relational templates over pairs of havocked variables:  x + y  and  x - y  never above / below their entry value
        # (a search interval [left, left + len) that only shrinks; a cursor and a remaining count that move together)
        if bk and g is not None:
            hv2 = []
            for l, v in cur_env.items():
                if isinstance(v, tuple) and v and v[0] == "havoc" and num.aff(v) is not None and self.body.local_name(l):
                    hv2.append((v, base_env.get(l, self.local_term(st, l)), ("env", l)))
            for k, v in cur_mem.items():
                if isinstance(v, tuple) and v and v[0] == "havoc" and num.aff(v) is not None:
                    hv2.append((v, base_mem.get(k, k), ("mem", k)))
            hv2 = [h for h in hv2 if num.aff(h[1]) is not None]
            if 2 <= len(hv2) <= 6:
                for i in range(len(hv2)):
                    for j in range(i + 1, len(hv2)):
                        for sgn in (1, -1):
                            e0 = num.aff(hv2[i][1]) + num.aff(hv2[j][1]).scale(sgn)
                            for kind in ("le", "ge"):
                                cands.append(("pair", kind, e0, (hv2[i], hv2[j], sgn)))
                            for e_ in ([e(num) for e in getattr(self, "template_exprs", [])] if sgn == 1 else []):
                                # the sum / difference of two loop variables against a supplied expression (left + len >= T)
                                es_ = self.full_store(st)
                                if lp.entails(num.close(es_, [le(e0, e_)]), le(e0, e_)):
                                    cands.append(("pair", "le", e_, (hv2[i], hv2[j], sgn)))
                                if lp.entails(num.close(es_, [le(e_, e0)]), le(e_, e0)):
                                    cands.append(("pair", "ge", e_, (hv2[i], hv2[j], sgn)))
                            if sgn == -1:
                                # an order between the two that holds at entry (left <= right of a shrinking interval)
                                es = self.full_store(st)
                                if lp.entails(num.close(es, [le(e0, const(0))]), le(e0, const(0))):
                                    cands.append(("pair", "le", const(0), (hv2[i], hv2[j], sgn)))
                                elif lp.entails(num.close(es, [le(const(0), e0)]), le(const(0), e0)):
                                    cands.append(("pair", "ge", const(0), (hv2[i], hv2[j], sgn)))

        def cand_aff(c, p=None):
            """value of the candidate's left-hand side at the loop head (p None) or at the end of back path p"""
            if c[0] == "pair":
                (vi, _, gi), (vj, _, gj), sgn = c[3]
                if p is None:
                    a, b2 = num.aff(vi), num.aff(vj)
                else:
                    ni = p.state["env"].get(gi[1]) if gi[0] == "env" else p.state["mem"].get(gi[1], gi[1])
                    nj = p.state["env"].get(gj[1]) if gj[0] == "env" else p.state["mem"].get(gj[1], gj[1])
                    a, b2 = (num.aff(ni) if ni is not None else None), (num.aff(nj) if nj is not None else None)
                if a is None or b2 is None:
                    return None
                return a + b2.scale(sgn)
            (v, kind, cst, getter) = c
            if p is None:
                return num.aff(v)
            nv = p.state["env"].get(getter[1]) if getter[0] == "env" else p.state["mem"].get(getter[1], getter[1])
            return num.aff(nv) if nv is not None else None

        def cand_rhs(c):
            return c[2] if (c[0] == "pair" or isinstance(c[2], Aff)) else const(c[2])

        def cand_cons(cs):
            out = []
            for c in cs:
                a = cand_aff(c)
                out.append(le(a, cand_rhs(c)) if c[1] == "le" else le(cand_rhs(c), a))
            return out
        # candidates are dropped until all that remain are preserved under the assumption of exactly themselves (a fixpoint: each
        # round removes at least one); should the bound on rounds be hit, none is assumed
        max_rounds = 3 + len(cands)
        for rnd in range(max_rounds + 1):
            if not (inv or cands):
                break
            if rnd == max_rounds:
                cands = []
            g2 = self.fork(g)
            g2["x_lin"] = list(self.store_of(g))
            g2["x_done"] = len(g2["log"])
            g2["x_assume"] = list(g.get("x_assume", []))
            g2["log"].append(("lin", inv + cand_cons(cands)))
            res = self.sub(head, region, g2)
            bk2 = [p for p in res if p.end[0] == "back"]
            keep = []
            for c in cands:
                kind = c[1]
                ok = True
                for p in bk2:
                    a = cand_aff(c, p)
                    if a is None:
                        ok = False
                        break
                    goal = le(a, cand_rhs(c)) if kind == "le" else le(cand_rhs(c), a)
                    if not lp.entails(num.close(self.full_store(p.state), [goal]), goal):
                        ok = False
                        break
                if ok:
                    keep.append(c)
            if len(keep) == len(cands):
                break
            cands = keep
        self.summ[head] = {"vars": {(self.body.local_name(l) or "_%d" % l): mir.fmt(v)[:60] for l, v in cur_env.items()},
                           "fields": {mir.fmt(k)[:40]: mir.fmt(v)[:60] for k, v in cur_mem.items()}, "invariants": len(inv),
                           "bounds": [("%s %s %s" % (mir.fmt(c[0]), "<=" if c[1] == "le" else ">=", c[2])) if c[0] != "pair" else
                                      ("%s %s %s %s entry value" % (mir.fmt(c[3][0][0])[:30], "+" if c[3][2] > 0 else "-", mir.fmt(c[3][1][0])[:30], "<=" if c[1] == "le" else ">="))
                                      for c in cands]}
        for p in res:
            if p.end[0] == "back":
                # what each loop variable was at the head of the iteration this path ends (for ranking-function rules)
                p.state["x_head_env"] = {l: (v, self.body.local_name(l)) for l, v in cur_env.items()}
        self.continue_after(res, stack, record_inner=True)

    def atom_is_head_level(self, a, g, ncall=0, pre_havocs=()):
        """atoms that exist before the loop body runs: arguments, entry fields, configuration constants and
        results of calls made before the loop (call ordinal <= the ordinal at loop entry)"""
        if not isinstance(a, tuple):
            return False
        head = a[0] == "havoc" and len(a) > 3
        # (an unknown introduced before the loop was entered has one value throughout the loop)
        if mir.mentions(a, lambda x: (x[0] == "ret" and x[1] > ncall) or (x[0] == "havoc" and x not in pre_havocs)):
            return False
        return True

    def continue_after(self, paths, stack, record_inner):
        for p in paths:
            if p.end[0] == "exit":
                stack.append((p.end[1], p.state))
            else:
                # back edges and paths that ended inside the loop are complete paths for obligation checking
                self.paths.append(p)


# ---------------------------------------------------------------------------
# obligation checking over finished paths

def check_paths(walker, paths, fn_key, invariant=None, pre_for_calls=None, allow_panic=None):
    """returns list of Obligation for one function under one configuration"""
    num = walker.num
    obs = []
    seen = set()
    for p in paths:
        st = p.state
        # replay the log with an incremental store so that each obligation sees only earlier facts
        lin = []
        assume = st.get("x_assume", [])
        for kind, item in p.log:
            if kind == "cons":
                lin.extend(num.from_constraint(item, lin + assume))
            elif kind == "lin":
                lin.extend(item)
            elif kind == "ev" and item[0] == "assert":
                goal, text = num.assert_cons(item)
                key = ("assert", item[1], text, item[5] if len(item) > 5 else None)
                if goal is None:
                    status = "unknown"
                else:
                    num.ctx_events = st["events"]
                    base = num.close(lin + assume, goal)
                    status = "discharged" if all(lp.entails(base, g) for g in goal) else "violated"
                    if status == "violated":
                        extra = num.pow2_facts(lin + assume)
                        if extra and all(lp.entails(base + extra, g) for g in goal):
                            status = "discharged"
                    lin.extend(goal)
                obs.append((key, status, p, goal))
            elif kind == "ev" and item[0] == "call":
                num.types[item[3]] = item[9]
                c = walker.contracts.get(item[1]) or (walker.contracts.get(item[4]) if item[4] else None)
                num.ctx_events = st["events"]
                num.ctx_cons = st["cons"]
                if c and c.get("pre"):
                    for text, goals in c["pre"](num, item, walker.cfg):
                        base = num.close(lin + assume, goals or ())
                        if goals is None:
                            status = "unknown"
                        else:
                            status = "discharged" if all(lp.entails(base, g) for g in goals) else "violated"
                            lin.extend(goals)
                        obs.append((("pre", item[1], text, item[5]), status, p, goals))
                lin.extend(walker.post_cons(st, item))
        if p.end[0] == "diverge" and p.end[1] in PANICS or (p.end[0] == "diverge" and "panic" in p.end[1]):
            base = num.close(lin + assume)
            feas = lp.feasible(base)
            msg = ""
            for a in p.end[2]:
                if a[0] == "const" and isinstance(a[1], str):
                    msg = a[1]
            if allow_panic and allow_panic(msg, p):
                continue
            line = None
            for kind, item in reversed(p.log):
                if kind == "ev" and item[0] == "call":
                    line = item[5]
                    break
            if feas:
                num.ctx_events = st["events"]
                extra = num.pow2_facts(lin + assume)
                if extra and not lp.feasible(base + extra):
                    feas = False
            obs.append((("panic", p.end[1].split("::")[-1], msg[:80], line), "violated" if feas else "discharged", p, None))
        if p.end[0] == "cut":
            base = num.close(lin + assume)
            obs.append((("loopbound", "unrolling bound", "loop exits within the unrolling bound", None),
                        "violated" if lp.feasible(base) else "discharged", p, None))
        if p.end[0] == "return" and invariant is not None:
            for text, goals in invariant(num, p):
                base = num.close(lin + assume, goals)
                status = "discharged" if all(lp.entails(base, g) for g in goals) else "violated"
                obs.append((("invariant", text, "at return", None), status, p, goals))
    return obs

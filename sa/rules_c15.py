"""C15 — code statistics: field coverage (S-1), field<->len<->parameter (S-2), best (S-3), merge chain (S-4), locking shape (S-5)."""
import mir
import codeclass as cc
from rules_c10 import is_arg, peel_ref

STATS = "utils::stats::CodesStats"
IMPL = "utils::stats::CodesStats::<ZETA, GOLOMB, EXP_GOLOMB, RICE, PI>"
# DESIGN.md appendix A.3: field -> (len family, Codes variant)
FIELD = {
    "unary": ("unary", "Unary"), "gamma": ("gamma", "Gamma"), "delta": ("delta", "Delta"), "omega": ("omega", "Omega"),
    "vbyte": ("vbyte", "VByteBe"), "zeta": ("zeta", "Zeta"), "golomb": ("golomb", "Golomb"),
    "exp_golomb": ("exp_golomb", "ExpGolomb"), "rice": ("rice", "Rice"), "pi": ("pi", "Pi"),
}
ARRAYS = ("zeta", "golomb", "exp_golomb", "rice", "pi")
SELF = ("deref", ("arg", 1, "self"))


def fields_in(t, base, acc):
    """names f such that ('field', base, f) occurs in t"""
    if isinstance(t, tuple) and t:
        if t[0] == "field" and t[1] == base:
            acc.add(t[2])
        for x in t:
            fields_in(x, base, acc)
    return acc


def some_payload(t):
    """('field', ('variant', X, 'Some'), '0') -> X"""
    if isinstance(t, tuple) and t[0] == "field" and t[2] == "0" and t[1][0] == "variant" and t[1][2] == "Some":
        return t[1][1]
    if isinstance(t, tuple) and len(t) == 2 and t[0] == "okval":
        return t[1]
    return None


def split_idx(t):
    """idx + c -> (idx term, c)"""
    t = cc.strip_casts(t)
    if isinstance(t, tuple) and t[0] == "binop" and t[1] == "Add" and cc.const_int(t[3]) is not None:
        return cc.strip_casts(t[2]), cc.const_int(t[3])
    return t, 0


def enum_parts(t):
    """for an element term of `X.iter[_mut]().enumerate()`: ('idx'|'val', next-result term)"""
    t = cc.strip_casts(t)
    if isinstance(t, tuple) and t[0] == "deref":
        t = t[1]
    if isinstance(t, tuple) and t[0] == "field" and t[2] in ("0", "1"):
        nx = some_payload(t[1])
        if nx is not None:
            return ("idx" if t[2] == "0" else "val", nx)
    return None


def enumerate_is_positional(ex):
    """in an expanded iterator term: every `enumerate` is applied directly to iter()/iter_mut() of a field
    (so the index is the element's position); adaptors applied after enumerate may drop elements but keep indices"""
    ok = [True]

    def strip_into(t):
        while isinstance(t, tuple) and t and t[0] == "app" and t[1].endswith("IntoIterator::into_iter"):
            t = t[2][0]
        return t

    def visit(t):
        if not isinstance(t, tuple) or not t:
            return
        if t[0] == "app" and t[1].endswith("Iterator::enumerate"):
            inner = strip_into(t[2][0])
            if not (isinstance(inner, tuple) and inner[0] == "app" and (inner[1].endswith("::iter") or inner[1].endswith("::iter_mut"))):
                ok[0] = False
        for x in t:
            visit(x)
    visit(ex)
    return ok[0]


def run_structural(chk, F, tier):
    adt = F.adts[STATS]
    fields = [f["name"] for f in adt["variants"][0]["fields"]]
    chk.rule("S1.fields", floor=4 * 11 - 1, doc="Default/update_many/add/best_code treat every field of CodesStats")
    chk.rule("S2.update", floor=11, doc="update_many adds len_F(n, index+offset)*count to field F; total += count")
    chk.rule("S2.offsets", floor=5, doc="parameter offset of each array family agrees between update_many and best_code")
    chk.rule("S3.best", floor=11, doc="best_code: minimum scan, candidate replaces (best, best_code) together, variant matches field")
    chk.rule("S4.merge", floor=3, doc="AddAssign -> add, Add -> +=, Sum -> fold(default, +)")
    known = set(FIELD) | {"total"}
    for f in fields:
        chk.expect("S1.fields", "known:" + f, f in known, "CodesStats has a field %r unknown to the field table (appendix A.3)" % f)

    # ---- Default
    b = F.one(name="default", trait_is="std::default::Default", impl_self=STATS + "<")
    ps = [p for p in mir.walk(b) if p.end[0] == "return"]
    r = ps[0].ret if len(ps) == 1 else None
    for f in fields:
        okz = False
        if r and r[0] == "agg" and f in r[5]:
            v = r[4][r[5].index(f)]
            okz = cc.const_int(v) == 0 or (v[0] == "repeat" and cc.const_int(v[1]) == 0)
        chk.expect("S1.fields", "default:" + f, okz, "Default does not zero field %s" % f)

    # ---- update_many
    b = F.body(IMPL + "::update_many")
    offs_upd = {}
    seen = set()
    for p in mir.Walker(b, unroll=0).run():
        stores = [(e[1], e[2]) for e in p.events if e[0] == "store"]
        for key, val in stores:
            # scalar field
            if key[0] == "field" and key[1] == SELF:
                f = key[2]
                if f in seen:
                    continue
                seen.add(f)
                add = val if (val[0] == "binop" and val[1] == "Add" and val[2] == key) else None
                if add is None:
                    chk.bad("S2.update", f, "update_many overwrites %s instead of adding to it" % f)
                    continue
                inc = add[3]
                if f == "total":
                    chk.expect("S2.update", f, is_arg(inc, 3), "total grows by %s, not by count" % mir.fmt(inc))
                    continue
                okm = inc[0] == "binop" and inc[1] == "Mul" and is_arg(inc[3], 3)
                lhs = cc.strip_casts(inc[2]) if okm else None
                if f == "unary":
                    oku = okm and cc.is_unary_len(lhs) is not None and is_arg(cc.is_unary_len(lhs), 2)
                    chk.expect("S2.update", f, oku, "unary grows by %s, expected (n+1)*count" % mir.fmt(inc))
                    continue
                oklen = False
                if okm and lhs[0] == "ret":
                    ev = [e for e in p.calls() if e[3] == lhs]
                    cl = cc.classify_call(ev[0], "len") if ev else None
                    oklen = cl is not None and f in FIELD and cl[0] == FIELD[f][0] and is_arg(cl[2], 2)
                chk.expect("S2.update", f, oklen, "%s grows by %s, expected len_%s(n)*count" % (f, mir.fmt(inc), FIELD.get(f, ("?",))[0]),
                           sample={"field": f, "inc": mir.fmt(inc)})
            elif key[0] == "deref":
                ep = enum_parts(key)
                if not ep or ep[0] != "val":
                    continue
                nx = ep[1]
                exn = mir.expand(nx, p)
                src = fields_in(exn, SELF, set())
                if len(src) != 1:
                    chk.bad("S2.update", "loop:" + mir.fmt(key)[:40], "cannot attribute loop store to one field: %s" % sorted(src))
                    continue
                f = list(src)[0]
                if not enumerate_is_positional(exn):
                    chk.bad("S2.update", f + ":enumerate", "update_many: the index used for %s is not the element's position (enumerate is not applied directly to the array iterator)" % f)
                if f in seen:
                    continue
                seen.add(f)
                ok = False
                why = "not an accumulation"
                if val[0] == "binop" and val[1] == "Add" and val[2] == key:
                    inc = val[3]
                    if inc[0] == "binop" and inc[1] == "Mul" and is_arg(inc[3], 3):
                        lhs = cc.strip_casts(inc[2])
                        ev = [e for e in p.calls() if e[3] == lhs]
                        cl = cc.classify_call(ev[0], "len") if ev else None
                        if cl and f in FIELD and cl[0] == FIELD[f][0] and is_arg(cl[2], 2):
                            idx, off = split_idx(cl[1]) if isinstance(cl[1], tuple) else (None, None)
                            epi = enum_parts(idx) if idx is not None else None
                            if epi and epi == ("idx", nx):
                                ok = True
                                offs_upd[f] = off
                            else:
                                why = "parameter %s is not index+const of the same iteration" % (mir.fmt(cl[1]) if isinstance(cl[1], tuple) else cl[1])
                        else:
                            why = "len call is %s" % (ev[0][1] if ev else mir.fmt(lhs))
                chk.expect("S2.update", f, ok, "update_many, array %s: %s" % (f, why), sample={"field": f, "offset": offs_upd.get(f)})
    for f in fields:
        chk.expect("S1.fields", "update:" + f, f in seen, "update_many never updates field %s" % f)
    # update -> update_many(n, 1)
    ps = [p for p in mir.walk(F.body(IMPL + "::update")) if p.end[0] == "return"]
    oku = len(ps) == 1 and len(ps[0].calls()) == 1 and ps[0].calls()[0][1].endswith("::update_many") and \
        is_arg(ps[0].calls()[0][2][1], 2) and cc.const_int(ps[0].calls()[0][2][2]) == 1 and is_arg(peel_ref(ps[0].calls()[0][2][0]), 1)
    chk.expect("S2.update", "update", oku, "update(n) is not update_many(n, 1) on self")

    # ---- add: every field of self becomes self.F + rhs.F; array fields element by element with the same position
    b = F.body(IMPL + "::add")
    RHS = ("deref", ("arg", 2, "arg2"))
    seen_add = set()
    adt = [F.adts[STATS]] if STATS in F.adts else []

    def array_len_name(f):
        """the const parameter naming the length of array field f, from the struct definition"""
        import re
        for a in adt:
            for v in a.get("variants", []):
                for fl in v.get("fields", []):
                    if fl["name"] == f:
                        m = re.search(r";\s*(\w+)\]", fl["ty"])
                        return m.group(1) if m else None
        return None

    def element_pair(p, key, val):
        """(field of self, field of rhs, ok, why) for a store `elem = elem + other` into an element of an array of self"""
        if not (isinstance(val, tuple) and val[0] == "binop" and val[1] == "Add"):
            return None
        other = val[3] if val[2] == key else val[2] if val[3] == key else None
        if other is None:
            return None
        exk, exo = mir.expand(key, p), mir.expand(other, p)
        fs, fr = fields_in(exk, SELF, set()), fields_in(exo, RHS, set())
        if len(fs) != 1:
            return None
        f = list(fs)[0]
        why = None
        ok = fr == fs
        if not ok:
            return f, fr, False, "pairs self.%s with rhs.%s" % (f, sorted(fr))
        k1 = key[1] if key[0] == "deref" else None
        if key[0] == "deref" and isinstance(k1, tuple) and k1[0] == "field" and some_payload(k1[1]) is not None:
            nx = some_payload(k1[1])
            if k1[2] == "0" and other == ("deref", ("field", k1[1], "1")):
                pass                                                   # zip(self.F.iter_mut(), rhs.F.iter()): same step of one zip
            elif k1[2] == "1" and other[0] == "index" and cc.strip_casts(other[2]) == ("field", k1[1], "0"):
                if not enumerate_is_positional(mir.expand(nx, p)):     # enumerate(): the index must be the element's position
                    ok, why = False, "the index used for rhs.%s is not the position of the element of self.%s" % (f, f)
            else:
                ok, why = False, "element of self.%s is combined with %s (not the element at the same position)" % (f, mir.fmt(other)[:60])
        elif key[0] == "index":
            i = cc.strip_casts(key[2])
            if not (other[0] == "index" and cc.strip_casts(other[2]) == i):
                ok, why = False, "self.%s[i] is combined with %s" % (f, mir.fmt(other)[:60])
            else:
                # the index runs over the whole array: 0..N with N the field's own length (constant parameter or .len())
                exi = mir.expand(i, p)
                bound_ok = False
                want = array_len_name(f)

                def scan(t):
                    nonlocal bound_ok
                    if isinstance(t, tuple) and t:
                        if t[0] == "agg" and len(t) > 4 and str(t[2]).endswith("ops::Range") and len(t[4]) == 2:
                            st_, en = t[4]
                            en = cc.strip_casts(en)
                            zero = cc.const_int(st_) == 0
                            if zero and ((en[0] == "cparam" and en[1] == want) or (en[0] == "app" and en[1].endswith("::len") and (fields_in(en, SELF, set()) | fields_in(en, RHS, set())) == {f})):
                                bound_ok = True
                        for x in t:
                            scan(x)
                scan(exi)
                if not bound_ok:
                    ok, why = False, "the index loop over self.%s does not run over 0..%s (its own length)" % (f, want)
        else:
            ok, why = False, "unrecognised element update %s" % mir.fmt(key)[:60]
        return f, fr, ok, why

    for p in mir.InlineWalker(b, F, unroll=0).run():
        for e in p.events:
            if e[0] != "store":
                continue
            key, val = e[1], e[2]
            if key[0] == "field" and key[1] == SELF:
                f = key[2]
                ok = val == ("binop", "Add", key, ("field", RHS, f))
                if f not in seen_add:
                    chk.expect("S1.fields", "add:" + f, ok, "add: self.%s = %s (expected self.%s + rhs.%s)" % (f, mir.fmt(val), f, f))
                seen_add.add(f)
            elif key[0] in ("deref", "index"):
                r = element_pair(p, key, val)
                if r is None:
                    continue
                f, fr, ok, why = r
                if f not in seen_add:
                    chk.expect("S1.fields", "add:" + f, ok, "add: array field %s: %s" % (f, why or "bad update %s" % mir.fmt(val)[:80]))
                elif not ok:
                    chk.bad("S1.fields", "add:%s:path" % f, "add: array field %s: %s" % (f, why))
                seen_add.add(f)
    for f in fields:
        if f not in seen_add:
            chk.bad("S1.fields", "add:" + f, "add never merges field %s" % f)

    # ---- best_code
    b = F.body(IMPL + "::best_code")
    # the running (code, cost) pair is whatever ends up in the returned tuple: found from the return value, not from local names
    paths = mir.InlineWalker(b, F, unroll=0).run()
    lb = lc = lt = None
    for p in paths:
        if p.end[0] != "return" or not (isinstance(p.ret, tuple) and p.ret[0] == "tuple" and len(p.ret[1]) == 2):
            continue
        code_t, best_t = p.ret[1]
        users = [int(l["id"]) for l in b["locals"] if l.get("user") or l.get("name")]
        for l in users:
            v = p.env.get(l)
            if v == p.ret and lt is None:
                lt = l
            if v == best_t and lb is None:
                lb = l
            if v == code_t and lc is None:
                lc = l
        break
    cand_seen = set()
    offs_best = {}
    nret = 0
    for p in paths:
        if lt is not None and (lb is None or lc is None):
            tv = p.env.get(lt)
            best, code = (tv[1][1], tv[1][0]) if (isinstance(tv, tuple) and tv[0] == "tuple" and len(tv[1]) == 2) else (None, None)
        else:
            best, code = p.env.get(lb), p.env.get(lc)
        if best is None or code is None:
            continue
        # consistency of the current (best, best_code) pair
        if code[0] == "agg" and code[2] == "dispatch::codes::Codes":
            var = code[3]
            if best[0] == "field" and best[1] == SELF:
                f = best[2]
                ok = f in FIELD and FIELD[f][1] == var and f not in ARRAYS
                key = "pair:%s" % f
            else:
                ep = enum_parts(best)
                exn = mir.expand(ep[1], p) if ep and ep[0] == "val" else None
                src = fields_in(exn, SELF, set()) if exn is not None else set()
                if exn is not None and not enumerate_is_positional(exn):
                    chk.bad("S3.best", "enumerate:%s" % sorted(src), "best_code: the index used for %s is not the element's position (enumerate is not applied directly to the array iterator), so the reported parameter is shifted" % sorted(src))
                f = list(src)[0] if len(src) == 1 else "?"
                ok = False
                if f in FIELD and FIELD[f][1] == var and code[4]:
                    idx, off = split_idx(code[4][0])
                    if enum_parts(idx) == ("idx", ep[1]):
                        ok = True
                        offs_best[f] = off
                key = "pair:%s" % f
            if key not in cand_seen:
                chk.expect("S3.best", key, ok, "best_code pairs cost %s with code %s" % (mir.fmt(best)[:60], mir.fmt(code)[:60]),
                           sample={"cost": mir.fmt(best)[:60], "code": mir.fmt(code)[:60]})
            elif not ok:
                chk.bad("S3.best", key + ":path", "on some path best_code pairs cost %s with code %s" % (mir.fmt(best)[:60], mir.fmt(code)[:60]))
            cand_seen.add(key)
        if p.end[0] == "return":
            nret += 1
            okr = p.ret == ("tuple", (code, best))
            if not okr:
                chk.bad("S3.best", "ret", "best_code returns %s, not the running (code, cost) pair" % mir.fmt(p.ret)[:100])
        # minimum scan: every comparison is `candidate <(=) current best`; a taken branch makes the candidate the new best
        cur = ("field", SELF, "unary")
        for (t, op, v) in p.constraints:
            if t[0] == "binop" and t[1] in ("Lt", "Gt", "Le", "Ge"):
                cand, ref = (t[2], t[3]) if t[1] in ("Lt", "Le") else (t[3], t[2])
                taken = (op == "notin" and v == (0,)) or (op == "==" and v == 1)
                if ref != cur:
                    chk.bad("S3.best", "scan", "best_code compares %s against %s, which is not the current best %s (not a minimum scan)"
                            % (mir.fmt(cand)[:50], mir.fmt(ref)[:50], mir.fmt(cur)[:50]))
                    break
                if taken:
                    cur = cand
        else:
            if best != cur:
                chk.bad("S3.best", "scan-final", "after the comparisons on this path best is %s but the smallest candidate seen is %s"
                        % (mir.fmt(best)[:50], mir.fmt(cur)[:50]))
    chk.expect("S3.best", "returns", nret >= 1, "no returning path in best_code")
    for f in fields:
        if f == "total":
            continue
        chk.expect("S1.fields", "best:" + f, ("pair:%s" % f) in cand_seen, "best_code never considers field %s" % f)
    for f in ARRAYS:
        chk.expect("S2.offsets", f, f in offs_upd and f in offs_best and offs_upd[f] == offs_best[f],
                   "array %s: update_many uses parameter index+%s but best_code reports index+%s" % (f, offs_upd.get(f), offs_best.get(f)),
                   sample={"field": f, "offset": offs_upd.get(f)})

    # ---- merge chain
    b = F.one(name="add_assign", trait_is="std::ops::AddAssign", impl_self=STATS + "<")
    ps = [p for p in mir.walk(b) if p.end[0] == "return"]
    c = ps[0].calls() if len(ps) == 1 else []
    ok = len(c) == 1 and c[0][1] == IMPL + "::add" and is_arg(peel_ref(c[0][2][0]), 1) and c[0][2][1] == ("ref", ("arg", 2, "arg2"))
    chk.expect("S4.merge", "AddAssign", ok, "AddAssign::add_assign is not self.add(&rhs)")
    b = F.one(name="add", trait_is="std::ops::Add", impl_self=STATS + "<")
    ps = [p for p in mir.walk(b) if p.end[0] == "return"]
    c = ps[0].calls() if len(ps) == 1 else []
    ok = len(c) == 1 and c[0][1].endswith("AddAssign::add_assign") and is_arg(c[0][2][1], 2) and c[0][2][0][0] == "ref" and \
        ps[0].ret[0] == "after"
    chk.expect("S4.merge", "Add", ok, "Add::add is not `res = self; res += rhs; res`")
    b = F.one(name="sum", trait_is="std::iter::Sum", impl_self=STATS + "<")
    ps = [p for p in mir.walk(b) if p.end[0] == "return"]
    c = ps[0].calls() if len(ps) == 1 else []
    okf = False
    if len(c) == 2 and c[0][1].endswith("Default::default") and c[1][1].endswith("Iterator::fold") and c[1][2][1] == c[0][3] and ps[0].ret == c[1][3]:
        clo = c[1][2][2]
        if clo[0] == "agg" and clo[1] == "closure":
            cb = F.body(clo[2])
            cps = [p for p in mir.walk(cb) if p.end[0] == "return"]
            cc_ = cps[0].calls() if len(cps) == 1 else []
            okf = len(cc_) == 1 and cc_[0][1].endswith("ops::Add::add") and is_arg(cc_[0][2][0], 2) and is_arg(cc_[0][2][1], 3) and cps[0].ret == cc_[0][3]
    chk.expect("S4.merge", "Sum", okf, "Sum::sum is not iter.fold(Self::default(), |a, b| a + b)")



def run_lock(chk, F, tier):
    chk.rule("S5.lock", floor=4, doc="wrapper updates exactly once per successful read/write, with the right value, through Mutex::lock")
    # ---- wrapper locking
    wadt = F.adts["utils::stats::CodesStatsWrapper"]
    wf = {f["name"]: f["ty"] for f in wadt["variants"][0]["fields"]}
    chk.expect("S5.lock", "field", wf.get("stats", "").startswith("std::sync::Mutex<utils::stats::CodesStats<") and set(wf) == {"stats", "wrapped"},
               "CodesStatsWrapper fields are %s (statistics must sit behind the Mutex only)" % wf)
    for tr, nm in (("dispatch::DynamicCodeRead", "read"), ("dispatch::StaticCodeRead<E, CR>", "read"),
                   ("dispatch::DynamicCodeWrite", "write"), ("dispatch::StaticCodeWrite<E, CW>", "write")):
        b = F.one(name=nm, trait_is=tr, impl_self="utils::stats::CodesStatsWrapper<")
        probs = []
        for p in mir.walk_inline(b, F):
            if p.end[0] != "return":
                continue
            fwd = [e for e in p.calls() if e[1].startswith("dispatch::") and e[1].endswith("::" + nm)]
            ups = [e for e in p.calls() if e[1].endswith("::update") or e[1].endswith("::update_many")]
            is_err = isinstance(p.ret, tuple) and (p.ret[0] == "from_residual" or (p.ret[0] == "agg" and p.ret[3] == "Err"))
            if is_err:
                if ups:
                    probs.append("updates statistics on the error path")
                continue
            if len(ups) != 1 or len(fwd) != 1:
                probs.append("%d updates / %d forwarded calls on a successful path" % (len(ups), len(fwd)))
                continue
            want = ("okval", fwd[0][3]) if nm == "read" else ("arg", 3, "arg3")
            if ups[0][2][1] != want or not ups[0][1].endswith("::update"):
                probs.append("updates with %s via %s, expected update(%s)" % (mir.fmt(ups[0][2][1]), ups[0][1].split("::")[-1], mir.fmt(want)))
            # receiver comes from Mutex::lock(&self.stats) -> unwrap -> deref_mut
            recv = mir.expand(ups[0][2][0], p)
            s = str(recv)
            if not ("Mutex::<T>::lock" in s and "deref_mut" in s and "'stats'" in s):
                probs.append("update receiver is not obtained through self.stats.lock()")
            if p.events.index(ups[0]) < p.events.index(fwd[0]):
                probs.append("update happens before the operation")
        chk.expect("S5.lock", "%s::%s" % (tr.split("::")[-1].split("<")[0], nm), not probs, "%s: %s" % (b["path"], "; ".join(sorted(set(probs)))),
                   sample={"method": b["path"]})




def run(chk, F, tier):
    # S1-S4: decided by interpreting the methods (sa/rules_c15s.py); by the structural rules when the interpreter cannot follow them
    import rules_c15s
    if not rules_c15s.run(chk, F, tier):
        run_structural(chk, F, tier)
    run_lock(chk, F, tier)


def run_all(chk, fsets, tier):
    import facts
    run(chk, facts.load(fsets[0]), tier)

"""C14 — counting and tracing wrappers are transparent and count exactly (M1 forwarding, M2 counters, M3 stores)."""
import mir
import codeclass as cc
from rules_c10 import is_arg, peel_ref

WRAPPERS = {
    "utils::count::CountBitReader<": ("bit_read", "bits_read"),
    "utils::count::CountBitWriter<": ("bit_write", "bits_written"),
    "utils::dbg_codes::DbgBitReader<": ("reader", None),
    "utils::dbg_codes::DbgBitWriter<": ("writer", None),
}
STREAM_TRAITS = ("traits::bits::BitRead", "traits::bits::BitWrite", "traits::bits::BitSeek", "codes::gamma::GammaRead",
                 "codes::gamma::GammaWrite", "codes::delta::DeltaRead", "codes::delta::DeltaWrite", "codes::zeta::ZetaRead",
                 "codes::zeta::ZetaWrite")

# declared stream effect of each operation in bits (Ok path): how much the counter must grow
#   ("arg", i)      the i-th parameter of the method (1 = self)
#   "ok"            the Ok value of the forwarded call
#   "ok+1"          Ok value + 1
#   ("len", fam)    len function of family fam applied to the Ok value (and the method's parameter)
#   0               no data bits
EFFECT = {
    "read_bits": ("arg", 2), "skip_bits": ("arg", 2), "skip_bits_after_peek": ("arg", 2), "peek_bits": 0, "read_unary": "ok+1",
    "read_gamma": ("len", "gamma"), "read_delta": ("len", "delta"), "read_zeta": ("len", "zeta"), "read_zeta3": ("len", "zeta"),
    "write_bits": "ok", "write_unary": "ok", "flush": 0, "write_gamma": "ok", "write_delta": "ok", "write_zeta": "ok", "write_zeta3": "ok",
    "bit_pos": 0, "set_bit_pos": 0,
    # bulk copies move n bits (the provided defaults do it through the counted primitives; an override must count them itself)
    "copy_to": ("arg", 3), "copy_from": ("arg", 3),
}


def inner_of(t, inner_field):
    """is term `&mut (*self).inner_field`"""
    t = peel_ref(t)
    while isinstance(t, tuple) and t[0] == "ref":
        t = t[1]
    return isinstance(t, tuple) and t[0] == "field" and t[2] == inner_field and t[1] == ("deref", ("arg", 1, "self"))


def closure_effects(F, agg, argterm):
    """walk a closure body with its captured environment bound; returns list of paths"""
    body = F.body(agg[2])
    first = body["locals"][1]["ty"]
    env = {1: ("ref", agg) if first.startswith("&") else agg, 2: argterm}
    return mir.Walker(body, init_env=env).run()


def norm_ok(t, depth=0):
    """`match r { Ok(v) => .. }` and `r?` name the same payload: ('field', ('variant', r, 'Ok'), '0') -> ('okval', r)"""
    if not isinstance(t, tuple) or not t or depth > 40:
        return t
    if t[0] == "field" and len(t) == 3 and isinstance(t[1], tuple) and t[1] and t[1][0] == "variant" and t[1][2] == "Ok" and str(t[2]) == "0":
        return ("okval", norm_ok(t[1][1], depth + 1))
    return tuple(norm_ok(x, depth + 1) for x in t)


def counter_delta(stores, counter_key):
    """sum of increments applied by a sequence of store events to the counter; None if a store is not an increment"""
    total = []
    cur = counter_key
    for key, val in stores:
        if key != counter_key:
            continue
        v = val
        if isinstance(v, tuple) and v[0] == "binop" and v[1] == "Add" and v[2] == cur:
            total.append(v[3])
        elif isinstance(v, tuple) and v[0] == "binop" and v[1] == "Add" and v[3] == cur:
            total.append(v[2])
        else:
            return None
        cur = val
    return total


def run(chk, F, tier):
    # M1 / M2: decided by interpreting the wrapper methods (sa/rules_c14s.py); structurally when the interpreter refuses the code
    import rules_c14s
    if rules_c14s.run(chk, F, tier):
        run_init(chk, F)
        return
    run_structural(chk, F, tier)


def run_structural(chk, F, tier):
    chk.rule("M1.forward", floor=36, doc="each wrapper method makes exactly one call of the same operation on the inner stream with its own arguments and returns that result")
    chk.rule("M2.counter", floor=18, doc="on every Ok path the counter grows by exactly the operation's declared stream effect")
    methods = []
    for b in F.bodies:
        if b["kind"] != "AssocFn":
            continue
        sf = b.get("impl_self") or ""
        w = [k for k in WRAPPERS if sf.startswith(k)]
        if not w or (b.get("impl_trait_def") or "") not in STREAM_TRAITS:
            continue
        methods.append((w[0], b))
    for wk, b in methods:
        inner_field, counter = WRAPPERS[wk]
        tr = b["impl_trait_def"]
        name = b["path"].split("::")[-1]
        key = "%s%s::%s" % (wk.split("::")[-1], tr.split("::")[-1], name)
        nargs = b["arg_count"]
        probs = []
        cprobs = []
        counter_key = ("field", ("deref", ("arg", 1, "self")), counter) if counter else None
        paths = [p for p in mir.walk(b) if p.end[0] == "return"]
        if not paths:
            probs.append("no returning path")
        for p in paths:
            fcalls = [e for e in p.calls() if e[2] and inner_of(e[2][0], inner_field)]
            if len(fcalls) != 1:
                probs.append("%d calls on the inner stream (expected 1)" % len(fcalls))
                continue
            ev = fcalls[0]
            res = ev[3]
            # same operation
            same = ev[1] == tr + "::" + name
            if not same:
                a = cc.FAMILY.get(ev[1])
                o = cc.FAMILY.get(tr + "::" + name)
                if a and o and a[0] == o[0] and a[1] == o[1]:
                    # same family: parameters must agree (fixed vs passed)
                    ca = cc.classify_call(ev, a[0])
                    pa = ca[1] if ca else None
                    po = o[2] if o[2] is not None else ("arg", 2 if o[0] == "read" else 3)
                    same = (pa == po) or (isinstance(pa, tuple) and isinstance(po, tuple) and pa[:2] == po[:2])
            if not same:
                probs.append("forwards to %s instead of %s::%s" % (ev[1], tr, name))
            got = [cc.strip_casts(peel_ref(a)) for a in ev[2][1:]]
            if ev[1] == tr + "::" + name and (len(got) != nargs - 1 or any(not is_arg(g, i + 2) for i, g in enumerate(got))):
                probs.append("passes (%s) instead of its own arguments" % ", ".join(mir.fmt(a) for a in ev[2][1:]))
            # result pass-through: directly, through Result::inspect, or Ok(okval) after `?`
            r = norm_ok(p.ret)
            insp = [e for e in p.calls() if e[1].endswith("Result::<T, E>::inspect") and e[2][0] == res]
            err_rebuilt = isinstance(r, tuple) and r[0] == "agg" and r[3] == "Err" and r[4] and r[4][0] == ("field", ("variant", res, "Err"), "0")
            ok_ret = (r == res) or (insp and r == insp[0][3]) or \
                (isinstance(r, tuple) and r[0] == "agg" and r[3] == "Ok" and r[4][0] == ("okval", res)) or \
                r == ("from_residual", ("residual", res)) or err_rebuilt
            if not ok_ret:
                probs.append("returns %s, not the inner result" % mir.fmt(r))
            # ---- counters
            if counter is not None and name not in EFFECT:
                cprobs.append("the stream effect of `%s` is not declared in the checker: the counter cannot be judged" % name)
                continue
            if counter is None or name not in EFFECT:
                continue
            is_err_path = r == ("from_residual", ("residual", res)) or err_rebuilt
            stores = [(e[1], norm_ok(e[2])) for e in p.events if e[0] == "store"]
            deltas_variants = [counter_delta(stores, counter_key)]
            sub_paths = [None]
            if insp:
                clo = insp[0][2][1]
                if not (isinstance(clo, tuple) and clo[0] == "agg" and clo[1] == "closure"):
                    cprobs.append("inspect argument is not a closure literal")
                    continue
                subs = [sp for sp in closure_effects(F, clo, ("ref", ("okval", res))) if sp.end[0] == "return"]
                deltas_variants = []
                sub_paths = subs
                for sp in subs:
                    st2 = stores + [(e[1], e[2]) for e in sp.events if e[0] == "store"]
                    # the closure sees the counter value left by the parent
                    deltas_variants.append(counter_delta(st2, counter_key))
            if is_err_path:
                continue
            want = EFFECT[name]
            for dv, sp in zip(deltas_variants, sub_paths):
                if dv is None:
                    cprobs.append("counter is overwritten, not incremented")
                    continue
                if want == 0:
                    if dv:
                        cprobs.append("adds %s to %s although the operation moves no data bits" % (" + ".join(mir.fmt(d) for d in dv), counter))
                    continue
                if len(dv) != 1:
                    cprobs.append("adds %d increments (%s), expected exactly one of %s" % (len(dv), [mir.fmt(d) for d in dv], want))
                    continue
                d = cc.strip_casts(dv[0])
                if want == "ok":
                    okd = d == ("okval", res)
                elif want == "ok+1":
                    okd = d[0] == "binop" and d[1] == "Add" and cc.strip_casts(d[2]) == ("okval", res) and cc.const_int(d[3]) == 1
                elif want[0] == "arg":
                    okd = is_arg(d, want[1])
                elif want[0] == "len":
                    okd = False
                    if d[0] == "ret":
                        lev = [e for e in (sp if sp is not None else p).calls() if e[3] == d]
                        if lev:
                            lev = [tuple(norm_ok(x) if i in (2, 8) else x for i, x in enumerate(lev[0]))]
                        cl = cc.classify_call(lev[0], "len") if lev else None
                        if cl:
                            fam, param, value, _ = cl
                            own = cc.FAMILY[tr + "::" + name]
                            wantp = own[2] if own[2] is not None else (("arg", 2) if own[3] else None)
                            pp = param if not isinstance(param, tuple) else (param[:2] if param[0] == "arg" else param)
                            # closure captures the parameter by reference: *(&k) resolves to the parent's arg
                            okd = fam == want[1] and cc.strip_casts(value) == ("okval", res) and (pp == wantp)
                else:
                    okd = False
                if not okd:
                    cprobs.append("adds %s to %s, expected %s" % (mir.fmt(dv[0]), counter, want))
        chk.expect("M1.forward", key, not probs, "%s: %s" % (b["path"], "; ".join(sorted(set(probs)))), sample={"method": key})
        if counter is not None and name in EFFECT:
            chk.expect("M2.counter", key, not cprobs,
                       "%s: %s" % (b["path"], "; ".join(sorted(set(cprobs)))),
                       detail={"method": b["path"], "declared_effect": str(EFFECT[name])}, sample={"method": key, "effect": str(EFFECT[name])})
    run_init(chk, F)


def run_init(chk, F):
    # M3: constructors zero the counter
    chk.rule("M3.init", floor=2, doc="counters start at 0 and are stored nowhere else")
    for wk, (inner, counter) in WRAPPERS.items():
        if counter is None:
            continue
        ty = wk.rstrip("<")
        news = [b for b in F.bodies if b["kind"] == "AssocFn" and b["path"].endswith("::new") and (b.get("impl_self") or "").startswith(wk)]
        okn = False
        for b in news:
            for p in mir.walk(b):
                r = p.ret
                if isinstance(r, tuple) and r[0] == "agg" and counter in r[5]:
                    okn = cc.const_int(r[4][r[5].index(counter)]) == 0
        chk.expect("M3.init", ty, okn, "%s::new does not initialise %s to 0" % (ty, counter))


def run_all(chk, fsets, tier):
    import facts
    run(chk, facts.load(fsets[0]), tier)

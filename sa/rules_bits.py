"""Bit-range clauses (E3 part 3): reader buffer cleanliness, writer layout disjointness and zero padding."""
import lp
import mir
import numabs
import contracts
import rules_num as rn
import bitrange as br
from numabs import le, const

SELF = rn.SELF
BUF = ("field", ("deref", SELF), "buffer")
BITS = ("field", ("deref", SELF), "bits_in_buffer")
SPACE = ("field", ("deref", SELF), "space_left_in_buffer")


def ok_or_unit(p):
    r = p.ret
    if p.end[0] != "return":
        return False
    if isinstance(r, tuple) and ((r[0] == "agg" and r[3] == "Err") or r[0] == "from_residual"):
        return False
    return True


def or_sites(t, acc, depth=0):
    """all BitOr sub-terms of t"""
    if not isinstance(t, tuple) or not t or depth > 30:
        return acc
    if t[0] == "binop" and t[1] == "BitOr":
        acc.append(t)
    for x in t:
        or_sites(x, acc, depth + 1)
    return acc


def analyse_paths(F, spec, w):
    b = rn.find_body(F, spec.find)

    def assume(num):
        out = []
        for text, goals in spec.inv(num, w):
            out.extend(goals)
        out.extend(spec.pre(num, w))
        return out
    wk = numabs.NumWalker(b, numabs.Cfg(w), F, contracts.C, assume)
    wk.inline = spec.inline
    wk.gen_map = dict(getattr(spec, "gen", None) or {})
    return wk, wk.run(), b


def run_reader_cleanliness(chk, F, fs, rule="R2.clean", groups=(None,), keys=None):
    """bits of the reader's buffer outside the valid window are zero after every successful operation (refill ORs new words in);
    every OR that builds the buffer combines disjoint bit ranges"""
    for spec in rn.reader_specs():
        if not spec.key.startswith("reader.") or spec.group not in groups:
            continue
        if keys is not None and spec.key.split(".")[-1] not in keys:
            continue
        e = spec.key.split(".")[1]
        for w in spec.widths:
            wk, paths, b = analyse_paths(F, spec, w)
            num = wk.num
            clean_ok, or_ok = True, True
            bad_path = None
            n = 0
            for p in paths:
                if not ok_or_unit(p):
                    continue
                base = wk.full_store(p.state)
                if not lp.feasible_cached(base):
                    continue
                n += 1
                num.ctx_events = p.state["events"]
                b0 = num.aff(BITS)
                entry = {BUF: (const(2 * w) - b0, const(2 * w)) if e == "be" else (const(0), b0)}
                R = br.Ranges(num, base, entry)
                buf1 = p.mem.get(BUF, BUF)
                b1 = num.aff(p.mem.get(BITS, BITS))
                r = R.rng(buf1)
                if e == "be":
                    ok = R.within(r, lo=const(2 * w) - b1)
                else:
                    ok = R.within(r, hi=b1)
                if not ok and clean_ok:
                    clean_ok = False
                    bad_path = p
                for o in or_sites(buf1, []):
                    if not R.disjoint(R.rng(o[2]), R.rng(o[3])) and or_ok:
                        or_ok = False
                        bad_path = bad_path or p
            key = "%s@u%d%s" % (spec.key, w, "" if fs == "default" else "@" + fs)
            if n == 0:
                continue
            chk.expect(rule, key + "|window", clean_ok,
                       "%s, word u%d: after a successful return the buffer may have set bits outside the valid window of bits_in_buffer bits "
                       "(the next refill ORs a new word over them)" % (b["path"], w),
                       detail={"fn": b["path"], "cfg": "u%d" % w, "features": fs, "buffer": mir.fmt(bad_path.mem.get(BUF, BUF))[:200] if bad_path else None,
                               "path": rn.describe_path(bad_path) if bad_path else None},
                       sample={"fn": spec.key, "cfg": "u%d" % w} if w == 32 else None)
            chk.expect(rule, key + "|or", or_ok,
                       "%s, word u%d: an OR that builds the buffer combines bit ranges that may overlap" % (b["path"], w),
                       detail={"fn": b["path"], "cfg": "u%d" % w, "buffer": mir.fmt(bad_path.mem.get(BUF, BUF))[:200] if bad_path else None})


def run_writer_layout(chk, F, fs, rule="W4.layout", names=("write_bits", "write_unary", "flush"), groups=(None,)):
    """writer: every OR that builds the buffer / a delivered word combines disjoint ranges (the masked argument occupies exactly the
    n freed positions, so dirty high bits of the argument are ignored); flush pads with zeros"""
    for spec in rn.writer_specs():
        nm = spec.key.split(".")[-1]
        if nm not in names or spec.group not in groups:
            continue
        e = "be" if ".be." in spec.key else "le"
        base_arg = spec.self_base
        buf = ("field", ("deref", base_arg), "buffer")
        space = ("field", ("deref", base_arg), "space_left_in_buffer")
        for w in spec.widths:
            wk, paths, b = analyse_paths(F, spec, w)
            num = wk.num
            or_ok, pad_ok = True, True
            bad = None
            n = 0
            for p in paths:
                if not ok_or_unit(p):
                    continue
                basec = wk.full_store(p.state)
                if not lp.feasible_cached(basec):
                    continue
                n += 1
                num.ctx_events = p.state["events"]
                R = br.Ranges(num, basec, {})
                words = [ev[8][1] for ev in p.calls() if ev[1] == "traits::words::WordWrite::write_word"]
                terms = [p.mem.get(buf, buf)] + words
                for t in terms:
                    for o in or_sites(t, []):
                        if not R.disjoint(R.rng(o[2]), R.rng(o[3])) and or_ok:
                            or_ok = False
                            bad = (p, o)
                if nm.startswith("flush"):
                    s0 = num.aff(space)
                    for wd in words:
                        x = wd
                        if x[0] == "wordop" and x[1] in ("to_be", "to_le"):
                            x = x[2]
                        r = R.rng(x)
                        okp = R.within(r, lo=s0) if e == "be" else R.within(r, hi=const(w) - s0)
                        if not okp and pad_ok:
                            pad_ok = False
                            bad = (p, x)
            if n == 0:
                continue
            key = "%s@u%d%s" % (spec.key, w, "" if fs == "default" else "@" + fs)
            chk.expect(rule, key + "|or", or_ok,
                       "%s, word u%d: an OR that builds the buffer or a delivered word combines bit ranges that may overlap: %s"
                       % (b["path"], w, mir.fmt(bad[1])[:160] if bad else ""),
                       detail={"fn": b["path"], "cfg": "u%d" % w, "term": mir.fmt(bad[1])[:300] if bad else None},
                       sample={"fn": spec.key, "cfg": "u%d" % w} if w == 64 else None)
            if nm.startswith("flush"):
                chk.expect(rule, key + "|padding", pad_ok,
                           "%s, word u%d: the flushed word may carry non-zero bits in its %d..space_left padding positions" % (b["path"], w, 0),
                           detail={"fn": b["path"], "cfg": "u%d" % w, "word": mir.fmt(bad[1])[:300] if bad else None})


_e7_clean = {}


def run_clean_writes(chk, F, fs, specs, rule="G1.clean"):
    """under the `checks` feature: at every write_bits(v, n) issued by library code, v has no set bit at or above position n
    (so the argument check can never fire on an in-domain library call)"""
    for spec in specs:
        for w in spec.widths:
            wk, paths, b = analyse_paths(F, spec, w)
            num = wk.num
            sites = {}
            for p in paths:
                basec = wk.full_store(p.state)
                if not lp.feasible_cached(basec):
                    continue
                num.ctx_events = p.state["events"]
                entry = {}
                if spec.key.startswith("reader."):
                    e = spec.key.split(".")[1]
                    b0 = num.aff(BITS)
                    entry = {BUF: (const(2 * w) - b0, const(2 * w)) if e == "be" else (const(0), b0)}
                R = br.Ranges(num, basec, entry)
                for ev in p.calls():
                    if ev[1] != "traits::bits::BitWrite::write_bits":
                        continue
                    v, n = ev[8][1], num.aff(ev[8][2])
                    ok = n is not None and R.within(R.rng(v), hi=n)
                    s = sites.setdefault(ev[5], {"ok": True, "v": None})
                    if not ok and s["ok"]:
                        s["ok"] = False
                        s["v"] = (v, ev[8][2], p)
            lemmas = rn.load_lemmas()
            for i, (line, s) in enumerate(sorted(sites.items(), key=lambda kv: kv[0] or 0)):
                key = "%s@u%d@%s|write_bits#%d" % (spec.key, w, fs, i)
                if not s["ok"] and spec.group == "codes" and spec.key.endswith(".write"):
                    # the bit-range domain cannot see every way of clearing high bits (e.g. `x - (1 << ilog2(x))`): decide the writer
                    # by interpreting it on every value and every parameter (operands within their width on every cell)
                    import rules_ivl
                    code = spec.key.split(".")[0]
                    if code not in _e7_clean:
                        _e7_clean[code] = rules_ivl.fields_all_params(F, fs, code, what="clean")
                    if _e7_clean[code][0]:
                        chk.ok(rule, key, sample={"fn": spec.key, "decided_by": _e7_clean[code][1]})
                        continue
                if not s["ok"] and spec.key in ("vbyte.write_be", "vbyte.write_le"):
                    # a loop-carried byte (`low_bits = rest & 0x7F`) is beyond the bit-range domain: decide by interpretation
                    import rules_ivl
                    ck = ("vbyte", spec.key)
                    if ck not in _e7_clean:
                        _e7_clean[ck] = rules_ivl.vbyte_writes_clean(F, fs, spec.key[-2:])
                    if _e7_clean[ck][0]:
                        chk.ok(rule, key, sample={"fn": spec.key, "decided_by": _e7_clean[ck][1]})
                        continue
                if not s["ok"]:
                    lem = [l for l in lemmas if l[1].search(spec.key) and l[2].search("G1|write_bits#%d" % i)]
                    if lem:
                        chk.assume("lemma %s: %s" % (lem[0][0], lem[0][3]))
                        chk.extra.setdefault("lemmas_used", {}).setdefault(lem[0][0], []).append(key)
                        continue
                chk.expect(rule, key, s["ok"],
                           "%s, word u%d [features %s]: a write_bits issued by the library may carry set bits at or above the requested width "
                           "(value %s, width %s): with `checks` the argument assertion can fire on an in-domain call (source line %s)"
                           % (b["path"], w, fs, mir.fmt(s["v"][0])[:120] if s["v"] else "", mir.fmt(s["v"][1])[:40] if s["v"] else "", line),
                           detail={"fn": b["path"], "cfg": "u%d" % w, "features": fs, "value": mir.fmt(s["v"][0])[:300] if s["v"] else None},
                           sample={"fn": spec.key, "cfg": "u%d" % w, "site": i} if w == 64 else None)

"""Fact production (mirx over /repo) and loading.

Every check recomputes the source hash of /repo's working tree; a fact file is
reused only if it was exported from exactly that source with the current mirx
binary.  Nothing of the library is executed: `cargo +nightly check` stops
after analysis (metadata only).
"""
import fcntl
import glob
import hashlib
import json
import re
import os
import shutil
import subprocess
import sys
import time

VERIF = os.path.dirname(os.path.dirname(os.path.abspath(__file__)))
REPO = os.environ.get("VERIF_REPO", "/repo")
CACHE = os.environ.get("VERIF_CACHE", os.path.join(VERIF, ".cache"))
MIRX_DIR = os.path.join(VERIF, "mirx")
MIRX = os.path.join(MIRX_DIR, "target", "release", "mirx")

FEATURE_SETS = {
    "default": [],
    "checks": ["checks"],
    "no_copy_impls": ["no_copy_impls"],
    "both": ["checks", "no_copy_impls"],
}

# hand-counted floor on the pinned tree (measured: 1172 bodies on `default`)
BODY_FLOOR = 1000


def _sha_files(paths):
    h = hashlib.sha256()
    for p in sorted(paths):
        h.update(p.encode())
        h.update(b"\0")
        with open(p, "rb") as f:
            h.update(f.read())
        h.update(b"\0")
    return h.hexdigest()


def source_hash():
    files = [p for p in glob.glob(os.path.join(REPO, "src", "**", "*"), recursive=True) if os.path.isfile(p)]
    for extra in ("Cargo.toml", "Cargo.lock", "README.md"):
        p = os.path.join(REPO, extra)
        if os.path.isfile(p):
            files.append(p)
    return _sha_files(files)[:20]


def mirx_hash():
    files = [os.path.join(MIRX_DIR, "src", "main.rs"), os.path.join(MIRX_DIR, "src", "json.rs")]
    return _sha_files(files)[:12]


def sysroot():
    return subprocess.check_output(["rustc", "+nightly", "--print", "sysroot"], text=True).strip()


def ensure_mirx():
    """Build the exporter if its binary is missing or older than its source."""
    stamp = os.path.join(MIRX_DIR, "target", "release", ".mirx-" + mirx_hash())
    if os.path.exists(MIRX) and os.path.exists(stamp):
        return
    env = dict(os.environ, CARGO_NET_OFFLINE="true")
    r = subprocess.run(["cargo", "build", "--release", "--offline"], cwd=MIRX_DIR, env=env,
                       stdout=subprocess.PIPE, stderr=subprocess.STDOUT, text=True)
    if r.returncode != 0:
        sys.stderr.write(r.stdout)
        raise SystemExit("mirx build failed")
    for old in glob.glob(os.path.join(MIRX_DIR, "target", "release", ".mirx-*")):
        os.unlink(old)
    open(stamp, "w").close()


class FactsError(Exception):
    pass


def ensure_facts(fs="default"):
    """Return path of the fact file for feature set `fs` on the current tree."""
    os.makedirs(os.path.join(CACHE, "facts"), exist_ok=True)
    lock = open(os.path.join(CACHE, "lock-" + fs), "w")
    fcntl.flock(lock, fcntl.LOCK_EX)
    try:
        ensure_mirx()
        sh = source_hash()
        out = os.path.join(CACHE, "facts", "%s-%s-%s.json" % (fs, sh, mirx_hash()))
        if os.path.exists(out):
            return out
        for old in glob.glob(os.path.join(CACHE, "facts", fs + "-*.json")):
            os.unlink(old)
        tdir = os.path.join(CACHE, "target-" + fs)
        # cargo's freshness cache would silently skip the wrapper: drop the
        # member's fingerprints (dependencies stay warm)
        for fp in glob.glob(os.path.join(tdir, "debug", ".fingerprint", "dsi-bitstream-*")):
            shutil.rmtree(fp, ignore_errors=True)
        tmp = out + ".tmp"
        if os.path.exists(tmp):
            os.unlink(tmp)
        env = dict(os.environ)
        env.update({
            "LD_LIBRARY_PATH": os.path.join(sysroot(), "lib") + ":" + env.get("LD_LIBRARY_PATH", ""),
            "RUSTFLAGS": "-Zmir-opt-level=0 -Awarnings",
            "RUSTC_WORKSPACE_WRAPPER": MIRX,
            "MIRX_OUT": tmp,
            "MIRX_CRATE": "dsi_bitstream",
            "CARGO_TARGET_DIR": tdir,
            "CARGO_NET_OFFLINE": "true",
        })
        cmd = ["cargo", "+nightly", "check", "--offline", "--lib"]
        feats = FEATURE_SETS[fs]
        if feats:
            cmd += ["--features", ",".join(feats)]
        t0 = time.time()
        r = subprocess.run(cmd, cwd=REPO, env=env, stdout=subprocess.PIPE, stderr=subprocess.STDOUT, text=True)
        if r.returncode != 0 or not os.path.exists(tmp):
            sys.stderr.write(r.stdout[-4000:])
            raise FactsError("fact export failed for feature set %s (cargo exit %s)" % (fs, r.returncode))
        os.rename(tmp, out)
        sys.stderr.write("[facts] exported %s in %.1fs\n" % (os.path.basename(out), time.time() - t0))
        return out
    finally:
        fcntl.flock(lock, fcntl.LOCK_UN)
        lock.close()


# Private fields of the structs the rules talk about, identified by the type of the field (each of these structs has at most one
# field of each kind), so that renaming a private field changes nothing: role name -> predicate on the declared type.
def _is_param(ty, adt):
    return ty in (adt.get("generics") or []) or bool(re.fullmatch(r"[A-Z][A-Za-z0-9]*", ty))


FIELD_ROLES = {
    "impls::mem_word_reader::MemWordReader": {"data": "param", "word_index": "usize"},
    "impls::mem_word_writer::MemWordWriterSlice": {"data": "param", "word_index": "usize"},
    "impls::mem_word_writer::MemWordWriterVec": {"data": "param", "word_index": "usize"},
    "impls::word_adapter::WordAdapter": {"backend": "param"},
    "impls::bit_reader::BitReader": {"data": "param", "bit_index": "u64"},
    "impls::buf_bit_reader::BufBitReader": {"backend": "param", "buffer": "proj", "bits_in_buffer": "usize"},
    "impls::buf_bit_writer::BufBitWriter": {"backend": "param", "buffer": "proj", "space_left_in_buffer": "usize"},
    "utils::count::CountBitWriter": {"bit_write": "param"},
    "utils::count::CountBitReader": {"bit_read": "param"},
    "utils::dbg_codes::DbgBitReader": {"reader": "param"},
    "utils::dbg_codes::DbgBitWriter": {"writer": "param"},
    "utils::find_change::FindChangePoints": {"func": "param", "current": "u64", "prev_value": "usize"},
    "utils::stats::CodesStatsWrapper": {"stats": "mutex", "wrapped": "param"},
}


def _kind_of(ty, adt):
    if ty in ("usize", "u64"):
        return ty
    if ty.startswith("std::marker::PhantomData"):
        return "phantom"
    if ty.startswith("std::sync::Mutex<"):
        return "mutex"
    if " as " in ty:
        return "proj"
    if _is_param(ty, adt):
        return "param"
    return "other"


def _type_head(ty):
    ty = ty.strip()
    while True:
        m = re.match(r"^(&(\'\w+ )?(mut )?|\*const |\*mut )", ty)
        if not m:
            break
        ty = ty[m.end():]
    return ty.split("<")[0].strip()


def canonicalise_fields(adts, bodies):
    """rename the private fields of FIELD_ROLES structs to the role names the rules use (in the ADT table, in aggregates and in
    every place projection whose base is such a struct); returns {adt: {actual: canonical}} for the renames made"""
    canon = {}          # adt path -> list of canonical names by field index
    made = {}
    for path, roles in FIELD_ROLES.items():
        a = adts.get(path)
        if not a or len(a["variants"]) != 1:
            continue
        flds = a["variants"][0]["fields"]
        kinds = [_kind_of(f["ty"], a) for f in flds]
        names = [f["name"] for f in flds]
        ok = True
        for role, kind in roles.items():
            idx = [i for i, k in enumerate(kinds) if k == kind and (flds[i].get("vis") != "Public")]
            if len(idx) != 1:
                ok = False
                break
            names[idx[0]] = role
        if not ok or len(set(names)) != len(names):
            continue
        ren = {f["name"]: n for f, n in zip(flds, names) if f["name"] != n}
        canon[path] = names
        if ren:
            made[path] = ren
            for f, n in zip(flds, names):
                f["name"] = n
    if not made:
        return made
    field_ty = {p: [f["ty"] for f in adts[p]["variants"][0]["fields"]] for p in canon}

    def fix_place(pl, locals_):
        if not pl.get("proj"):
            return
        ty = locals_[pl["l"]]["ty"] if pl["l"] < len(locals_) else ""
        for e in pl["proj"]:
            if e == "deref":
                ty = re.sub(r"^(&(\'\w+ )?(mut )?|\*const |\*mut )", "", ty.strip())
            elif isinstance(e, dict) and "field" in e:
                h = _type_head(ty)
                i = int(e["field"])
                if h in canon and i < len(canon[h]):
                    e["name"] = canon[h][i]
                    ty = field_ty[h][i]
                else:
                    ty = ""
            else:
                ty = ""

    def walk(o, locals_):
        if isinstance(o, dict):
            if "l" in o and "proj" in o:
                fix_place(o, locals_)
            if o.get("k") == "aggregate" and o.get("agg") == "adt" and o.get("adt") in canon and o.get("fields"):
                nm = canon[o["adt"]]
                o["fields"] = [made.get(o["adt"], {}).get(f, f) for f in o["fields"]]
            for v in o.values():
                walk(v, locals_)
        elif isinstance(o, list):
            for v in o:
                walk(v, locals_)
    for b in bodies:
        if b.get("blocks"):
            walk(b["blocks"], b.get("locals") or [])
    return made


# Const generic parameters of the public table-flag methods, by position (the trait fixes their order; an impl may name them as it
# likes): method name -> canonical names of its trailing const parameters.
CONST_GENERICS = {
    "read_gamma_param": ["USE_TABLE"], "write_gamma_param": ["USE_TABLE"], "len_gamma_param": ["USE_TABLE"],
    "read_delta_param": ["USE_DELTA_TABLE", "USE_GAMMA_TABLE"], "write_delta_param": ["USE_DELTA_TABLE", "USE_GAMMA_TABLE"],
    "len_delta_param": ["USE_DELTA_TABLE", "USE_GAMMA_TABLE"],
    "read_zeta3_param": ["USE_TABLE"], "write_zeta3_param": ["USE_TABLE"], "write_zeta_param": ["USE_TABLE"], "len_zeta_param": ["USE_TABLE"],
}


def canonicalise_const_generics(bodies):
    made = {}
    maps = {}
    for b in bodies:
        nm = b["path"].split("::")[-1]
        canon = CONST_GENERICS.get(nm)
        gens = b.get("generics") or []
        if not canon or b["kind"] not in ("AssocFn", "Fn") or len(gens) < len(canon):
            continue
        tail = gens[len(gens) - len(canon):]
        ren = {a: c for a, c in zip(tail, canon) if a != c}
        if ren and not (set(ren.values()) & (set(gens) - set(tail))):
            maps[b["path"]] = ren
    if not maps:
        return made

    def walk(o, ren):
        if isinstance(o, dict):
            if o.get("k") == "const" and o.get("param") in ren:
                o["param"] = ren[o["param"]]
            if isinstance(o.get("fn_args"), list):
                o["fn_args"] = [ren.get(a, a) for a in o["fn_args"]]
            for v in o.values():
                walk(v, ren)
        elif isinstance(o, list):
            for v in o:
                walk(v, ren)
    for b in bodies:
        ren = maps.get(b["path"])
        if ren is None:
            for p, r in maps.items():
                if b["path"].startswith(p + "::"):      # closures and items nested in the method
                    ren = r
        if ren is None:
            continue
        b["generics"] = [ren.get(g, g) for g in (b.get("generics") or [])]
        walk(b.get("blocks") or [], ren)
        made[b["path"]] = ren
    return made


class Facts:
    def __init__(self, path, fs):
        with open(path) as f:
            d = json.load(f)
        self.fs = fs
        self.path = path
        self.meta = d["meta"]
        self.adts = {a["path"]: a for a in d["adts"]}
        self.impls = d["impls"]
        self.consts = {c["path"]: c for c in d["consts"]}
        self.bodies = d["bodies"]
        self.field_renames = canonicalise_fields(self.adts, self.bodies)
        self.generic_renames = canonicalise_const_generics(self.bodies)
        self.by_path = {}
        for b in self.bodies:
            if b["kind"] == "Promoted":
                continue
            self.by_path.setdefault(b["path"], []).append(b)
        if len(self.bodies) < BODY_FLOOR:
            raise FactsError("fact file %s has %d bodies < floor %d" % (path, len(self.bodies), BODY_FLOOR))
        want = sorted(["alloc", "default", "mem_dbg", "std"] + FEATURE_SETS[fs])
        if sorted(self.meta["features"]) != want:
            raise FactsError("fact file features %r != expected %r" % (self.meta["features"], want))
        if not (self.meta.get("debug_assertions") and self.meta.get("overflow_checks")):
            raise FactsError("facts must come from a dev-profile build (debug assertions + overflow checks)")

    def body(self, path):
        """Unique body with exactly this def path."""
        l = self.by_path.get(path, [])
        if len(l) != 1:
            raise FactsError("anchor %r: expected exactly one body, found %d" % (path, len(l)))
        return l[0]

    def find(self, name=None, impl_trait=None, impl_self=None, kind=None, path_contains=None,
             self_is=None, trait_is=None):
        out = []
        for b in self.bodies:
            if b["kind"] == "Promoted":
                continue
            if kind and b["kind"] not in kind:
                continue
            if name is not None and not (b["path"].endswith("::" + name) or b["path"] == name):
                continue
            if path_contains and path_contains not in b["path"]:
                continue
            if impl_trait is not None and impl_trait not in (b.get("impl_trait") or ""):
                continue
            if impl_self is not None and impl_self not in (b.get("impl_self") or ""):
                continue
            if self_is is not None and not re.fullmatch(self_is, b.get("impl_self") or ""):
                continue
            if trait_is is not None and not re.fullmatch(trait_is, b.get("impl_trait") or ""):
                continue
            out.append(b)
        return out

    def one(self, **kw):
        l = self.find(**kw)
        if len(l) != 1:
            raise FactsError("anchor %r: expected exactly one body, found %d" % (kw, len(l)))
        return l[0]

    def const(self, path):
        c = self.consts.get(path)
        if c is None or "value" not in c:
            raise FactsError("anchor const %r not found or not evaluated" % path)
        return c["value"]


_loaded = {}


def load(fs="default"):
    p = ensure_facts(fs)
    if p not in _loaded:
        _loaded[p] = Facts(p, fs)
    return _loaded[p]

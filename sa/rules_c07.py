"""C07 — reported bit positions and seeks: ghost position accounting (E4) of every BitRead/BitSeek method of the three readers,
numeric safety of the seek path (E3), BitSeek of the unbuffered reader, backend cursor rules (C13) and adapter position rules (C11.A4)."""
import mir
import codeclass as cc
import rules_num as rn
import rules_effects as re_
from rules_c10 import is_arg


def run_unbuffered_seek(chk, F):
    chk.rule("S.bitreader", floor=4, doc="BitReader: bit_pos returns bit_index, set_bit_pos stores exactly its argument")
    S = ("deref", ("arg", 1, "self"))
    K = ("field", S, "bit_index")
    for b in F.find(trait_is="traits::bits::BitSeek", impl_self="impls::bit_reader::BitReader<"):
        if b["kind"] != "AssocFn":
            continue
        nm = b["path"].split("::")[-1]
        ps = [p for p in mir.walk(b) if p.end[0] == "return"]
        ok = len(ps) == 1
        if ok and nm == "bit_pos":
            r = ps[0].ret
            ok = r[0] == "agg" and r[3] == "Ok" and cc.strip_casts(r[4][0]) == K and not [e for e in ps[0].events if e[0] == "store"]
        elif ok and nm == "set_bit_pos":
            st = [(e[1], e[2]) for e in ps[0].events if e[0] == "store"]
            ok = st == [(K, ("arg", 2, "arg2"))] and ps[0].ret[0] == "agg" and ps[0].ret[3] == "Ok"
        chk.expect("S.bitreader", "%s|%s" % ((b.get("impl_self") or "")[:60], nm), ok, "%s is not the plain bit_index accessor" % b["path"])


def run_all(chk, fsets, tier):
    import facts
    for i, fs in enumerate(fsets):
        F = facts.load(fs)
        if i == 0:
            run_unbuffered_seek(chk, F)
        chk.rule("S.numeric", floor=40 if i == 0 else 0, doc="E3 obligations of bit_pos / set_bit_pos of the buffered reader (u8..u64): division, shifts, invariant after the reload")
        rn.run_specs(chk, F, [s for s in rn.reader_specs() if s.group == "seek"], "S.numeric", fs)
        chk.rule("S.position", floor=60 if i == 0 else 0,
                 doc="E4: bit_pos() returns pos = W*word_pos - bits_in_buffer; set_bit_pos(p) establishes pos' = p; read/skip/peek/read_unary/skip_after_peek move pos by exactly their declared amount (so table reads = peek + skip(len) advance by len)")
        re_.run_reader_effects(chk, F, fs, "S.position", groups=(None, "seek"))
        import rules_bits
        chk.rule("S.clean", floor=8 if i == 0 else 0, doc="bit-range domain: set_bit_pos leaves the buffer clean (cleared, then only the reloaded partial word inside the valid window)")
        rules_bits.run_reader_cleanliness(chk, F, fs, "S.clean", groups=("seek",), keys=("set_bit_pos",))
        import rules_seq
        chk.rule("S.content", floor=8 if i == 0 else 0,
                 doc="bit-sequence domain: set_bit_pos(p) positions the backend at word p / W; for p % W = r > 0 it fetches exactly one word and the buffer holds exactly that word's last W - r stream bits in its valid window (zeros elsewhere); for r = 0 nothing is fetched and the buffer is empty - so every later read behaves as on a fresh reader that consumed p bits (C02.R7 from that state)")
        rules_seq.run_seek_content(chk, F, fs, "S.content")
    # failed look-ahead and the unbuffered reader's primitives
    import deps
    F0 = facts.load(fsets[0])
    deps.end_of_stream(chk, F0, tier, ("E3.order",), "S.history", "a failed look-ahead fetch does not touch the counters the position is computed from (C09)")
    chk.rule("S.history.unbuffered", floor=20, doc="E3 obligations of the unbuffered reader, including: a successful read_unary found a terminating one inside the word it counted, so bit_index moves to the bit after it (C02.R2) [included]")
    rn.run_specs(chk, F0, [s for s in rn.reader_specs() if s.key.startswith("bitreader.") and s.group is None], "S.history.unbuffered", fsets[0])
    # backends
    import rules_c13, rules_c11
    for mod, rules, name in ((rules_c13, ("K.word_pos", "K.set_word_pos", "K.read_word"), "memory backends"), (rules_c11, ("A4.positions",), "byte adapter")):
        sub = type(chk)(chk.pid, chk.tier, chk.level, chk.explanation)
        mod.run(sub, facts.load(fsets[0]), tier)
        for r in rules:
            chk.rule("S.backend." + r, floor=1, doc="cursor/position rule %s of the %s (shared with %s)" % (r, name, mod.__name__[-3:].upper()))
            rr_ = sub.rules.get(r, {"ok": 0})
            for j in range(rr_["ok"]):
                chk.ok("S.backend." + r, "%s#%d" % (r, j))
            for v in sub.violations:
                if "|%s|" % r in v["key"]:
                    chk.bad("S.backend." + r, v["key"].split("|", 2)[2], v["what"])
    chk.trust("rustc MIR construction and the mirx exporter; contracts and ghost model (read_word +1, set_word_pos := x, word_pos returns it); exact rational simplex")

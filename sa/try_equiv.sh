#!/bin/bash
# usage: try_equiv.sh <equiv-id> <check ids...>  — applies a behaviour-preserving patch in a scratch worktree and runs the named checks there
set -u
eid=$1; shift
WT=/tmp/tryeq-repo-$$
git -C /repo worktree add -q --detach $WT HEAD || exit 2
git -C $WT apply --whitespace=nowarn /verif/equiv/$eid/patch.diff || { git -C /repo worktree remove --force $WT; exit 2; }
for c in "$@"; do
  VERIF_REPO=$WT VERIF_CACHE=/tmp/tryeq-cache-$$ VERIF_EVIDENCE=/tmp/tryeq-ev-$$ /verif/check $c 2>&1 | grep -E "rule=|^  [a-zA-Z<].{20}|quick:" | cut -c1-${COLS:-400} | head -${LINES_MAX:-14}
done
git -C /repo worktree remove --force $WT; rm -rf /tmp/tryeq-cache-$$ /tmp/tryeq-ev-$$

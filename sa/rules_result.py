"""Result discipline (DESIGN.md 3.2): what happens to every Result/Option produced by a call.

classification of a call result r on one path:
  tried      `?` applied: a ('discr', ('try', r)) constraint (its Break exit returns from_residual by construction)
  returned   the path returns r itself (or a value built from r by a transparent adaptor)
  adapted    r is the receiver of map_err / inspect / map / ok_or / ok_or_else / and_then, whose result is classified recursively
  matched    an explicit `match`/`if let` on discriminant(r)
  consumed   r is handed to unwrap/expect/ok/unwrap_or*/is_ok/is_err (value or error discarded or turned into a panic)
  dropped    none of the above on a path that continues past the call
"""
import mir

ADAPTORS = ("::map_err", "::inspect", "::map", "::ok_or", "::ok_or_else", "::and_then", "::inspect_err", "::copied", "::cloned")
CONSUMERS = ("::unwrap", "::expect", "::ok", "::unwrap_or", "::unwrap_or_default", "::unwrap_or_else", "::is_ok", "::is_err",
             "::unwrap_unchecked", "::err", "::is_some", "::is_none")


def is_resultish(ty):
    return ty is not None and (ty.startswith("std::result::Result<") or ty.startswith("std::option::Option<"))


def is_result(ty):
    return ty is not None and ty.startswith("std::result::Result<")


def mentions(t, r):
    return mir.mentions(t, lambda x: x == r)


def classify(path, ev):
    """classification of call event ev's result on this path -> (kind, detail)"""
    r = ev[3]
    idx = path.events.index(ev)
    for (t, op, v) in path.constraints:
        if t == ("discr", ("try", r)):
            return ("tried", None)
    for (t, op, v) in path.constraints:
        if t == ("discr", r) or (t[0] == "discr" and t[1] == r):
            # explicit match: fine when the Err arm returns an error (or loops back); the Ok arm continues
            is_err_arm = (op == "==" and v == 1)
            if not is_err_arm:
                return ("matched-ok", None)
            rt = path.ret
            if path.end[0] == "cut" or (isinstance(rt, tuple) and ((rt[0] == "agg" and rt[3] in ("Err", "None")) or rt[0] == "from_residual")):
                return ("matched-ok", None)
            # std's retry idiom: `Err(e) if e.kind() == ErrorKind::Interrupted => continue`
            kinds = [e for e in path.events if e[0] == "call" and e[1] == "std::io::Error::kind"
                     and mir.mentions(e[2][0], lambda x: x == ("variant", r, "Err"))]
            for kd in kinds:
                eqs = [e for e in path.events if e[0] == "call" and e[1].endswith("PartialEq::eq") and any(mentions(a, kd[3]) for a in e[8])]
                for q in eqs:
                    if any(t == q[3] and ((o == "notin" and vv == (0,)) or (o == "==" and vv == 1)) for (t, o, vv) in path.constraints):
                        return ("matched-ok", "retry on a tested error kind")
            return ("matched", (op, v))
    if path.ret is not None and mentions(path.ret, r):
        return ("returned", None)
    for e in path.events[idx + 1:]:
        if e[0] != "call":
            continue
        if e[8] and e[8][0] == r:
            nm = e[1]
            if any(nm.endswith(a) for a in ADAPTORS):
                k, d = classify(path, e)
                return ("adapted:" + k, (nm, d))
            if any(nm.endswith(c) for c in CONSUMERS):
                return ("consumed", nm)
        if any(mentions(a, r) for a in e[8]):
            return ("passed", e[1])
    # stored somewhere?
    for e in path.events[idx + 1:]:
        if e[0] == "store" and mentions(e[2], r):
            return ("stored", mir.fmt(e[1]))
    if path.end[0] in ("diverge", "cut") or idx == len(path.events) - 1 and path.end[0] != "return":
        return ("unknown-end", None)
    return ("dropped", None)


def discipline(F, body, want_result_only=True, callee_filter=None):
    """for every Result-producing call site of `body`: set of classifications over all paths.
    returns dict: (callee, ordinal) -> {"kinds": set, "line": n, "callee": name}"""
    out = {}
    paths = mir.Walker(body, unroll=1).run()
    for p in paths:
        seen_here = {}
        for e in p.events:
            if e[0] != "call":
                continue
            ty = e[9]
            if want_result_only and not is_result(ty):
                continue
            if callee_filter and not callee_filter(e):
                continue
            # ordinal by source line + callee: stable across paths
            key = (e[1], e[5])
            k, d = classify(p, e)
            ent = out.setdefault(key, {"kinds": set(), "line": e[5], "callee": e[1], "details": []})
            ent["kinds"].add(k)
            if d is not None and len(ent["details"]) < 3:
                ent["details"].append(str(d)[:80])
    # re-key without line numbers: ordinal among same-callee sites in source order
    by_callee = {}
    for (callee, line), ent in sorted(out.items(), key=lambda kv: (kv[0][0], kv[0][1] or 0)):
        n = by_callee.get(callee, 0)
        by_callee[callee] = n + 1
        ent["ordinal"] = n
    return out


OK_KINDS = {"tried", "returned", "adapted:tried", "adapted:returned", "adapted:adapted:tried", "adapted:adapted:returned", "unknown-end"}

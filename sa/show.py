#!/usr/bin/env python3
"""Pretty-print exported MIR bodies: show.py <facts.json> <substring> [impl-substring]"""
import json, sys

def pl(p):
    s = "_%d" % p["l"]
    for e in p["proj"]:
        if e == "deref": s = "(*%s)" % s
        elif isinstance(e, dict) and "field" in e: s = "%s.%s" % (s, e["name"] if e["name"] else e["field"])
        elif isinstance(e, dict) and "index" in e: s = "%s[_%d]" % (s, e["index"])
        elif isinstance(e, dict) and "downcast" in e: s = "(%s as %s)" % (s, e["variant"])
        elif isinstance(e, dict) and "cindex" in e: s = "%s[c%d]" % (s, e["cindex"])
        else: s = "%s.<%s>" % (s, json.dumps(e))
    return s

def op(o):
    if o is None: return "?"
    k = o.get("k")
    if k in ("copy", "move"): return ("" if k == "copy" else "move ") + pl(o["place"])
    if k == "const":
        if "fn" in o: return "fn:" + o["fn"] + ("<%s>" % ",".join(o.get("fn_args", []))) + (" ~> " + o["resolved"]["fn"] if o.get("resolved") else "")
        if "value" in o: return "const %s_%s" % (o["value"], o["ty"])
        if "param" in o: return "const param " + o["param"]
        if "uneval" in o: return "const uneval %s<%s>" % (o["uneval"], ",".join(o.get("uneval_args", []))) + (" =%s" % o["value"] if "value" in o else "")
        if "str" in o: return "const %r" % o["str"]
        if "bytes" in o: return "const bytes%r" % (o["bytes"],)
        if "closure" in o: return "closure:" + o["closure"]
        return "const <%s: %s>" % (o.get("text", "?"), o["ty"])
    return json.dumps(o)

def rv(r):
    k = r["k"]
    if k == "use": return op(r["op"])
    if k == "binop": return "%s(%s, %s)" % (r["op"], op(r["a"]), op(r["b"]))
    if k == "unop": return "%s(%s)" % (r["op"], op(r["a"]))
    if k == "cast": return "%s as %s [%s]" % (op(r["op"]), r["ty"], r["kind"])
    if k == "ref": return "&%s%s" % ("mut " if r["mut"] else "", pl(r["place"]))
    if k == "rawptr": return "&raw " + pl(r["place"])
    if k == "discr": return "discriminant(%s)" % pl(r["place"])
    if k == "aggregate":
        n = r.get("adt", r.get("agg"))
        if r.get("agg") == "adt": n += "::" + r["variant"]
        if r.get("agg") == "closure": n = "closure:" + r["closure"]
        return "%s{%s}" % (n, ", ".join(op(x) for x in r["ops"]))
    if k == "repeat": return "[%s; %s]" % (op(r["op"]), r["n"])
    return json.dumps(r)

def show(b):
    print("== %s  [%s] impl_trait=%s impl_self=%s  %s" % (b["path"], b["kind"], b.get("impl_trait"), b.get("impl_self"), b["span"]))
    for l in b["locals"]:
        print("   let _%s: %s%s" % (l["id"], l["ty"], "  // " + l["name"] if l["name"] else ""))
    for blk in b["blocks"]:
        print(" bb%s%s:" % (blk["id"], " (cleanup)" if blk["cleanup"] else ""))
        for s in blk["stmts"]:
            if s["k"] == "assign": print("    %s = %s" % (pl(s["place"]), rv(s["rv"])))
            else: print("    " + json.dumps(s))
        t = blk["term"]; k = t["k"]
        if k == "call":
            print("    %s = %s(%s) -> %s   @%s" % (pl(t["dest"]), op(t["func"]), ", ".join(op(a) for a in t["args"]), t["target"], t["line"]))
        elif k == "switch":
            print("    switch %s [%s] else %s" % (op(t["discr"]), ", ".join("%s:bb%s" % (v, x) for v, x in t["targets"]), t["otherwise"]))
        elif k == "assert":
            print("    assert(%s == %s) %s -> %s" % (op(t["cond"]), t["expected"], json.dumps(t["msg"].get("k")), t["target"]))
        elif k in ("goto", "drop"):
            print("    %s%s -> %s" % (k, " " + pl(t["place"]) if k == "drop" else "", t["target"]))
        else:
            print("    " + k)

if __name__ == "__main__":
    f = json.load(open(sys.argv[1]))
    sub = sys.argv[2]; isub = sys.argv[3] if len(sys.argv) > 3 else ""
    for b in f["bodies"]:
        if sub in b["path"] and isub in (b.get("impl_trait") or "") + "|" + (b.get("impl_self") or ""):
            show(b)

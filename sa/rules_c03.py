"""C03 — codes round-trip: K1 domain safety of every code writer/reader/len function (E3, all feature sets),
K2 reader/writer duality by replay (value-partition interpreter), K3 default parameter selection."""
import rules_num as rn
import rules_tables as rt


def run_all(chk, fsets, tier):
    import facts
    for i, fs in enumerate(fsets):
        F = facts.load(fs)
        if i == 0:
            rt.check_default_params(chk, F, "K3.defaults")
        chk.rule("K1.domain", floor=100 if i == 0 else 0,
                 doc="E3: under the documented domain (n <= 2^64-2; zeta 1<=k<=63; pi/Rice/exp-Golomb k<=63; Golomb b>=1; minimal binary max>=1, n<max) every overflow/shift/division assert, ilog2 argument, read_bits/write_bits width and reachable panic of each code's write/len function is discharged (reader side: up to stream-domain assumptions)")
        import rules_ivl
        rn.run_specs(chk, F, [s for s in rn.code_specs() if not s.key.startswith("vbyte.io_") and s.key not in rules_ivl.E7_COVERED], "K1.domain", fs)
        rules_ivl.run_domain_e7(chk, F, fs, tier, "K1.domain", [k for k in rules_ivl.E7_COVERED if not k.startswith("vbyte.io_")])
    import rules_ivl
    for fs in fsets:
        rules_ivl.run_c03_roundtrip(chk, facts.load(fs), fs, tier)
    rules_ivl.run_golomb(chk, facts.load(fsets[0]), fsets[0], tier, "C03")
    chk.trust("rustc MIR, exporter, contract table, LP entailment; lemmas L4-L7 and the stream-domain assumption are listed, not discharged")

"""C03 — codes round-trip: K1 domain safety of every code writer/reader/len function (E3, all feature sets),
K2 reader/writer duality by replay (value-partition interpreter), K3 default parameter selection."""
import rules_num as rn
import rules_tables as rt


def run_all(chk, fsets, tier):
    import facts
    for i, fs in enumerate(fsets):
        F = facts.load(fs)
        if i == 0:
            rt.check_default_params(chk, F, "K3.defaults")
        chk.rule("K1.domain", floor=100 if i == 0 else 0,
                 doc="E3: under the documented domain (n <= 2^64-2; zeta 1<=k<=63; pi/Rice/exp-Golomb k<=63; Golomb b>=1; minimal binary max>=1, n<max) every overflow/shift/division assert, ilog2 argument, read_bits/write_bits width and reachable panic of each code's write/len function is discharged (reader side: up to stream-domain assumptions)")
        import rules_ivl
        rn.run_specs(chk, F, [s for s in rn.code_specs() if not s.key.startswith("vbyte.io_") and s.key not in rules_ivl.E7_COVERED], "K1.domain", fs)
        rules_ivl.run_domain_e7(chk, F, fs, tier, "K1.domain", [k for k in rules_ivl.E7_COVERED if not k.startswith("vbyte.io_")])
    import rules_ivl
    for fs in fsets:
        rules_ivl.run_c03_roundtrip(chk, facts.load(fs), fs, tier)
    rules_ivl.run_golomb(chk, facts.load(fsets[0]), fsets[0], tier, "C03")
    # VByte on bit streams: the writer's bytes are exactly what the reader's stop rule expects (the rules of C18)
    rules_ivl.run_c18(chk, facts.load(fsets[0]), fsets[0], tier, prefix="K4.vbyte.")
    # the round trip goes through the bit writers and every reader implementation: their content rules are part of the argument
    import deps
    F0 = facts.load(fsets[0])
    widths = None if tier == "thorough" else (64,)
    deps.writer_content(chk, F0, fsets[0], "K5.primitives.writer", widths, "codes are written through write_bits/write_unary (C01.W6)")
    deps.reader_content(chk, F0, fsets[0], "K5.primitives.reader", widths, "codes are read through read_bits/peek_bits/skip/read_unary of the buffered and the unbuffered reader (C02.R7)")
    deps.end_of_stream(chk, F0, tier, ("E3.order",), "K5.primitives.lookahead", "a failed look-ahead fetch at the end of a strict stream leaves the reader as it was, so the last codes are decoded from the position they start at and the position after them is right (C09)")
    chk.rule("K5.primitives.unbuffered", floor=20, doc="E3 obligations of the unbuffered reader, including: a successful read_unary found a terminating one inside the word it counted (C02.R2) [included]")
    rn.run_specs(chk, F0, [s for s in rn.reader_specs() if s.key.startswith("bitreader.") and s.group is None], "K5.primitives.unbuffered", fsets[0])
    chk.trust("rustc MIR, exporter, contract table, LP entailment; lemmas L4-L7 and the stream-domain assumption are listed, not discharged")

"""Rules decided with the value-partition interpreter (sa/ivl.py): facts about *every* 64-bit value of a code's argument.

  whole-domain lengths   len_* functions are evaluated abstractly on a partition of [0, 2^64-1] found by bisection; on each
                         cell the result is a constant or a monotone function with exact end values
  writers                the default writers and the table writers are evaluated the same way with the stream primitives
                         replaced by their contracts (write_bits(v, n) -> Ok(n), write_unary(v) -> Ok(v+1)); the events
                         are the primitive emissions of the cell
"""
from fractions import Fraction

import ivl
from ivl import AI, Agg, Opaque, Slice, Ref, Unsupported, Undecided, Panic, mk_variant

BE = "traits::endianness::BigEndian"
LE = "traits::endianness::LittleEndian"
U64MAX = (1 << 64) - 1

STREAM = Opaque("stream")


# ---- contracts of the stream primitives -------------------------------------------------------------------------
def h_write_bits(it, name, args, fargs, fr, t):
    v, n = args[1], args[2]
    if not isinstance(v, AI) or not isinstance(n, AI):
        raise Unsupported("write_bits operands")
    if n.hi > 64:
        if n.lo > 64:
            raise Panic("write_bits width > 64")
        raise Undecided("write_bits width")
    it.events.append(("bits", v, n))
    return mk_variant("std::result::Result", "Ok", [AI("usize", n.lo, n.hi, n.dir, n.aff)])


def h_write_unary(it, name, args, fargs, fr, t):
    v = args[1]
    if not isinstance(v, AI):
        raise Unsupported("write_unary operand")
    it.events.append(("unary", v))
    r = it.arith("Add", it.cast(v, "u128"), AI("u128", 1, 1), "u128")
    if r.lo > ivl.tmax("usize"):
        raise Panic("write_unary(u64::MAX)")
    if r.hi > ivl.tmax("usize"):
        raise Undecided("write_unary argument may be u64::MAX")
    return mk_variant("std::result::Result", "Ok", [AI("usize", r.lo, r.hi, r.dir, r.aff)])


def h_write_all(it, name, args, fargs, fr, t):
    s = args[1]
    if isinstance(s, Ref):
        arr = it.project(s.frame, s.frame.locals.get(s.local), s.proj)
        if isinstance(arr, Agg) and arr.kind == "array":
            s = Slice(s, 0, len(arr.fields))
    if not isinstance(s, Slice):
        raise Unsupported("write_all of %r" % (s,))
    arr = it.project(s.ref.frame, s.ref.frame.locals.get(s.ref.local), s.ref.proj)
    for b in arr.fields[s.start:s.end]:
        it.events.append(("byte", b))
    return mk_variant("std::result::Result", "Ok", [ivl.UNIT])


def trait_impl(it, name, args, fargs, fr, t):
    """a call of a crate trait method on a generic receiver: run the blanket implementation of the stream's endianness"""
    F = it.F
    trait, method = name.rsplit("::", 1)
    e = fr.env.get("E")
    cands = []
    for key in ("<B as %s<%s>>::%s" % (trait, e, method), "<B as %s<E>>::%s" % (trait, method), name):
        bl = F.by_path.get(key)
        if bl and len(bl) == 1 and bl[0].get("blocks"):
            cands.append(bl[0])
            break
    if not cands:
        return NotImplemented
    body = cands[0]
    env = {"E": e}
    gen = body["generics"]
    # method-level (const) generics are the tail of both lists
    for g, a in zip(reversed(gen), reversed(fargs)):
        if isinstance(a, (bool, int)) and not isinstance(a, str):
            env[g] = a
    for g in gen:
        env.setdefault(g, e if g == "E" else "<generic>")
    return it.call_body(body, args, env, 1)


ALIASES = {
    # parameterless methods forward to the *_param method with the default table flags (rule K3.defaults proves the
    # forwarding for every implementation in the crate); the flags are explored in both positions by the configurations
    "codes::gamma::GammaWrite::write_gamma": ("codes::gamma::GammaWriteParam::write_gamma_param", ("USE_GAMMA_TABLE",)),
    "codes::delta::DeltaWrite::write_delta": ("codes::delta::DeltaWriteParam::write_delta_param", ("USE_DELTA_TABLE", "USE_GAMMA_TABLE")),
    "codes::zeta::ZetaWrite::write_zeta": ("codes::zeta::ZetaWriteParam::write_zeta_param", ("USE_ZETA_TABLE",)),
    "codes::zeta::ZetaWrite::write_zeta3": ("codes::zeta::ZetaWriteParam::write_zeta3_param", ("USE_ZETA_TABLE",)),
}


def h_alias(it, name, args, fargs, fr, t):
    tgt, flags = ALIASES[name]
    cfg = getattr(it, "cfg", {})
    fa = list(fargs) + [bool(cfg.get(f, False)) for f in flags]
    return trait_impl(it, tgt, args, fa, fr, t)


def h_len_default(which):
    def h(it, name, args, fargs, fr, t):
        cfg = getattr(it, "cfg", {})
        tgt, flags = which
        body = it.F.body(tgt)
        env = {g: bool(cfg.get("USE_GAMMA_TABLE" if g == "USE_TABLE" else g, False)) for g in body["generics"]}
        return it.call_body(body, args, env, 1)
    return h


def handlers():
    h = {
        "traits::bits::BitWrite::write_bits": h_write_bits,
        "traits::bits::BitWrite::write_unary": h_write_unary,
        "std::io::Write::write_all": h_write_all,
    }
    for n in ALIASES:
        h[n] = h_alias
    for tr in ("codes::gamma::GammaWriteParam::write_gamma_param", "codes::delta::DeltaWriteParam::write_delta_param",
               "codes::zeta::ZetaWriteParam::write_zeta_param", "codes::zeta::ZetaWriteParam::write_zeta3_param",
               "codes::minimal_binary::MinimalBinaryWrite::write_minimal_binary", "codes::rice::RiceWrite::write_rice",
               "codes::vbyte::VByteBeWrite::write_vbyte_be", "codes::vbyte::VByteLeWrite::write_vbyte_le"):
        h[tr] = trait_impl
    # parameterless length functions: the flags of the configuration instead of the compiled-in defaults
    h["codes::gamma::len_gamma"] = h_len_default(("codes::gamma::len_gamma_param", ()))
    h["codes::delta::len_delta"] = h_len_default(("codes::delta::len_delta_param", ()))
    return h


# ---- plain (picklable) summaries ------------------------------------------------------------------------------------
def summ(v):
    if isinstance(v, AI):
        return ("int", v.ty, v.lo, v.hi, v.dir, v.aff if (v.aff is not None and v.dir is not None) else None, v.tag, v.aff)
    if isinstance(v, Agg):
        return ("agg", v.variant or v.kind, tuple(summ(f) for f in v.fields))
    return ("opaque", repr(v))


def cell_summary(c):
    r = c.ret
    if isinstance(r, Agg) and r.variant == "Ok":
        r = r.fields[0]
    return {"y0": c.y0, "y1": c.y1, "status": c.status, "why": c.why, "ret": summ(r) if c.status == "ok" else None,
            "events": [tuple([e[0]] + [summ(x) for x in e[1:]]) for e in (c.events or [])], "trace": hash(c.trace)}


def is_const(sv):
    return sv is not None and sv[0] == "int" and sv[2] == sv[3]


# ---- running one function over the whole domain -------------------------------------------------------------------
class Run:
    """partition of the domain of one function under one configuration"""

    def __init__(self, F, key, body, env, extra=(), cfg=None, arg_ty="u64", receiver=False, hi=U64MAX, refine_const=False, lo=0, inp=(1, 0)):
        self.key = key
        self.F = F
        hs = handlers()

        def run(it):
            it.handlers = hs
            it.cfg = cfg or {}
            args = ([STREAM] if receiver is True else []) + [it.input(arg_ty, inp[0], inp[1])] + [it.const(t, v) for t, v in extra] + ([STREAM] if receiver == "io" else [])
            return it.call_body(body, args, dict(env), 0)

        refine = None
        if refine_const:
            def refine(r, it):
                v = r.fields[0] if isinstance(r, Agg) and r.variant == "Ok" else r
                return isinstance(v, AI) and v.const() is None
        self.run = run
        self.cells = ivl.partition(F, run, lo, hi, refine=refine)

    def remerge(self):
        """maximal cells: adjacent cells with the same control path and the same constant result are re-analysed as one
        cell, so that the primitive emissions are described once per maximal cell (affine in the argument where they are)"""
        out = []
        group = []

        def flush():
            if not group:
                return
            if len(group) > 1:
                it = ivl.Interp(self.F, group[0].y0, group[-1].y1)
                try:
                    r = self.run(it)
                    out.append(ivl.Cell(group[0].y0, group[-1].y1, "ok", r, it.events, tuple(it.trace)))
                    return
                except (Undecided, Panic, Unsupported):
                    pass
            out.extend(group)

        for c in self.cells:
            if group and not (c.status == "ok" and group[-1].status == "ok" and group[-1].y1 + 1 == c.y0 and same_const(group[-1], c)):
                flush()
                group = []
            group.append(c)
        flush()
        self.cells = out
        return self

    def value(self, c):
        r = c.ret
        if isinstance(r, Agg) and r.variant == "Ok":
            r = r.fields[0]
        return r


def same_const(a, b):
    ra, rb = a.ret, b.ret
    if isinstance(ra, Agg) and ra.variant == "Ok":
        ra, rb = ra.fields[0], rb.fields[0] if isinstance(rb, Agg) else rb
    return isinstance(ra, AI) and isinstance(rb, AI) and ra.const() is not None and ra.const() == rb.const() and a.trace == b.trace


def overlay(cells_a, cells_b):
    """common refinement of two ordered partitions of the same range: (lo, hi, cell_a, cell_b)"""
    out = []
    i = j = 0
    while i < len(cells_a) and j < len(cells_b):
        a, b = cells_a[i], cells_b[j]
        lo, hi = max(a.y0, b.y0), min(a.y1, b.y1)
        if lo <= hi:
            out.append((lo, hi, a, b))
        if a.y1 <= b.y1:
            i += 1
        if b.y1 <= a.y1:
            j += 1
    return out


# ---- configurations -----------------------------------------------------------------------------------------------------
def len_configs(tier):
    """(key, path, env, extra args, cfg) for every length function x parameter x table option"""
    ks = list(range(1, 17)) + ([20, 31, 32, 33, 48, 63] if tier == "thorough" else [32])
    out = []
    for tab in (False, True):
        out.append(("gamma[table=%d]" % tab, "codes::gamma::len_gamma_param", {"USE_TABLE": tab}, (), {}))
        for gt in (False, True):
            out.append(("delta[table=%d,gamma_table=%d]" % (tab, gt), "codes::delta::len_delta_param", {"USE_DELTA_TABLE": tab, "USE_GAMMA_TABLE": gt}, (), {}))
        for k in ([1, 2, 3, 4, 5, 8] if not tab else [3]):
            out.append(("zeta%d[table=%d]" % (k, tab), "codes::zeta::len_zeta_param", {"USE_TABLE": tab}, (("usize", k),), {}))
    out.append(("omega", "codes::omega::len_omega", {}, (), {}))
    for k in ks:
        if k > 8 or k in (6, 7):
            out.append(("zeta%d[table=0]" % k, "codes::zeta::len_zeta_param", {"USE_TABLE": False}, (("usize", k),), {}))
    for k in [0] + ks:
        out.append(("pi%d" % k, "codes::pi::len_pi", {}, (("usize", k),), {}))
        for gt in ((False, True) if k < 3 else (False,)):
            out.append(("exp_golomb%d[gamma_table=%d]" % (k, gt), "codes::exp_golomb::len_exp_golomb", {}, (("usize", k),), {"USE_GAMMA_TABLE": gt}))
        out.append(("rice%d" % k, "codes::rice::len_rice", {}, (("usize", k),), {}))
    out.append(("vbyte.bytes", "codes::vbyte::byte_len_vbyte", {}, (), {}))
    out.append(("vbyte.bits", "codes::vbyte::bit_len_vbyte", {}, (), {}))
    return out


# ---- parallel evaluation ------------------------------------------------------------------------------------------------
_F = {}


def _work(job):
    fs, key, path, env, extra, cfg, receiver, hi, refine_const, remerge = job
    F = _F[fs]
    try:
        r = Run(F, key, F.body(path), env, extra, cfg, receiver=receiver, hi=hi, refine_const=refine_const)
        n0 = len(r.cells)
        if remerge:
            r.remerge()
        return key, {"cells": [cell_summary(c) for c in r.cells], "raw_cells": n0}
    except Unsupported as e:
        return key, {"unsupported": str(e)}
    except Exception as e:       # fail closed, but say where
        return key, {"unsupported": "internal error: %r" % (e,)}


_cache = {}


def evaluate(F, fs, jobs):
    """jobs: list of (key, path, env, extra, cfg, receiver, hi, refine_const, remerge) -> {key: result}"""
    import multiprocessing as mp
    _F[fs] = F
    todo = [(fs,) + tuple(j) for j in jobs if (fs, j[0]) not in _cache]
    if todo:
        ctx = mp.get_context("fork")
        with ctx.Pool(min(16, max(1, len(todo)))) as pool:
            for key, res in pool.imap_unordered(_work, todo, chunksize=1):
                _cache[(fs, key)] = res
    return {j[0]: _cache[(fs, j[0])] for j in jobs}


def len_jobs(tier):
    return [(k, p, env, extra, cfg, False, U64MAX, not k.startswith("rice"), True) for k, p, env, extra, cfg in len_configs(tier)]


def writer_configs(tier):
    """(key, path, env, extra, cfg, receiver, hi, len keys to compare with)"""
    out = []
    zk = [1, 2, 3, 4, 5, 8] + ([6, 7, 11, 16, 32] if tier == "thorough" else [])
    pk = [0, 1, 2, 3, 5, 8] + ([4, 6, 7, 13, 16, 32] if tier == "thorough" else [])
    for e, en in ((BE, "be"), (LE, "le")):
        for tab in (False, True):
            out.append(("w.gamma.%s[table=%d]" % (en, tab), "<B as codes::gamma::GammaWriteParam<%s>>::write_gamma_param" % e, {"E": e, "USE_TABLE": tab}, (), {},
                        ["gamma[table=0]", "gamma[table=1]"]))
            for gt in (False, True):
                out.append(("w.delta.%s[table=%d,gamma_table=%d]" % (en, tab, gt), "<B as codes::delta::DeltaWriteParam<%s>>::write_delta_param" % e,
                            {"E": e, "USE_DELTA_TABLE": tab, "USE_GAMMA_TABLE": gt}, (), {}, ["delta[table=%d,gamma_table=%d]" % (tab, gt), "delta[table=0,gamma_table=0]"]))
            out.append(("w.zeta3.%s[table=%d]" % (en, tab), "<B as codes::zeta::ZetaWriteParam<%s>>::write_zeta3_param" % e, {"E": e, "USE_TABLE": tab}, (), {},
                        ["zeta3[table=0]", "zeta3[table=1]"]))
            for k in (zk if not tab else [3]):
                out.append(("w.zeta%d.%s[table=%d]" % (k, en, tab), "<B as codes::zeta::ZetaWriteParam<%s>>::write_zeta_param" % e, {"E": e, "USE_TABLE": tab}, (("usize", k),), {},
                            ["zeta%d[table=0]" % k]))
        out.append(("w.omega.%s" % en, "codes::omega::OmegaWrite::write_omega", {"E": e}, (), {}, ["omega"]))
        for k in pk:
            out.append(("w.pi%d.%s" % (k, en), "codes::pi::PiWrite::write_pi", {"E": e}, (("usize", k),), {}, ["pi%d" % k]))
            for gt in ((False, True) if k < 3 else (False,)):
                out.append(("w.exp_golomb%d.%s[gamma_table=%d]" % (k, en, gt), "codes::exp_golomb::ExpGolombWrite::write_exp_golomb", {"E": e}, (("usize", k),),
                            {"USE_GAMMA_TABLE": gt}, ["exp_golomb%d[gamma_table=0]" % k]))
        out.append(("w.vbyte_be.%s" % en, "<B as codes::vbyte::VByteBeWrite<E>>::write_vbyte_be", {"E": e}, (), {}, ["vbyte.bits"]))
        out.append(("w.vbyte_le.%s" % en, "<B as codes::vbyte::VByteLeWrite<E>>::write_vbyte_le", {"E": e}, (), {}, ["vbyte.bits"]))
    out.append(("w.vbyte_io_be", "codes::vbyte::vbyte_write_be", {}, (), {}, ["vbyte.bytes"]))
    out.append(("w.vbyte_io_le", "codes::vbyte::vbyte_write_le", {}, (), {}, ["vbyte.bytes"]))
    return out


def writer_jobs(tier):
    return [(k, p, env, extra, cfg, True if not k.startswith("w.vbyte_io") else "io", U64MAX, True, True) for k, p, env, extra, cfg, _ in writer_configs(tier)]


def fmt_cell(c):
    return "[%d, %d]" % (c["y0"], c["y1"])


def covered(cells):
    """the cells tile [0, 2^64-1] in order"""
    if not cells or cells[0]["y0"] != 0 or cells[-1]["y1"] != U64MAX:
        return False
    return all(a["y1"] + 1 == b["y0"] for a, b in zip(cells, cells[1:]))


def overlay_s(ca, cb):
    """common refinement of two ordered tilings: (lo, hi, cell_a, cell_b)"""
    out = []
    i = j = 0
    while i < len(ca) and j < len(cb):
        a, b = ca[i], cb[j]
        lo, hi = max(a["y0"], b["y0"]), min(a["y1"], b["y1"])
        if lo <= hi:
            out.append((lo, hi, a, b))
        if a["y1"] < b["y1"]:
            i += 1
        elif b["y1"] < a["y1"]:
            j += 1
        else:
            i += 1
            j += 1
    return out


# ---- C20: whole-domain monotonicity and Kraft sums ---------------------------------------------------------------------------
def run_c20(chk, F, fs, tier):
    res = evaluate(F, fs, len_jobs(tier))
    chk.rule("F2.domain", floor=60, doc="value-partition interpretation of every length function x parameter x table option: the cells tile [0, 2^64-1] and the function is defined (no reachable panic/overflow) on every value up to 2^64-2")
    chk.rule("F2.monotone", floor=60, doc="on every cell the length is constant or a non-decreasing composition, and it does not decrease from a cell to the next: the length function is non-decreasing over the whole 64-bit domain")
    chk.rule("F5.kraft", floor=40, doc="lengths constant per cell: sum over cells of |cell| * 2^-len <= 1 in exact rationals, i.e. Kraft's inequality over the whole domain (hence for every prefix of it)")
    for key, r in sorted(res.items()):
        if "unsupported" in r:
            chk.bad("F2.domain", key, "length function %s cannot be evaluated by the value-partition interpreter: %s" % (key, r["unsupported"]))
            continue
        cells = r["cells"]
        bad = [c for c in cells if c["status"] != "ok" and c["y1"] <= U64MAX - 1]
        chk.expect("F2.domain", key, covered(cells) and not bad,
                   "length function %s: %s" % (key, ("panics on values %s (%s)" % (fmt_cell(bad[0]), bad[0]["why"])) if bad else "cells do not tile the domain"),
                   sample={"fn": key, "cells": len(cells), "bisection_cells": r["raw_cells"], "first": [(c["y0"], c["y1"], c["ret"][2:4]) for c in cells[:4] if c["ret"]]})
        oks = [c for c in cells if c["status"] == "ok"]
        prob = None
        for c in oks:
            if c["ret"][0] != "int" or c["ret"][4] not in ("c", "up"):
                prob = "inside %s the length is not a non-decreasing composition of the argument (direction %s)" % (fmt_cell(c), c["ret"][4] if c["ret"][0] == "int" else c["ret"][0])
                break
        if prob is None:
            for a, b in zip(oks, oks[1:]):
                if a["ret"][3] > b["ret"][2]:
                    prob = "the length drops from %d at n=%d to %d at n=%d" % (a["ret"][3], a["y1"], b["ret"][2], b["y0"])
                    break
        chk.expect("F2.monotone", key, prob is None, "length function %s is not monotone: %s" % (key, prob), sample={"fn": key, "cells": len(oks)})
        if all(is_const(c["ret"]) for c in oks) and key != "vbyte.bytes":
            tot = sum(Fraction(c["y1"] - c["y0"] + 1, 1 << c["ret"][2]) for c in oks)
            chk.expect("F5.kraft", key, tot <= 1, "length function %s violates Kraft's inequality over its domain: sum 2^-len = %s > 1" % (key, tot),
                       sample={"fn": key, "kraft_sum": str(tot) if tot.denominator < 10 ** 12 else "%.12f" % float(tot), "cells": len(oks)})
    return res


# ---- C06: writer return = length function = bits emitted, on every value ---------------------------------------------------------
def emitted(c):
    """(lo, hi) of the number of bits appended by the primitive emissions of a cell, or None"""
    lo = hi = 0
    for e in c["events"]:
        if e[0] == "bits":
            lo += e[2][2]
            hi += e[2][3]
        elif e[0] == "unary":
            lo += e[1][2] + 1
            hi += e[1][3] + 1
        elif e[0] == "byte":
            lo += 8
            hi += 8
    return lo, hi


def run_c06(chk, F, fs, tier):
    lres = evaluate(F, fs, len_jobs(tier))
    wres = evaluate(F, fs, writer_jobs(tier))
    chk.rule("L4.writer_domain", floor=68, doc="every writer x endianness x table option x parameter is evaluated on a partition of [0, 2^64-1]; it succeeds (given a succeeding backend) on every value up to 2^64-2")
    chk.rule("L4.writer_len", floor=80, doc="on every cell of the common refinement the value returned by the writer is the constant the length function returns there (so len = write return for all 2^64-1 values, tables on and off, both endiannesses)")
    chk.rule("L4.emitted", floor=68, doc="on every cell the widths of the primitive emissions (write_bits n, write_unary v -> v+1, byte -> 8) sum to the returned count")
    for key, path, env, extra, cfg, lens in writer_configs(tier):
        r = wres[key]
        if "unsupported" in r:
            chk.bad("L4.writer_domain", key, "writer %s cannot be evaluated by the value-partition interpreter: %s" % (key, r["unsupported"]))
            continue
        cells = r["cells"]
        bad = [c for c in cells if c["status"] != "ok" and c["y1"] <= U64MAX - 1]
        chk.expect("L4.writer_domain", key, covered(cells) and not bad,
                   "writer %s: %s" % (key, ("fails on values %s (%s)" % (fmt_cell(bad[0]), bad[0]["why"])) if bad else "cells do not tile the domain"),
                   sample={"writer": key, "cells": len(cells), "bisection_cells": r["raw_cells"]})
        unit = 8 if key.startswith("w.vbyte_io") else 1
        prob = None
        for c in cells:
            if c["status"] != "ok":
                continue
            lo, hi = emitted(c)
            if not is_const(c["ret"]) or lo != hi or c["ret"][2] * unit != lo:
                prob = "on %s the writer returns %s but emits %s bits (%s)" % (fmt_cell(c), c["ret"][2:4] if c["ret"] else None, (lo, hi), [e[0] for e in c["events"]])
                break
        chk.expect("L4.emitted", key, prob is None, "writer %s: %s" % (key, prob), sample={"writer": key})
        for lk in lens:
            lr = lres.get(lk)
            if lr is None or "unsupported" in lr:
                chk.bad("L4.writer_len", "%s~%s" % (key, lk), "length function %s not available for comparison" % lk)
                continue
            prob = None
            n = 0
            for lo, hi, a, b in overlay_s(cells, lr["cells"]):
                if a["status"] != "ok" or b["status"] != "ok":
                    if (a["status"] == "ok") != (b["status"] == "ok") and hi <= U64MAX - 1:
                        prob = "on [%d, %d] exactly one of writer/length function is defined" % (lo, hi)
                        break
                    continue
                n += 1
                if not (is_const(a["ret"]) and is_const(b["ret"]) and a["ret"][2] == b["ret"][2]):
                    prob = "for n in [%d, %d] the writer returns %s and the length function returns %s" % (lo, hi, a["ret"][2:4], b["ret"][2:4])
                    break
            chk.expect("L4.writer_len", "%s~%s" % (key, lk), prob is None and n > 0, "writer %s vs %s: %s" % (key, lk, prob), sample={"writer": key, "len": lk, "pieces": n})
    return wres


# ---- C18: VByte structure on every value ----------------------------------------------------------------------------------------
def run_c18(chk, F, fs, tier, prefix=""):
    lres = evaluate(F, fs, [j for j in len_jobs(tier) if j[0].startswith("vbyte")])
    wres = evaluate(F, fs, [j for j in writer_jobs(tier) if j[0].startswith("w.vbyte")])
    chk.rule(prefix + "V4.steps", floor=2, doc="byte_len_vbyte / bit_len_vbyte evaluated on all of u64: exactly ten cells, stepping at 2^7, 2^7+2^14, ... (the documented step points), lengths 1..10 bytes")
    chk.rule(prefix + "V4.count", floor=6, doc="each of the six VByte writers emits, for every 64-bit value, exactly byte_len_vbyte(value) bytes and returns that count (bit-stream writers: 8x)")
    chk.rule(prefix + "V4.continuation", floor=6, doc="for every value, every emitted byte but the last has its top bit set and the last byte has it clear (abstract byte ranges [0x80,0xFF] / [0,0x7F]): the reader stops exactly at the last byte written")
    steps = [0]
    for k in range(1, 10):
        steps.append(steps[-1] + (1 << (7 * k)))
    for lk, unit in (("vbyte.bytes", 1), ("vbyte.bits", 8)):
        r = lres[lk]
        if "unsupported" in r:
            chk.bad(prefix + "V4.steps", lk, "cannot evaluate %s: %s" % (lk, r["unsupported"]))
            continue
        got = [(c["y0"], c["ret"][2] if c["ret"] and is_const(c["ret"]) else None) for c in r["cells"]]
        want = [(s, (i + 1) * unit) for i, s in enumerate(steps)]
        chk.expect(prefix + "V4.steps", lk, covered(r["cells"]) and got == want, "%s steps at %s, documented step points are %s" % (lk, got[:12], want),
                   sample={"fn": lk, "steps": [hex(s) for s, _ in got]})
    for key, r in sorted(wres.items()):
        if "unsupported" in r:
            chk.bad(prefix + "V4.count", key, "cannot evaluate %s: %s" % (key, r["unsupported"]))
            continue
        io = key.startswith("w.vbyte_io")
        prob = cprob = None
        for lo, hi, a, b in overlay_s(r["cells"], lres["vbyte.bytes"].get("cells", [])):
            if a["status"] != "ok" or b["status"] != "ok":
                prob = "on [%d, %d]: %s" % (lo, hi, a["why"] or b["why"])
                break
            evs = a["events"]
            nb = b["ret"][2]
            if len(evs) != nb or not is_const(a["ret"]) or a["ret"][2] != (nb if io else 8 * nb) or any((e[0] != "byte") if io else (e[0] != "bits" or e[2][2:4] != (8, 8)) for e in evs):
                prob = "for values in [%d, %d] the writer emits %d units %s and returns %s; byte_len_vbyte is %d" % (lo, hi, len(evs), sorted({e[0] for e in evs}), a["ret"][2:4], nb)
                break
            for i, e in enumerate(evs):
                v = e[1]
                last = i == len(evs) - 1
                if v[0] != "int" or (last and not (0 <= v[2] and v[3] <= 0x7F)) or (not last and not (0x80 <= v[2] and v[3] <= 0xFF)):
                    cprob = "for values in [%d, %d] byte %d of %d ranges over [%s, %s]: %s" % (lo, hi, i + 1, len(evs), v[2], v[3], "the last byte may carry a continuation bit" if last else "a non-final byte may lack the continuation bit")
                    break
            if cprob:
                break
        chk.expect(prefix + "V4.count", key, covered(r["cells"]) and prob is None, "VByte writer %s: %s" % (key, prob), sample={"writer": key, "cells": len(r["cells"])})
        chk.expect(prefix + "V4.continuation", key, prob is None and cprob is None, "VByte writer %s: %s" % (key, cprob or prob), sample={"writer": key})
    run_vbyte_roundtrip(chk, F, fs, tier, prefix + "V5.roundtrip")


# ---- C04.D3 / C03.K2: exact fields of the non-table writers, and replay of the reader on them -------------------------------
def field_configs(tier):
    """(key, code, params, writer path, reader path, env, extra args, domain hi, refine_const)"""
    out = []
    zk = [1, 2, 3, 4, 5, 7, 8] + ([6, 11, 13, 16, 21, 32, 63] if tier == "thorough" else [16])
    pk = [0, 1, 2, 3, 5, 8] + ([4, 6, 7, 13, 16, 32, 63] if tier == "thorough" else [])
    rk = [0, 1, 2, 3, 7, 8, 16, 33, 63]
    us = list(range(1, 20)) + [31, 32, 33, 63, 64, 65, 1000, (1 << 32) - 1, (1 << 32), (1 << 63) + 5, (1 << 64) - 1]
    for e, en in ((BE, "be"), (LE, "le")):
        out.append(("f.gamma.%s" % en, "gamma", (), "<B as codes::gamma::GammaWriteParam<%s>>::write_gamma_param" % e,
                    "<B as codes::gamma::GammaReadParam<%s>>::read_gamma_param" % e, {"E": e, "USE_TABLE": False}, (), U64MAX, True))
        out.append(("f.delta.%s" % en, "delta", (), "<B as codes::delta::DeltaWriteParam<%s>>::write_delta_param" % e,
                    "<B as codes::delta::DeltaReadParam<%s>>::read_delta_param" % e, {"E": e, "USE_DELTA_TABLE": False, "USE_GAMMA_TABLE": False}, (), U64MAX, True))
        for k in zk:
            out.append(("f.zeta%d.%s" % (k, en), "zeta", (k,), "<B as codes::zeta::ZetaWriteParam<%s>>::write_zeta_param" % e,
                        "<B as codes::zeta::ZetaReadParam<%s>>::read_zeta_param" % e, {"E": e, "USE_TABLE": False}, (("usize", k),), U64MAX, True))
        out.append(("f.omega.%s" % en, "omega", (), "codes::omega::OmegaWrite::write_omega", "codes::omega::OmegaRead::read_omega", {"E": e}, (), U64MAX, True))
        for k in pk:
            out.append(("f.pi%d.%s" % (k, en), "pi", (k,), "codes::pi::PiWrite::write_pi", "codes::pi::PiRead::read_pi", {"E": e}, (("usize", k),), U64MAX, True))
        for k in rk:
            out.append(("f.rice%d.%s" % (k, en), "rice", (k,), "codes::rice::RiceWrite::write_rice", "codes::rice::RiceRead::read_rice", {"E": e}, (("usize", k),), U64MAX, False))
        for k in ([0, 1, 2, 3] + ([4, 5] if tier == "thorough" else [])):
            for r in range(1 << k):
                out.append(("f.exp_golomb%d[r=%d].%s" % (k, r, en), "exp_golomb_class", (k, r), "codes::exp_golomb::ExpGolombWrite::write_exp_golomb",
                            "codes::exp_golomb::ExpGolombRead::read_exp_golomb", {"E": e}, (("usize", k),), (U64MAX - 1 - r) >> k, True, (1 << k, r)))
        for u in us:
            out.append(("f.minimal_binary%d.%s" % (u, en), "minimal_binary", (u,), "codes::minimal_binary::MinimalBinaryWrite::write_minimal_binary",
                        "codes::minimal_binary::MinimalBinaryRead::read_minimal_binary", {"E": e}, (("u64", u),), u - 1, True))
    return out


def ev_value_at(v, y):
    """value of an emitted operand at the single argument y, when the abstract value determines it"""
    if not isinstance(v, AI):
        return None
    if v.const() is not None:
        return v.const()
    if v.aff is not None:
        return v.aff[0] * y + v.aff[1]        # modular form: right modulo 2^64, enough for fields of <= 64 bits
    if v.tag is not None:
        src = v.tag[1] * y + v.tag[2]
        return src >> v.tag[3] if v.tag[0] == "shr" else src & ((1 << v.tag[3]) - 1) if v.tag[0] == "low" else (src >> v.tag[3]) << v.tag[3]
    return None


def ev_matches(ev, f, y0, y1):
    """does the emitted primitive `ev` equal the documented field f for every n in [y0, y1]?"""
    import refspec
    small = y1 - y0 < 16
    if f[0] == "U":
        if ev[0] != "unary":
            return False
        v = ev[1]
        want = f[1]
        if isinstance(want, int):
            return isinstance(v, AI) and v.const() == want
        if small:
            return all(ev_value_at(v, y) == refspec.value_at(want, y) for y in range(y0, y1 + 1))
        if want[0] == "shr":
            return v.tag == ("shr", want[1], want[2], want[3]) or (want[3] == 0 and v.aff is not None and v.dir is not None and tuple(v.aff) == (want[1], want[2]))
        return False
    if ev[0] != "bits":
        return False
    v, n = ev[1], ev[2]
    w = f[2]
    if not isinstance(n, AI) or n.const() != w:
        return False
    if w == 0:
        return True
    val = f[1]
    m = 1 << w
    if small:
        for y in range(y0, y1 + 1):
            c = ev_value_at(v, y)
            if c is None or (c - refspec.value_at(val, y)) % m != 0:
                return False
        return True
    if val[0] == "aff":
        form = v.aff
        if form is None and v.tag is not None and v.tag[0] == "low" and v.tag[3] >= w:
            form = (v.tag[1], v.tag[2])          # (a*n+b) mod 2^k with k >= w is a*n+b modulo 2^w
        if form is None:
            return False
        return (form[0] - val[1]) % m == 0 and (form[1] - val[2]) % m == 0
    # shr / low of an affine source
    if val[1] == 0:
        c = v.const()
        return c is not None and (c - refspec.value_at(val, y0)) % m == 0
    if v.tag is not None and v.tag[0] == val[0] and v.tag[3] == val[3]:
        mm = 1 << (w + val[3]) if val[0] == "shr" else 1 << val[3]
        return (v.tag[1] - val[1]) % mm == 0 and (v.tag[2] - val[2]) % mm == 0
    return False


def fmt_ev(ev):
    if ev[0] == "unary":
        return "unary(%r%s)" % (ev[1], (" tag%s" % (ev[1].tag,)) if getattr(ev[1], "tag", None) else "")
    return "%s(%r%s, %r)" % (ev[0], ev[1], (" tag%s" % (ev[1].tag,)) if getattr(ev[1], "tag", None) else "", ev[2] if len(ev) > 2 else "")


def compare_fields(code, en, params, c, y0, y1, depth=0):
    """problems of cell c restricted to [y0, y1] against the documented structure; splits where the documentation changes shape"""
    import refspec
    if code == "rice":
        k = params[0]
        fl = [("U", ("shr", 1, 0, k)), ("B", ("aff", 1, 0), k)]
    elif code == "exp_golomb_class":
        # n = 2^k * y + r: gamma code of n >> k = y, then the k low bits of n (= r)
        k, r = params
        g = refspec.fields("gamma", en, (), y0, y1)
        fl = None if g is None else g + [("B", ("aff", 0, r), k)]
    else:
        fl = refspec.fields(code, en, params, y0, y1)
    if fl is None:
        if y0 == y1 or depth > 70:
            return ["no documented codeword structure for n = %d" % y0], 0
        mid = (y0 + y1) // 2
        p1, n1 = compare_fields(code, en, params, c, y0, mid, depth + 1)
        if p1:
            return p1, n1
        p2, n2 = compare_fields(code, en, params, c, mid + 1, y1, depth + 1)
        return p2, n1 + n2
    if fl == refspec.EXEMPT:
        return [], 0
    evs = c.events
    if len(evs) != len(fl) or not all(ev_matches(ev, f, y0, y1) for ev, f in zip(evs, fl)):
        return ["for n in [%d, %d] the writer emits %s; the documented codeword is %s" % (y0, y1, [fmt_ev(e) for e in evs], fl)], 1
    return [], 1


def replay_reader(F, body, env, extra, c, expect=(1, 0)):
    """interpret the reader on the cell, feeding it the primitives the writer emitted there; returns a problem or None"""
    it = ivl.Interp(F, c.y0, c.y1)
    queue = list(c.events)

    def r_unary(it_, name, args, fargs, fr, t):
        if not queue or queue[0][0] != "unary":
            raise Unsupported("reader asks for a unary code where the writer emitted %s" % (fmt_ev(queue[0]) if queue else "nothing"))
        ev = queue.pop(0)
        v = ev[1]
        return mk_variant("std::result::Result", "Ok", [AI("u64", v.lo, v.hi, v.dir, v.aff, v.tag)])

    def r_bits(it_, name, args, fargs, fr, t):
        n = args[1]
        if not queue or queue[0][0] != "bits":
            raise Unsupported("reader asks for %r bits where the writer emitted %s" % (n, fmt_ev(queue[0]) if queue else "nothing"))
        ev = queue.pop(0)
        if not isinstance(n, AI) or n.const() is None or n.const() != ev[2].const():
            raise Unsupported("reader reads %r bits where the writer wrote a %r-bit field" % (n, ev[2]))
        w = n.const()
        v = ev[1]
        if w == 0:
            r = AI("u64", 0, 0)
        elif w == 64:
            r = v
        else:
            r = it_.bitop("BitAnd", v, AI("u64", (1 << w) - 1, (1 << w) - 1), "u64") if not (0 <= v.lo and v.hi < (1 << w)) else v
        return mk_variant("std::result::Result", "Ok", [r])

    def field_low(it_, ev):
        """the emitted field as a value below 2^w"""
        w = ev[2].const()
        v = ev[1]
        if w is None:
            raise Unsupported("field of non-constant width")
        if w == 0:
            return AI("u64", 0, 0), w
        if w < 64 and not (0 <= v.lo and v.hi < (1 << w)):
            v = it_.bitop("BitAnd", v, AI("u64", (1 << w) - 1, (1 << w) - 1), "u64")
        return v, w

    def r_peek(it_, name, args, fargs, fr, t):
        n = args[1]
        if not queue or queue[0][0] != "bits" or not isinstance(n, AI) or n.const() != 1:
            raise Unsupported("peek_bits(%r) where the writer emitted %s" % (n, fmt_ev(queue[0]) if queue else "nothing"))
        v, w = field_low(it_, queue[0])
        if w < 1:
            raise Unsupported("peek into an empty field")
        if fr.env.get("E") == BE:
            bit = 1 if v.lo >= (1 << (w - 1)) else 0 if v.hi < (1 << (w - 1)) else None
        else:
            c = v.const()
            bit = (c & 1) if c is not None else ((v.aff[1] & 1) if (v.aff is not None and v.dir is not None and v.aff[0] % 2 == 0) else None)
        if bit is None:
            raise Unsupported("the first stream bit of the next field %s is not determined on the cell" % fmt_ev(queue[0]))
        return mk_variant("std::result::Result", "Ok", [AI("u64", bit, bit)])

    def r_skip_after_peek(it_, name, args, fargs, fr, t):
        n = args[1]
        if not queue or queue[0][0] != "bits" or not isinstance(n, AI) or n.const() is None or n.const() != queue[0][2].const():
            raise Unsupported("skip_bits_after_peek(%r) where the writer emitted %s" % (n, fmt_ev(queue[0]) if queue else "nothing"))
        queue.pop(0)
        return ivl.UNIT

    hs = handlers()
    hs["traits::bits::BitRead::read_unary"] = r_unary
    hs["traits::bits::BitRead::read_bits"] = r_bits
    hs["traits::bits::BitRead::peek_bits"] = r_peek
    hs["traits::bits::BitRead::skip_bits_after_peek"] = r_skip_after_peek
    for tr in ("codes::gamma::GammaReadParam::read_gamma_param", "codes::delta::DeltaReadParam::read_delta_param", "codes::zeta::ZetaReadParam::read_zeta_param",
               "codes::minimal_binary::MinimalBinaryRead::read_minimal_binary", "codes::rice::RiceRead::read_rice"):
        hs[tr] = trait_impl
    hs["codes::gamma::GammaRead::read_gamma"] = lambda it_, name, args, fargs, fr, t: trait_impl(it_, "codes::gamma::GammaReadParam::read_gamma_param", args, list(fargs) + [False], fr, t)
    it.handlers = hs
    it.cfg = {}
    try:
        r = it.call_body(body, [STREAM] + [it.const(t, v) for t, v in extra], dict(env), 0)
    except (Unsupported, Undecided, Panic) as e:
        return "reader on n in [%d, %d]: %s: %s" % (c.y0, c.y1, type(e).__name__, e)
    if queue:
        return "for n in [%d, %d] the reader leaves %d emitted primitives unread (%s)" % (c.y0, c.y1, len(queue), fmt_ev(queue[0]))
    v = r.fields[0] if isinstance(r, Agg) and r.variant == "Ok" else r
    if not (isinstance(v, AI) and v.aff is not None and v.dir is not None and tuple(v.aff) == tuple(expect)) and \
            not (isinstance(v, AI) and c.y0 == c.y1 and v.const() == expect[0] * c.y0 + expect[1]):
        return "for the cell [%d, %d] the reader returns %r, not the value written (%d*y + %d)" % (c.y0, c.y1, v, expect[0], expect[1])
    return None


def _work_fields(job):
    fs, key, code, params, wpath, rpath, env, extra, hi, refine = job[:10]
    inp = job[10] if len(job) > 10 else (1, 0)
    F = _F[fs]
    en = "be" if env["E"] == BE else "le"
    try:
        r = Run(F, key, F.body(wpath), env, extra, {}, receiver=True, hi=hi, refine_const=refine, inp=inp)
        raw = len(r.cells)
        r.remerge()
    except Unsupported as e:
        return key, {"unsupported": str(e)}
    except Exception as e:
        return key, {"unsupported": "internal error: %r" % (e,)}
    fprob, rprob = [], []
    pieces = replays = 0
    dom_bad = None
    dirty = None
    for c in r.cells:
        if c.status == "ok" and dirty is None:
            for ev in c.events:
                if ev[0] == "bits" and isinstance(ev[1], AI) and isinstance(ev[2], AI) and ev[2].const() is not None:
                    wv = ev[2].const()
                    if ev[1].lo < 0 or (wv < 64 and ev[1].hi >= (1 << wv)):
                        dirty = "for the cell [%d, %d] write_bits(%r, %d) may carry bits at or above its width" % (c.y0, c.y1, ev[1], wv)
                        break
    for c in r.cells:
        if c.status != "ok":
            if c.y1 <= hi - (1 if hi == U64MAX else 0) or inp != (1, 0):
                dom_bad = "writer fails on [%d, %d]: %s" % (c.y0, c.y1, c.why)
            continue
        if not fprob:
            try:
                p, n = compare_fields(code, en, params, c, c.y0, c.y1)
            except Exception as e:
                p, n = ["internal error %r" % (e,)], 0
            fprob += p
            pieces += n
        if rpath is not None and not rprob:
            try:
                p = replay_reader(F, F.body(rpath), env, extra, c, expect=inp)
            except Exception as e:
                p = "internal error %r" % (e,)
            if p:
                rprob.append(p)
            else:
                replays += 1
    return key, {"dirty": dirty, "cells": len(r.cells), "raw_cells": raw, "pieces": pieces, "replays": replays, "field_problems": fprob[:2], "reader_problems": rprob[:2], "domain": dom_bad,
                 "sample": [fmt_ev(e) for e in r.cells[min(3, len(r.cells) - 1)].events] if r.cells else []}


_fcache = {}


def evaluate_fields(F, fs, tier):
    import multiprocessing as mp
    _F[fs] = F
    cfgs = field_configs(tier)
    todo = [(fs,) + tuple(c) for c in cfgs if (fs, c[0]) not in _fcache]
    if todo:
        with mp.get_context("fork").Pool(min(16, len(todo))) as pool:
            for key, res in pool.imap_unordered(_work_fields, todo, chunksize=1):
                _fcache[(fs, key)] = res
    return [(c, _fcache[(fs, c[0])]) for c in cfgs]


def run_c04_fields(chk, F, fs, tier):
    import refspec
    chk.rule("D3.spec", floor=1, doc="the field-level reference (sa/refspec.py, from the module docs) agrees with the bit-level reference definitions (sa/refcodes.py) and the documented examples")
    probs = refspec.self_check()
    chk.expect("D3.spec", "self_check", not probs, "refspec.py disagrees with refcodes.py / documented examples: %s" % probs[:5])
    chk.rule("D3.fields", floor=140, doc="for every value of the domain (partition of [0, 2^64-1] into cells with one control path) the non-table writer emits exactly the documented fields: same primitives, same widths, and each field value equal modulo 2^width to the documented one as an affine function of n (gamma, delta, zeta_k, omega BE/LE, pi_k, Rice_k, minimal binary u; exp-Golomb_k for k <= 3 on the residue classes n = 2^k*y + r)")
    sfx = "" if fs == "default" else "@" + fs
    for cfg, r in evaluate_fields(F, fs, tier):
        key = cfg[0] + sfx
        if "unsupported" in r:
            chk.bad("D3.fields", key, "writer %s cannot be evaluated: %s" % (key, r["unsupported"]))
            continue
        ok = not r["field_problems"] and r["pieces"] > 0 and not r["domain"]
        chk.expect("D3.fields", key, ok, "%s: %s" % (key, "; ".join(r["field_problems"]) or r["domain"] or "no cell compared"),
                   sample={"writer": key, "cells": r["cells"], "pieces_compared": r["pieces"], "example_emission": r["sample"]})


def run_c03_roundtrip(chk, F, fs, tier):
    chk.rule("K2.replay", floor=142, doc="round trip at the level of stream primitives, for every value: the reader of each code, interpreted on each cell with read_unary/read_bits answered by the primitives the writer emitted there (same order, same widths, low w bits), consumes all of them and returns exactly n (affine form 1*n+0): gamma, delta, zeta_k, pi_k, Rice_k, minimal binary u, exp-Golomb_k (k <= 3, residue classes); both endiannesses; non-table paths")
    sfx = "" if fs == "default" else "@" + fs
    for cfg, r in evaluate_fields(F, fs, tier):
        key = cfg[0] + sfx
        if cfg[4] is None:
            continue
        if "unsupported" in r:
            chk.bad("K2.replay", key, "writer %s cannot be evaluated: %s" % (key, r["unsupported"]))
            continue
        ok = not r["reader_problems"] and r["replays"] > 0 and not r["domain"]
        chk.expect("K2.replay", key, ok, "%s: %s" % (key, "; ".join(r["reader_problems"]) or r["domain"] or "no cell replayed"),
                   sample={"code": key, "cells_replayed": r["replays"]})


# ---- Golomb (and Rice, for Kraft): residue classes n = b*y + r ----------------------------------------------------------------------
def golomb_params(tier):
    return [1, 2, 3, 5, 6, 7, 8, 9, 10, 12, 16, 17, 31, 33, 64] + ([4, 11, 13, 15, 20, 24, 32, 48, 63, 100, 127, 128, 129, 255, 1000] if tier == "thorough" else [])


def _work_golomb(job):
    fs, b = job
    F = _F[fs]
    import refspec
    out = {"b": b, "len": [], "problems": [], "checked": 0, "replays": 0, "fields": 0}
    lbody = F.body("codes::golomb::len_golomb")
    wbody = F.body("codes::golomb::GolombWrite::write_golomb")
    rbody = F.body("codes::golomb::GolombRead::read_golomb")
    try:
        for r in range(b):
            ymax = (U64MAX - 1 - r) // b
            lr = Run(F, "len", lbody, {}, (("u64", b),), {}, hi=ymax, inp=(b, r))
            cl = [c for c in lr.cells if c.status == "ok"]
            if len(cl) != len(lr.cells) or not cl:
                out["problems"].append("len_golomb(n, %d) is not defined for every n = %d*y + %d <= 2^64-2: %s" % (b, b, r, [c for c in lr.cells if c.status != "ok"][:1]))
                continue
            v = lr.value(cl[0])
            if len(cl) != 1 or not (isinstance(v, AI) and v.aff is not None and v.dir is not None):
                out["problems"].append("len_golomb(%d*y + %d, %d) is not one affine function of y: %r" % (b, r, b, [lr.value(c) for c in cl][:3]))
                continue
            out["len"].append(tuple(v.aff))
            for e in (BE, LE):
                en = "be" if e == BE else "le"
                wr = Run(F, "w", wbody, {"E": e}, (("u64", b),), {}, receiver=True, hi=ymax, inp=(b, r))
                for c in wr.cells:
                    if c.status != "ok":
                        out["problems"].append("write_golomb(%d*y + %d, %d) fails on y in [%d, %d]: %s" % (b, r, b, c.y0, c.y1, c.why))
                        continue
                    wv = wr.value(c)
                    out["checked"] += 1
                    if not (isinstance(wv, AI) and wv.aff is not None and wv.dir is not None and tuple(wv.aff) == tuple(v.aff)):
                        out["problems"].append("write_golomb(%d*y + %d, %d) returns %r; len_golomb is %s*y + %s" % (b, r, b, wv, v.aff[0], v.aff[1]))
                    # emitted widths = returned count
                    lo = hi = None
                    tot = AI("u128", 0, 0)
                    it = ivl.Interp(F, c.y0, c.y1)
                    bad = False
                    for ev in c.events:
                        if ev[0] == "unary":
                            tot = it.arith("Add", tot, it.arith("Add", it.cast(ev[1], "u128"), AI("u128", 1, 1), "u128"), "u128")
                        elif ev[0] == "bits":
                            tot = it.arith("Add", tot, it.cast(ev[2], "u128"), "u128")
                    if not (tot.aff is not None and tot.dir is not None and tuple(tot.aff) == tuple(v.aff)):
                        out["problems"].append("write_golomb(%d*y + %d, %d) emits %r bits and returns %s" % (b, r, b, tot, v.aff))
                    # documented fields: unary(n / b) then the minimal binary code of n % b with bound b
                    want = [("U", ("aff", 1, 0))] + [f if f[0] == "U" else ("B", ("aff", 0, refspec.value_at(f[1], r) & ((1 << f[2]) - 1)), f[2])
                                                    for f in refspec.fields("minimal_binary", en, (b,), r, r)]
                    evs = c.events
                    okf = len(evs) == len(want)
                    if okf:
                        u = evs[0]
                        okf = u[0] == "unary" and u[1].aff is not None and u[1].dir is not None and tuple(u[1].aff) == (1, 0)
                        for ev, f in zip(evs[1:], want[1:]):
                            okf = okf and ev[0] == "bits" and ev[2].const() == f[2] and (f[2] == 0 or (ev[1].const() is not None and (ev[1].const() - f[1][2]) % (1 << f[2]) == 0))
                    out["fields"] += 1
                    if not okf:
                        out["problems"].append("write_golomb(%d*y + %d, %d) [%s] emits %s; documented: unary(y) then %s" % (b, r, b, en, [fmt_ev(x) for x in evs], want[1:]))
                    p = replay_reader(F, rbody, {"E": e}, (("u64", b),), c, expect=(b, r))
                    if p:
                        out["problems"].append("read_golomb(b=%d) on the writer's emissions for n = %d*y + %d: %s" % (b, b, r, p))
                    else:
                        out["replays"] += 1
    except Unsupported as ex:
        out["problems"].append("cannot be evaluated: %s" % ex)
    except Exception as ex:
        out["problems"].append("internal error %r" % (ex,))
    out["problems"] = out["problems"][:3]
    return b, out


_gcache = {}


def evaluate_golomb(F, fs, tier):
    import multiprocessing as mp
    _F[fs] = F
    bs = golomb_params(tier)
    todo = [(fs, b) for b in bs if (fs, b) not in _gcache]
    if todo:
        with mp.get_context("fork").Pool(min(16, len(todo))) as pool:
            for b, res in pool.imap_unordered(_work_golomb, todo, chunksize=1):
                _gcache[(fs, b)] = res
    return [(b, _gcache[(fs, b)]) for b in bs]


def run_golomb(chk, F, fs, tier, pid):
    """rules for Golomb codes from the residue-class analysis; which ones are reported depends on the property asking"""
    res = evaluate_golomb(F, fs, tier)
    sfx = "" if fs == "default" else "@" + fs
    if pid == "C06":
        chk.rule("L4.golomb", floor=15, doc="Golomb_b, b enumerated, every n <= 2^64-2 by residue classes n = b*y + r: len_golomb, the writer's return and the sum of emitted widths are the same affine function of y on every class, both endiannesses")
        for b, r in res:
            pr = [p for p in r["problems"] if "returns" in p or "emits" in p and "bits and returns" in p or "not defined" in p or "fails" in p or "affine" in p or "evaluated" in p or "internal" in p]
            chk.expect("L4.golomb", "b=%d%s" % (b, sfx), not pr and r["checked"] > 0, "Golomb b=%d: %s" % (b, "; ".join(pr)), sample={"b": b, "classes": len(r["len"]), "cells": r["checked"]})
    if pid == "C20":
        chk.rule("F2.golomb", floor=15, doc="len_golomb(n, b) is non-decreasing in n over the whole domain: on each residue class it is y + c_r, with c_r <= c_(r+1) and c_(b-1) <= c_0 + 1; Kraft: sum_r 2^(1 - c_r) <= 1 (geometric series over y), b enumerated")
        for b, r in res:
            cs = r["len"]
            ok = len(cs) == b and all(a == 1 for a, _ in cs)
            why = None
            if not ok:
                why = "; ".join(r["problems"]) or "classes missing"
            else:
                c = [x[1] for x in cs]
                for i in range(b - 1):
                    if c[i] > c[i + 1]:
                        ok, why = False, "len_golomb(%d*y + %d) = y + %d > len_golomb(%d*y + %d) = y + %d" % (b, i, c[i], b, i + 1, c[i + 1])
                        break
                if ok and c[b - 1] > c[0] + 1:
                    ok, why = False, "len_golomb drops from y + %d at residue %d to y + 1 + %d at the next multiple of %d" % (c[b - 1], b - 1, c[0], b)
                if ok:
                    tot = sum(Fraction(2, 1 << ci) for ci in c)
                    if tot > 1:
                        ok, why = False, "Kraft bound sum_r 2^(1-c_r) = %s > 1" % tot
            chk.expect("F2.golomb", "b=%d%s" % (b, sfx), ok, "Golomb b=%d: %s" % (b, why), sample={"b": b, "offsets": [x[1] for x in cs][:8]})
    if pid == "C04":
        chk.rule("D3.golomb", floor=15, doc="Golomb_b on every residue class: the writer emits unary(n / b) followed by exactly the documented minimal binary code of n % b with bound b (constant fields per class), both endiannesses")
        for b, r in res:
            pr = [p for p in r["problems"] if "documented" in p or "evaluated" in p or "internal" in p or "fails" in p]
            chk.expect("D3.golomb", "b=%d%s" % (b, sfx), not pr and r["fields"] > 0, "Golomb b=%d: %s" % (b, "; ".join(pr)), sample={"b": b, "cells": r["fields"]})
    if pid == "C03":
        chk.rule("K2.golomb", floor=15, doc="Golomb_b replay on every residue class: read_golomb interpreted on the writer's emissions returns b*y + r, i.e. the value written, both endiannesses")
        for b, r in res:
            pr = [p for p in r["problems"] if "read_golomb" in p or "evaluated" in p or "internal" in p or "fails" in p]
            chk.expect("K2.golomb", "b=%d%s" % (b, sfx), not pr and r["replays"] > 0, "Golomb b=%d: %s" % (b, "; ".join(pr)), sample={"b": b, "cells": r["replays"]})


# ---- semantic comparison of a length expression with the length function of a code class ---------------------------------------
def len_reference(fam, param):
    """(path, env, extra args) of the library's length function for a canonical class, or None"""
    if fam == "gamma":
        return ("codes::gamma::len_gamma_param", {"USE_TABLE": False}, ())
    if fam == "delta":
        return ("codes::delta::len_delta_param", {"USE_DELTA_TABLE": False, "USE_GAMMA_TABLE": False}, ())
    if fam == "omega":
        return ("codes::omega::len_omega", {}, ())
    if fam == "zeta" and isinstance(param, int):
        return ("codes::zeta::len_zeta_param", {"USE_TABLE": False}, (("usize", param),))
    if fam == "pi" and isinstance(param, int):
        return ("codes::pi::len_pi", {}, (("usize", param),))
    if fam == "exp_golomb" and isinstance(param, int):
        return ("codes::exp_golomb::len_exp_golomb", {}, (("usize", param),))
    if fam in ("vbyte", "vbyte_be", "vbyte_le"):
        return ("codes::vbyte::bit_len_vbyte", {}, ())
    return None


def semantic_len(F, body, is_closure, fam, param):
    """does `body` (a closure or function of one value argument) return, for every 64-bit value, the length of the class
    (fam, param)?  -> (True | False | None, explanation); None = the comparison is outside the interpreter's reach"""
    ref = len_reference(fam, param)
    if ref is None:
        return None, "no whole-domain reference for class %s" % ((fam, param),)
    hs = handlers()

    def run_body(it):
        it.handlers = hs
        it.cfg = {}
        args = ([Opaque("closure")] if is_closure else []) + [it.input("u64")]
        return it.call_body(body, args, {}, 0)

    def refine(r, it):
        return isinstance(r, AI) and r.const() is None
    try:
        mine = [cell_summary(c) for c in ivl.partition(F, run_body, 0, U64MAX, refine=refine)]
        rr = Run(F, "ref", F.body(ref[0]), ref[1], ref[2], {}, refine_const=True)
        theirs = [cell_summary(c) for c in rr.cells]
    except Unsupported as e:
        return None, "cannot be evaluated: %s" % e
    for lo, hi, a, b in overlay_s(mine, theirs):
        if hi > U64MAX - 1 and lo > U64MAX - 1:
            continue
        if a["status"] != "ok" or b["status"] != "ok":
            if a["status"] != b["status"]:
                return False, "for n in [%d, %d] one of the two is undefined (%s / %s)" % (lo, hi, a["why"], b["why"])
            continue
        if not (is_const(a["ret"]) and is_const(b["ret"])):
            return None, "length not constant on [%d, %d]" % (lo, hi)
        if a["ret"][2] != b["ret"][2]:
            return False, "for n in [%d, %d] it yields %d where the length of %s is %d" % (lo, hi, a["ret"][2], (fam, param), b["ret"][2])
    return True, "equal on every cell of the whole domain"


# ---- exact fields of one code over its whole parameter range (fallback when a shape rule does not recognise a writer) -----------
def fields_all_params(F, fs, code, what="fields"):
    """-> (ok, text): D3-style exact comparison of the code's writer with the documented fields for every value, both
    endiannesses, over the full parameter range (as far as the residue-class method reaches)"""
    import multiprocessing as mp
    _F[fs] = F
    cfgs = []
    probs = []
    if code == "golomb":
        todo = [(fs, b) for b in list(range(1, 65)) + [100, 127, 128, 129, 1000] if (fs, b) not in _gcache]
        with mp.get_context("fork").Pool(16) as pool:
            for b, res in pool.imap_unordered(_work_golomb, todo, chunksize=2):
                _gcache[(fs, b)] = res
        for b in list(range(1, 65)) + [100, 127, 128, 129, 1000]:
            r = _gcache[(fs, b)]
            probs += [p for p in r["problems"] if "documented" in p or "evaluated" in p or "internal" in p or "fails" in p]
        # Golomb's fixed-width fields are the constants of the documented minimal binary code (compared exactly above): clean
        return (not probs), ("; ".join(probs[:2]) or "exact fields verified for b in 1..=64 and 100, 127..129, 1000")
    for e, en in ((BE, "be"), (LE, "le")):
        if code in ("gamma", "delta"):
            cfgs += [c for c in field_configs("thorough") if c[1] == code and c[0].endswith(en)]
        elif code == "zeta":
            for k in range(1, 64):
                cfgs.append(("fa.zeta%d.%s" % (k, en), "zeta", (k,), "<B as codes::zeta::ZetaWriteParam<%s>>::write_zeta_param" % e, None, {"E": e, "USE_TABLE": False}, (("usize", k),), U64MAX, True))
        elif code in ("pi", "rice"):
            path = "codes::pi::PiWrite::write_pi" if code == "pi" else "codes::rice::RiceWrite::write_rice"
            for k in range(0, 64):
                cfgs.append(("fa.%s%d.%s" % (code, k, en), code, (k,), path, None, {"E": e}, (("usize", k),), U64MAX, code != "rice"))
        elif code == "exp_golomb":
            for k in range(0, 6):
                for r in range(1 << k):
                    cfgs.append(("fa.exp_golomb%d[r=%d].%s" % (k, r, en), "exp_golomb_class", (k, r), "codes::exp_golomb::ExpGolombWrite::write_exp_golomb", None,
                                 {"E": e}, (("usize", k),), (U64MAX - 1 - r) >> k, True, (1 << k, r)))
        elif code == "minimal_binary":
            for u in list(range(1, 131)) + [255, 256, 257, 1000, (1 << 32) - 1, (1 << 32), (1 << 63) + 5, (1 << 64) - 1]:
                cfgs.append(("fa.minimal_binary%d.%s" % (u, en), "minimal_binary", (u,), "codes::minimal_binary::MinimalBinaryWrite::write_minimal_binary", None,
                             {"E": e}, (("u64", u),), u - 1, True))
        else:
            return None, "no whole-range comparison for %s" % code
    with mp.get_context("fork").Pool(16) as pool:
        for key, r in pool.imap_unordered(_work_fields, [(fs,) + tuple(c) for c in cfgs], chunksize=2):
            if "unsupported" in r:
                probs.append("%s: %s" % (key, r["unsupported"]))
            elif what == "clean":
                if r["dirty"] or r["domain"]:
                    probs.append("%s: %s" % (key, r["dirty"] or r["domain"]))
            elif r["field_problems"] or r["domain"] or not r["pieces"]:
                probs.append("%s: %s" % (key, "; ".join(r["field_problems"]) or r["domain"] or "nothing compared"))
    return (not probs), ("; ".join(probs[:2]) or "%s verified on %d configurations (whole parameter range, both endiannesses)" % ("clean operands" if what == "clean" else "exact fields", len(cfgs)))


# ---- parameterless value functions: every MIR assert decided on every value (replaces the E3 obligations + lemmas L6, L7) -------
E7_COVERED = {
    "vbyte.byte_len": ["vbyte.bytes"], "vbyte.bit_len": ["vbyte.bits"],
    "vbyte.write_be": ["w.vbyte_be.be", "w.vbyte_be.le"], "vbyte.write_le": ["w.vbyte_le.be", "w.vbyte_le.le"],
    "vbyte.io_write_be": ["w.vbyte_io_be"], "vbyte.io_write_le": ["w.vbyte_io_le"],
    "omega.len": ["omega"], "omega.recursive_len": ["omega"],
    "omega.write": ["w.omega.be", "w.omega.le"], "omega.recursive_write": ["w.omega.be", "w.omega.le"],
}


def run_domain_e7(chk, F, fs, tier, rule, keys):
    """for the functions in `keys` (no parameter besides the value): the value-partition interpretation of the function on the whole
    64-bit domain meets no failing assert, shift, index or unwrap on any value up to 2^64-2 (for VByte: up to 2^64-1)"""
    jobs = {j[0]: j for j in len_jobs(tier) + writer_jobs(tier)}
    need = sorted({k for key in keys for k in E7_COVERED[key]})
    res = evaluate(F, fs, [jobs[k] for k in need])
    sfx = "" if fs == "default" else "@" + fs
    for key in keys:
        prob = None
        n = 0
        for k in E7_COVERED[key]:
            r = res[k]
            if "unsupported" in r:
                prob = "%s cannot be evaluated: %s" % (k, r["unsupported"])
                break
            cells = r["cells"]
            top = U64MAX if key.startswith("vbyte") else U64MAX - 1
            bad = [c for c in cells if c["status"] != "ok" and c["y0"] <= top]
            if not covered(cells) or bad:
                prob = "%s: %s" % (k, ("fails for values %s (%s)" % (fmt_cell(bad[0]), bad[0]["why"])) if bad else "cells do not tile the domain")
                break
            n += len(cells)
        chk.expect(rule, "%s@u64|e7-domain%s" % (key, sfx), prob is None, "%s: %s" % (key, prob),
                   sample={"fn": key, "cells": n, "method": "every MIR assert of the function (and its callees) decided on every cell of [0, 2^64-1]"})


def _work_leneq(job):
    """writer return = length function on every cell, one (code, parameter, endianness) configuration"""
    fs, key, wpath, wenv, lpath, lenv, extra, hi = job
    F = _F[fs]
    try:
        w = Run(F, key, F.body(wpath), wenv, extra, {}, receiver=True, hi=hi, refine_const=True)
        l = Run(F, key, F.body(lpath), lenv, extra, {}, hi=hi, refine_const=True)
    except Unsupported as e:
        return key, "cannot be evaluated: %s" % e
    except Exception as e:
        return key, "internal error %r" % (e,)
    for lo, hi_, a, b in overlay_s([cell_summary(c) for c in w.cells], [cell_summary(c) for c in l.cells]):
        if hi_ > U64MAX - 1 and lo > U64MAX - 1:
            continue
        if a["status"] != "ok" or b["status"] != "ok":
            if a["status"] != b["status"]:
                return key, "for n in [%d, %d] one of writer / length function is undefined" % (lo, hi_)
            continue
        if not (is_const(a["ret"]) and is_const(b["ret"]) and a["ret"][2] == b["ret"][2]):
            return key, "for n in [%d, %d] the writer returns %s and the length function %s" % (lo, hi_, a["ret"][2:4], b["ret"][2:4])
    return key, None


def len_eq_all_params(F, fs, code):
    """-> (ok | None, text): len = write return on every value over the whole parameter range (fallback of the symbolic rule L3)"""
    import multiprocessing as mp
    _F[fs] = F
    jobs = []
    if code == "golomb":
        okv, text = fields_all_params(F, fs, "golomb")
        probs = []
        for b in list(range(1, 65)) + [100, 127, 128, 129, 1000]:
            probs += [p for p in _gcache[(fs, b)]["problems"] if "returns" in p or "bits and returns" in p or "not defined" in p or "affine" in p]
        return (not probs), ("; ".join(probs[:2]) or "len = write return on every residue class for b in 1..=64 and 100, 127..129, 1000")
    for e, en in ((BE, "be"), (LE, "le")):
        if code == "minimal_binary":
            for u in list(range(1, 131)) + [255, 256, 257, 1000, (1 << 32) - 1, (1 << 32), (1 << 63) + 5, (1 << 64) - 1]:
                jobs.append((fs, "le.minimal_binary%d.%s" % (u, en), "codes::minimal_binary::MinimalBinaryWrite::write_minimal_binary", {"E": e},
                             "codes::minimal_binary::len_minimal_binary", {}, (("u64", u),), u - 1))
        elif code == "zeta":
            for k in range(1, 64):
                jobs.append((fs, "le.zeta%d.%s" % (k, en), "<B as codes::zeta::ZetaWriteParam<%s>>::write_zeta_param" % e, {"E": e, "USE_TABLE": False},
                             "codes::zeta::len_zeta_param", {"USE_TABLE": False}, (("usize", k),), U64MAX))
        elif code in ("pi", "exp_golomb"):
            wp = "codes::pi::PiWrite::write_pi" if code == "pi" else "codes::exp_golomb::ExpGolombWrite::write_exp_golomb"
            lp_ = "codes::pi::len_pi" if code == "pi" else "codes::exp_golomb::len_exp_golomb"
            for k in range(0, 64):
                jobs.append((fs, "le.%s%d.%s" % (code, k, en), wp, {"E": e}, lp_, {}, (("usize", k),), U64MAX))
        elif code == "gamma":
            jobs.append((fs, "le.gamma.%s" % en, "<B as codes::gamma::GammaWriteParam<%s>>::write_gamma_param" % e, {"E": e, "USE_TABLE": False},
                         "codes::gamma::len_gamma_param", {"USE_TABLE": False}, (), U64MAX))
        elif code == "delta":
            jobs.append((fs, "le.delta.%s" % en, "<B as codes::delta::DeltaWriteParam<%s>>::write_delta_param" % e, {"E": e, "USE_DELTA_TABLE": False, "USE_GAMMA_TABLE": False},
                         "codes::delta::len_delta_param", {"USE_DELTA_TABLE": False, "USE_GAMMA_TABLE": False}, (), U64MAX))
        else:
            return None, "no whole-range comparison for %s" % code
    probs = []
    with mp.get_context("fork").Pool(16) as pool:
        for key, prob in pool.imap_unordered(_work_leneq, jobs, chunksize=2):
            if prob:
                probs.append("%s: %s" % (key, prob))
    return (not probs), ("; ".join(probs[:2]) or "len = write return on every value for %d configurations (whole parameter range)" % len(jobs))


def run_len_tables(chk, F, fs, tier, rule):
    """the length functions with a LEN table give, with the table option on, exactly the lengths they give with it off, for every
    64-bit value (both evaluated on the whole domain by the value-partition interpreter; constant per cell)"""
    extra = [("zeta%d[table=1]" % k, "codes::zeta::len_zeta_param", {"USE_TABLE": True}, (("usize", k),), {}, False, U64MAX, True, True) for k in (1, 2, 4)]
    res = evaluate(F, fs, [j for j in len_jobs(tier) if j[0].startswith(("gamma[", "delta[", "zeta3[", "zeta1[", "zeta2[", "zeta4["))] + extra)
    pairs = [("gamma.len", "gamma[table=1]", "gamma[table=0]"), ("delta.len", "delta[table=1,gamma_table=0]", "delta[table=0,gamma_table=0]"),
             ("delta.len[gamma_table]", "delta[table=1,gamma_table=1]", "delta[table=0,gamma_table=0]"),
             ("delta.len[gamma_table only]", "delta[table=0,gamma_table=1]", "delta[table=0,gamma_table=0]"), ("zeta.len", "zeta3[table=1]", "zeta3[table=0]")] + \
        [("zeta.len[k=%d, table of another k]" % k, "zeta%d[table=1]" % k, "zeta%d[table=0]" % k) for k in (1, 2, 4)]

    class C:
        def __init__(self, d):
            self.y0, self.y1, self.d = d["y0"], d["y1"], d
    for key, on, off in pairs:
        ra, rb = res.get(on), res.get(off)
        if ra is None or rb is None or "unsupported" in ra or "unsupported" in rb:
            chk.bad(rule, key, "length function %s cannot be evaluated: %s" % (key, (ra or {}).get("unsupported") or (rb or {}).get("unsupported") or "missing"))
            continue
        prob = None
        n = 0
        for lo, hi, a, b in overlay([C(c) for c in ra["cells"]], [C(c) for c in rb["cells"]]):
            if lo > U64MAX - 1:
                continue
            n += 1
            va, vb = a.d["ret"], b.d["ret"]
            if a.d["status"] != "ok" or b.d["status"] != "ok" or not is_const(va) or not is_const(vb) or va[2] != vb[2]:
                prob = prob or "on [%d, %d] the length with the table option is %s, without it %s" % (
                    lo, hi, va[2:4] if va else a.d["why"], vb[2:4] if vb else b.d["why"])
        chk.expect(rule, key, prob is None and n > 0, "%s: %s" % (key, prob or "nothing compared"), sample={"fn": key, "cells": n})


def vbyte_writes_clean(F, fs, which):
    """every write_bits(v, n) the bit-stream VByte writer `which` (be | le) issues has v < 2^n, for every 64-bit value (the
    writer interpreted on the whole domain) -> (ok, text)"""
    res = evaluate(F, fs, [j for j in writer_jobs("quick") if j[0].startswith("w.vbyte_%s." % which)])
    n = 0
    for key, r in sorted(res.items()):
        if "unsupported" in r:
            return False, "%s cannot be evaluated: %s" % (key, r["unsupported"])
        for c in r["cells"]:
            if c["status"] != "ok":
                return False, "%s: %s on [%d, %d]" % (key, c["why"], c["y0"], c["y1"])
            for ev in c["events"]:
                if ev[0] == "bits":
                    v, w = ev[1], ev[2]
                    n += 1
                    if not (v[0] == "int" and w[0] == "int" and w[2] == w[3] and v[2] >= 0 and v[3] < (1 << w[2])):
                        return False, "%s: on [%d, %d] a write of %s bits carries a value in [%s, %s]" % (key, c["y0"], c["y1"], w[2:4], v[2], v[3])
    return n > 0, "every emitted field within its width on every cell (%d writes over all 64-bit values)" % n


# ---- VByte: the reader returns the value written, for every 64-bit value --------------------------------------------------------------
VBYTE_PAIRS = [
    ("vbyte_be.be", "<B as codes::vbyte::VByteBeWrite<E>>::write_vbyte_be", "<B as codes::vbyte::VByteBeRead<E>>::read_vbyte_be", {"E": BE}, True),
    ("vbyte_be.le", "<B as codes::vbyte::VByteBeWrite<E>>::write_vbyte_be", "<B as codes::vbyte::VByteBeRead<E>>::read_vbyte_be", {"E": LE}, True),
    ("vbyte_le.be", "<B as codes::vbyte::VByteLeWrite<E>>::write_vbyte_le", "<B as codes::vbyte::VByteLeRead<E>>::read_vbyte_le", {"E": BE}, True),
    ("vbyte_le.le", "<B as codes::vbyte::VByteLeWrite<E>>::write_vbyte_le", "<B as codes::vbyte::VByteLeRead<E>>::read_vbyte_le", {"E": LE}, True),
    ("vbyte_io_be", "codes::vbyte::vbyte_write_be", "codes::vbyte::vbyte_read_be", {}, "io"),
    ("vbyte_io_le", "codes::vbyte::vbyte_write_le", "codes::vbyte::vbyte_read_le", {}, "io"),
]


def replay_vbyte(F, body, env, c, io):
    """the VByte reader interpreted on a cell with the bytes the writer emitted there (abstract values: bit fields of the value
    written); returns a problem or None"""
    it = ivl.Interp(F, c.y0, c.y1)
    queue = []
    for ev in c.events:
        if ev[0] == "byte":
            queue.append(ev[1])
        elif ev[0] == "bits" and isinstance(ev[2], AI) and ev[2].const() == 8:
            queue.append(ev[1])
        else:
            return "for n in [%d, %d] the writer emits %s, not a byte" % (c.y0, c.y1, fmt_ev(ev))
    total = len(queue)

    def next_byte():
        if not queue:
            raise Unsupported("the reader asks for a byte after the %d bytes the writer emitted" % total)
        v = queue.pop(0)
        if not isinstance(v, AI):
            raise Unsupported("emitted byte %r" % (v,))
        return v

    def r_bits(it_, name, args, fargs, fr, t):
        n = args[1]
        if not isinstance(n, AI) or n.const() != 8:
            raise Unsupported("the reader reads %r bits where the writer wrote a byte" % (n,))
        v = next_byte()
        return mk_variant("std::result::Result", "Ok", [AI("u64", v.lo, v.hi, v.dir, v.aff, v.tag)])

    def r_exact(it_, name, args, fargs, fr, t):
        s = args[1]
        if isinstance(s, Ref):
            arr = it_.project(s.frame, s.frame.locals.get(s.local), s.proj)
            if isinstance(arr, Agg) and arr.kind == "array":
                s = Slice(s, 0, len(arr.fields))
        if not isinstance(s, Slice):
            raise Unsupported("read_exact into %r" % (s,))
        for i in range(s.start, s.end):
            v = next_byte()
            it_.write_proj(s.ref.frame, s.ref.local, list(s.ref.proj) + [{"const_index": i}], AI("u8", v.lo, v.hi, v.dir, v.aff, v.tag))
        return mk_variant("std::result::Result", "Ok", [ivl.UNIT])
    hs = handlers()
    hs["traits::bits::BitRead::read_bits"] = r_bits
    hs["std::io::Read::read_exact"] = r_exact
    it.handlers = hs
    it.cfg = {}
    try:
        r = it.call_body(body, [STREAM], dict(env), 0)
    except (Unsupported, Undecided, Panic) as e:
        return "reader on n in [%d, %d]: %s: %s" % (c.y0, c.y1, type(e).__name__, e)
    if queue:
        return "for n in [%d, %d] the reader stops after %d of the %d bytes written" % (c.y0, c.y1, total - len(queue), total)
    v = r.fields[0] if isinstance(r, Agg) and r.variant == "Ok" else r
    if not (isinstance(v, AI) and ((v.aff is not None and v.dir is not None and tuple(v.aff) == (1, 0)) or (c.y0 == c.y1 and v.const() == c.y0))):
        return "for n in [%d, %d] the reader returns %r, not the value written" % (c.y0, c.y1, v)
    return None


def _work_vbyte(job):
    fs, key, wpath, rpath, env, recv = job
    F = _F[fs]
    try:
        r = Run(F, key, F.body(wpath), env, (), {}, receiver=recv, hi=U64MAX, refine_const=True)
        r.remerge()
    except Unsupported as e:
        return key, {"unsupported": str(e)}
    except Exception as e:
        return key, {"unsupported": "internal error: %r" % (e,)}
    probs, n, bad = [], 0, None
    for c in r.cells:
        if c.status != "ok":
            bad = "writer fails on [%d, %d]: %s" % (c.y0, c.y1, c.why)
            continue
        try:
            p = replay_vbyte(F, F.body(rpath), env, c, recv == "io")
        except Exception as e:
            p = "internal error %r" % (e,)
        if p:
            probs.append(p)
        else:
            n += 1
    return key, {"cells": len(r.cells), "replays": n, "problems": probs[:3], "domain": bad}


def run_vbyte_roundtrip(chk, F, fs, tier, rule):
    import multiprocessing as mp
    chk.rule(rule, floor=6, doc="VByte round trip for every 64-bit value: each of the six readers (bit-stream BE/LE codes over both stream endiannesses, std::io BE/LE), interpreted on every cell of the writer's partition of [0, 2^64-1] with the bytes the writer emitted there (abstract bit fields of the value written: base-128 digits after the subtracted offsets), consumes exactly those bytes and returns the affine form 1*n + 0")
    _F[fs] = F
    jobs = [(fs, k, w, r, env, recv) for k, w, r, env, recv in VBYTE_PAIRS]
    with mp.get_context("fork").Pool(len(jobs)) as pool:
        res = dict(pool.imap_unordered(_work_vbyte, jobs, chunksize=1))
    for k, w, r, env, recv in VBYTE_PAIRS:
        x = res[k]
        if "unsupported" in x:
            chk.bad(rule, k, "VByte writer %s cannot be evaluated: %s" % (k, x["unsupported"]))
            continue
        chk.expect(rule, k, not x["problems"] and not x["domain"] and x["replays"] > 0, "VByte %s: %s" % (k, "; ".join(x["problems"]) or x["domain"] or "no cell replayed"),
                   sample={"pair": k, "cells_replayed": x["replays"]})

"""Obligations one property's argument assumes about a component that another property owns.  Each helper runs the owning
property's rules in a scratch collector and includes the named rules in the caller's verdict (report.Check.include): a change
that breaks the component breaks every property that relies on it, and each of their checks says so."""


def backends(chk, F, tier, rules, prefix, why):
    import rules_c13
    sub = chk.sibling()
    rules_c13.run(sub, F, tier)
    chk.include(sub, rules, prefix, why)


def adapter(chk, F, tier, rules, prefix, why):
    import rules_c11
    sub = chk.sibling()
    rules_c11.run(sub, F, tier)
    chk.include(sub, rules, prefix, why)


def end_of_stream(chk, F, tier, rules, prefix, why):
    import rules_c09
    sub = chk.sibling()
    rules_c09.run(sub, F, tier)
    chk.include(sub, rules, prefix, why)


def writer_structure(chk, F, rules, prefix, why):
    import rules_c01
    sub = chk.sibling()
    rules_c01.run_structural(sub, F)
    chk.include(sub, rules, prefix, why)


def reader_structure(chk, F, rules, prefix, why):
    import rules_c02
    sub = chk.sibling()
    rules_c02.run_structural(sub, F)
    chk.include(sub, rules, prefix, why)


READER_DOC = "bit-sequence domain (C02.R7): read/peek return exactly the next n stream bits and the buffer keeps exactly the rest; read_unary counts exactly the zeros before the next one"
WRITER_DOC = "bit-sequence domain (C01.W6): every word delivered is exactly the next W bits of pending ++ appended field"


def reader_content(chk, F, fs, rule, widths, why, kinds=("reader", "unary", "bitreader")):
    import rules_seq
    chk.rule(rule, floor=18, doc="%s [included: %s]" % (READER_DOC, why))
    jobs = []
    if "reader" in kinds:
        jobs += [("reader", rule, nm) for nm in ("read_bits", "peek_bits", "skip_bits", "skip_bits_after_peek")]
    if "unary" in kinds:
        jobs += [("unary", rule, "read_unary")]
    if "bitreader" in kinds:
        jobs += [("bitreader", rule, "bitreader")]
    rules_seq.run_parallel(chk, F, fs, jobs, widths=widths)
    if "unary" in kinds:
        import rules_c02u
        rules_c02u.run_unbuffered(chk, F, "quick", rule + ".unary")
        rules_c02u.run_buffered(chk, F, "quick", rule + ".unary")


def writer_content(chk, F, fs, rule, widths, why):
    import rules_seq
    chk.rule(rule, floor=12, doc="%s [included: %s]" % (WRITER_DOC, why))
    rules_seq.run_parallel(chk, F, fs, [("writer", rule, nm) for nm in ("write_bits", "write_unary", "flush")], widths=widths)

"""Result collection, known-findings handling, evidence and replay files."""
import json
import os
import sys
import time

VERIF = os.path.dirname(os.path.dirname(os.path.abspath(__file__)))
KNOWN = os.path.join(VERIF, "known_findings.json")
EVDIR = os.environ.get("VERIF_EVIDENCE", os.path.join(VERIF, "evidence"))   # scratch runs (seed matrix) write elsewhere


def load_known():
    if not os.path.exists(KNOWN):
        return []
    with open(KNOWN) as f:
        return json.load(f)["findings"]


class Check:
    """One run of one property's rule set."""

    def __init__(self, pid, tier, level, explanation):
        self.pid = pid
        self.tier = tier
        self.level = level
        self.explanation = explanation
        self.t0 = time.time()
        self.seed = int(os.environ.get("VERIF_SEED", "0") or 0)
        self.rules = {}          # rule -> {"instances": n, "ok": n, "floor": f}
        self.keys = set()        # distinct instance keys
        self.violations = []     # (key, what, detail)
        self.samples = []
        self.assumptions = []
        self.trusted = []
        self.extra = {}
        self.feature_sets = []
        self.fatal = None

    # -- recording ----------------------------------------------------------
    def rule(self, name, floor=0, doc=""):
        r = self.rules.setdefault(name, {"instances": 0, "ok": 0, "floor": floor, "doc": doc})
        if floor > r["floor"]:
            r["floor"] = floor
        return r

    def ok(self, rule, key, sample=None):
        r = self.rule(rule)
        r["instances"] += 1
        r["ok"] += 1
        self.keys.add((rule, key))
        if sample is not None and len([s for s in self.samples if s.get("rule") == rule]) < 3:
            self.samples.append({"rule": rule, "instance": key, "ok": True, "detail": sample})

    def bad(self, rule, key, what, detail=None):
        r = self.rule(rule)
        r["instances"] += 1
        self.keys.add((rule, key))
        self.violations.append({"rule": rule, "key": "%s|%s|%s" % (self.pid, rule, key), "what": what, "detail": detail})

    def expect(self, rule, key, cond, what, detail=None, sample=None):
        if cond:
            self.ok(rule, key, sample)
        else:
            self.bad(rule, key, what, detail)
        return cond

    def sibling(self):
        """a scratch collector for running another property's rules whose results are then included selectively"""
        return type(self)(self.pid, self.tier, self.level, self.explanation)

    def include(self, sub, rules, prefix, why):
        """make the results of `rules` (collected in `sub`) part of this property's verdict: an obligation this property's own
        argument assumes (a component contract), discharged by the rule of the property that owns the component"""
        for r in rules:
            src = sub.rules.get(r)
            name = "%s.%s" % (prefix, r)
            self.rule(name, floor=(src["floor"] if src else 1), doc="%s [included: %s]" % (src["doc"] if src else r, why))
            badkeys = set()
            for v in sub.violations:
                if v["rule"] == r:
                    k = v["key"].split("|", 2)[2]
                    badkeys.add(k)
                    if k == "floor":
                        continue
                    self.bad(name, k, v["what"], v.get("detail"))
            for (rr_, k) in sorted(sub.keys, key=repr):
                if rr_ == r and k not in badkeys:
                    self.ok(name, k)
        for t in sub.trusted:
            self.trust(t)

    def assume(self, text):
        if text not in self.assumptions:
            self.assumptions.append(text)

    def trust(self, text):
        if text not in self.trusted:
            self.trusted.append(text)

    # -- finishing ----------------------------------------------------------
    def finish(self, only_key=None):
        # floors: fail closed
        for name, r in sorted(self.rules.items()):
            if r["instances"] < r["floor"]:
                self.violations.append({
                    "rule": name, "key": "%s|%s|floor" % (self.pid, name),
                    "what": "rule %s matched %d instances, below the floor %d counted on the pinned tree (anchor lost or rule vacuous)"
                            % (name, r["instances"], r["floor"]), "detail": None})
        known = [k for k in load_known() if k["property"] == self.pid]
        open_keys = {k["key"]: k for k in known if k.get("status") == "open"}
        unlisted = []
        listed = []
        for v in self.violations:
            if only_key is not None and v["key"] != only_key:
                continue
            if v["key"] in open_keys:
                listed.append(v)
            else:
                unlisted.append(v)
        os.makedirs(os.path.join(EVDIR, "replay"), exist_ok=True)
        for fn in os.listdir(os.path.join(EVDIR, "replay")):      # replay files describe this run's violations only
            if fn.startswith(self.pid + "-"):
                os.remove(os.path.join(EVDIR, "replay", fn))
        for v in listed:
            print("KNOWN-FINDING: property=%s %s [%s]" % (self.pid, open_keys[v["key"]]["what"], v["key"]))
        n = 0
        for v in unlisted:
            n += 1
            rp = os.path.join(EVDIR, "replay", "%s-%d.json" % (self.pid, n))
            with open(rp, "w") as f:
                json.dump({"property": self.pid, "tier": self.tier, **v}, f, indent=1, default=str)
            print("VIOLATION property=%s replay=%s" % (self.pid, rp))
            print("  rule=%s key=%s" % (v["rule"], v["key"]))
            print("  %s" % v["what"])
            if v.get("detail"):
                d = json.dumps(v["detail"], default=str)
                print("  detail: %s" % (d if len(d) < 1500 else d[:1500] + "..."))
        stale = [k for k in open_keys if k not in {v["key"] for v in self.violations}]
        for k in stale:
            print("note: known finding %s no longer reproduces (stale entry)" % k)
        self.write_evidence(len(unlisted), len(listed))
        for name, r in sorted(self.rules.items()):
            print("  [%s] %-28s instances=%-6d ok=%-6d floor=%d" % (self.pid, name, r["instances"], r["ok"], r["floor"]))
        print("%s %s: %d rule instances, %d violations (%d known), %.1fs"
              % (self.pid, self.tier, sum(r["instances"] for r in self.rules.values()), len(unlisted) + len(listed), len(listed),
                 time.time() - self.t0))
        return 1 if unlisted else 0

    def write_evidence(self, n_viol, n_known):
        inst = sum(r["instances"] for r in self.rules.values())
        okc = sum(r["ok"] for r in self.rules.values())
        cov = {
            "explanation": self.explanation,
            "evaluations": inst,
            "distinct_nontrivial": len(self.keys),
            "rule": "one evaluation = one rule instance (an arm, table entry, call site, path or obligation found in the exported MIR / constant data of /repo's current tree); distinct = distinct (rule, instance key) pairs",
            "samples": self.samples[:40] if self.samples else [{"note": "no sample recorded"}],
            "rules": {k: {"instances": v["instances"], "ok": v["ok"], "floor": v["floor"], "doc": v["doc"]} for k, v in sorted(self.rules.items())},
            "feature_sets": self.feature_sets,
            "known_findings_reported": n_known,
        }
        if self.level == "proof":
            cov.update({"obligations": inst, "discharged": okc,
                        "checker_cmd": "./check %s --tier %s" % (self.pid, self.tier),
                        "trusted_base": self.trusted})
        if self.level == "translation_validation":
            cov.update({"programs": self.extra.get("programs", max(1, len(self.rules))),
                        "disagreements_checked": inst})
        cov.update({k: v for k, v in self.extra.items() if k not in ("programs",)})
        ev = {
            "property_id": self.pid,
            "tier": self.tier,
            "seed": self.seed,
            "level": self.level,
            "coverage": cov,
            "assumptions": self.assumptions + ["trusted: " + t for t in self.trusted],
            "wall_s": round(time.time() - self.t0, 2),
            "violations": n_viol,
        }
        p = os.path.join(EVDIR, self.pid + ".json")
        with open(p, "w") as f:
            json.dump(ev, f, indent=1, default=str)

"""Canonical code classes (DESIGN.md appendix A.1/A.2) and dispatcher leaf resolution.

Frozen oracle tables; each line was confirmed by reading the library's code
modules.  A *class* is (family, parameter) after the mathematical identities
  zeta_1 = pi_0 = exp-Golomb_0 = gamma,  Rice_0 = Golomb_1 = unary,
  Golomb_{2^j} = Rice_j
which hold codeword-for-codeword in this library (both endiannesses).
"""
import mir

# callee def path -> (kind, family, fixed parameter or None)
# kind: 'read' (args: stream, [param]), 'write' (stream, value, [param]), 'len' (value, [param])
FAMILY = {}


def _reg(kind, fam, path, fixed=None, has_param=False):
    FAMILY[path] = (kind, fam, fixed, has_param)


for _k in ("read", "write"):
    _T = "Read" if _k == "read" else "Write"
    _reg(_k, "unary", "traits::bits::Bit%s::%s_unary" % (_T, _k))
    _reg(_k, "gamma", "codes::gamma::Gamma%s::%s_gamma" % (_T, _k))
    _reg(_k, "gamma", "codes::gamma::Gamma%sParam::%s_gamma_param" % (_T, _k))
    _reg(_k, "delta", "codes::delta::Delta%s::%s_delta" % (_T, _k))
    _reg(_k, "delta", "codes::delta::Delta%sParam::%s_delta_param" % (_T, _k))
    _reg(_k, "omega", "codes::omega::Omega%s::%s_omega" % (_T, _k))
    _reg(_k, "vbyte_be", "codes::vbyte::VByteBe%s::%s_vbyte_be" % (_T, _k))
    _reg(_k, "vbyte_le", "codes::vbyte::VByteLe%s::%s_vbyte_le" % (_T, _k))
    _reg(_k, "zeta", "codes::zeta::Zeta%s::%s_zeta" % (_T, _k), has_param=True)
    _reg(_k, "zeta", "codes::zeta::Zeta%sParam::%s_zeta_param" % (_T, _k), has_param=True)
    _reg(_k, "zeta", "codes::zeta::Zeta%s::%s_zeta3" % (_T, _k), fixed=3)
    _reg(_k, "zeta", "codes::zeta::Zeta%sParam::%s_zeta3_param" % (_T, _k), fixed=3)
    _reg(_k, "pi", "codes::pi::Pi%s::%s_pi" % (_T, _k), has_param=True)
    _reg(_k, "golomb", "codes::golomb::Golomb%s::%s_golomb" % (_T, _k), has_param=True)
    _reg(_k, "exp_golomb", "codes::exp_golomb::ExpGolomb%s::%s_exp_golomb" % (_T, _k), has_param=True)
    _reg(_k, "rice", "codes::rice::Rice%s::%s_rice" % (_T, _k), has_param=True)
    _reg(_k, "minimal_binary", "codes::minimal_binary::MinimalBinary%s::%s_minimal_binary" % (_T, _k), has_param=True)

_reg("len", "gamma", "codes::gamma::len_gamma")
_reg("len", "gamma", "codes::gamma::len_gamma_param")
_reg("len", "delta", "codes::delta::len_delta")
_reg("len", "delta", "codes::delta::len_delta_param")
_reg("len", "omega", "codes::omega::len_omega")
_reg("len", "vbyte", "codes::vbyte::bit_len_vbyte")
_reg("len", "zeta", "codes::zeta::len_zeta", has_param=True)
_reg("len", "zeta", "codes::zeta::len_zeta_param", has_param=True)
_reg("len", "pi", "codes::pi::len_pi", has_param=True)
_reg("len", "golomb", "codes::golomb::len_golomb", has_param=True)
_reg("len", "exp_golomb", "codes::exp_golomb::len_exp_golomb", has_param=True)
_reg("len", "rice", "codes::rice::len_rice", has_param=True)
_reg("len", "minimal_binary", "codes::minimal_binary::len_minimal_binary", has_param=True)

# `Codes` variant -> (family, field name of the parameter)
VARIANT = {
    "Unary": ("unary", None), "Gamma": ("gamma", None), "Delta": ("delta", None), "Omega": ("omega", None),
    "VByteLe": ("vbyte_le", None), "VByteBe": ("vbyte_be", None),
    "Zeta": ("zeta", "k"), "Pi": ("pi", "k"), "Golomb": ("golomb", "b"),
    "ExpGolomb": ("exp_golomb", "k"), "Rice": ("rice", "log2_b"),
}

# prefix of a `code_consts` / associated-constant name -> family
CONST_PREFIX = {
    "UNARY": "unary", "GAMMA": "gamma", "DELTA": "delta", "OMEGA": "omega",
    "VBYTE_BE": "vbyte_be", "VBYTE_LE": "vbyte_le", "ZETA": "zeta", "RICE": "rice", "PI": "pi",
    "GOLOMB": "golomb", "EXP_GOLOMB": "exp_golomb",
}
PARAMETRIC = {"zeta", "pi", "golomb", "exp_golomb", "rice"}
MIN_PARAM = {"zeta": 1, "golomb": 1, "pi": 0, "exp_golomb": 0, "rice": 0}


def const_name_class(name):
    """'ZETA4' -> ('zeta', 4); 'VBYTE_BE' -> ('vbyte_be', None)"""
    base = name.rstrip("0123456789")
    digits = name[len(base):]
    fam = CONST_PREFIX.get(base)
    if fam is None:
        return None
    if fam in PARAMETRIC:
        if not digits:
            return None
        return (fam, int(digits))
    if digits:
        return None
    return (fam, None)


def canon(fam, param, for_len=False):
    """canonical class; param may be an int or a symbolic term"""
    if isinstance(param, int):
        if fam == "zeta" and param == 1:
            fam, param = "gamma", None
        elif fam in ("pi", "exp_golomb") and param == 0:
            fam, param = "gamma", None
        elif fam == "rice" and param == 0:
            fam, param = "unary", None
        elif fam == "golomb":
            if param == 1:
                fam, param = "unary", None
            elif param > 1 and param & (param - 1) == 0:
                fam, param = "rice", param.bit_length() - 1
    if for_len and fam in ("vbyte_be", "vbyte_le"):
        fam = "vbyte"
    return (fam, param)


def strip_casts(t):
    while isinstance(t, tuple) and t and t[0] == "cast":
        t = t[1]
    return t


def const_int(t):
    t = strip_casts(t)
    if isinstance(t, tuple) and t[0] == "const" and isinstance(t[1], int) and not isinstance(t[1], bool):
        return t[1]
    return None


def stream_calls(path, stream_pred):
    """call events that receive the stream (or value) parameter"""
    out = []
    for e in path.events:
        if e[0] != "call":
            continue
        if any(mir.mentions(a, stream_pred) for a in e[2]):
            out.append(e)
    return out


def classify_call(ev, kind):
    """(family, param term|int|None, value term|None, stream term) of a family call event, or None"""
    ent = FAMILY.get(ev[1])
    if ent is None or ent[0] != kind:
        return None
    k, fam, fixed, has_param = ent
    args = ev[2]
    if kind == "read":
        stream, value, rest = args[0], None, args[1:]
    elif kind == "write":
        stream, value, rest = args[0], args[1] if len(args) > 1 else None, args[2:]
    else:
        stream, value, rest = None, args[0], args[1:]
    param = fixed
    if has_param:
        if not rest:
            return None
        ci = const_int(rest[0])
        param = ci if ci is not None else strip_casts(rest[0])
    return (fam, param, value, stream)


def is_unary_len(t):
    """`value as usize + 1` -> the value term, else None"""
    if isinstance(t, tuple) and t[0] == "binop" and t[1] == "Add":
        a, b = t[2], t[3]
        if const_int(b) == 1:
            return strip_casts(a)
        if const_int(a) == 1:
            return strip_casts(b)
    return None

"""C09 — end of stream: E1 Result discipline, E2 strict vs zero-extended fetch, E3 no mutation before a failing fetch,
E5 adapter fetches whole words with read_exact."""
import mir
import rules_result as rr
import rules_c13

READ_SIDE_FILES = ("src/impls/buf_bit_reader.rs", "src/impls/bit_reader.rs", "src/impls/mem_word_reader.rs", "src/impls/mem_word_writer.rs",
                   "src/impls/word_adapter.rs", "src/codes/")
# named exceptions (site = function, callee): reason
EXCEPTIONS = {
    ("_tables::read_table_", "peek_bits"): "table readers treat a failed peek as `not in table`; nothing is consumed and the caller falls back to the bit-by-bit path, which meets the same error if the data is really missing",
    ("_tables::len_table_", "peek_bits"): "same as read_table_*",
    ("std::ops::Drop", "flush_"): "Drop cannot return an error",
}


def read_side_bodies(F):
    out = []
    for b in F.bodies:
        if b["kind"] not in ("AssocFn", "Fn"):
            continue
        if not any(x in b["span"] for x in READ_SIDE_FILES):
            continue
        tr = b.get("impl_trait_def") or ""
        if tr.startswith("mem_dbg") or tr.startswith("std::fmt") or tr.startswith("core::fmt") or tr in ("std::clone::Clone", "std::cmp::PartialEq"):
            continue
        if b.get("expn") and "derive" in (b.get("expn") or "").lower():
            continue
        out.append(b)
    return out


FETCH = ("traits::words::WordRead::read_word", "traits::bits::BitRead::read_bits", "traits::bits::BitRead::read_unary", "traits::bits::BitRead::peek_bits",
         "traits::bits::BitRead::skip_bits", "traits::words::WordSeek::set_word_pos", "traits::words::WordSeek::word_pos", "std::io::Read::read_exact",
         "std::io::Seek::seek", "std::io::Seek::stream_position")


def is_fetch(e):
    nm = e[1]
    return nm in FETCH or nm.startswith("codes::") and ("Read::read_" in nm or "ReadParam::read_" in nm) or nm.endswith("::refill")


def run(chk, F, tier):
    chk.rule("E1.discipline", floor=60, doc="every Result produced by a backend / primitive / code read on the read side is propagated (`?`, returned, or adapted then propagated)")
    chk.rule("E1.exceptions", floor=12, doc="named exceptions: table functions turn a failed peek into `None` without touching the stream")
    nsites = 0
    for b in read_side_bodies(F):
        d = rr.discipline(F, b, callee_filter=is_fetch)
        for (callee, line), ent in sorted(d.items(), key=lambda kv: (kv[0][0], kv[0][1] or 0)):
            bad = ent["kinds"] - rr.OK_KINDS - {"matched-ok"}
            key = "%s|%s#%d" % (b["path"][-90:], callee.split("::")[-1], ent["ordinal"])
            nsites += 1
            exc = [r for (fpat, cpat), r in EXCEPTIONS.items() if fpat in b["path"] and cpat in callee]
            if exc:
                # exception: still require that nothing is consumed on the error path (checked by C05.T2) - record it
                chk.ok("E1.exceptions", key, sample={"fn": b["path"], "callee": callee, "reason": exc[0][:60]})
                continue
            chk.expect("E1.discipline", key, not bad,
                       "%s: the result of %s is %s instead of being propagated: an end-of-stream error can turn into data" % (b["path"], callee, sorted(bad)),
                       detail={"fn": b["path"], "callee": callee, "kinds": sorted(ent["kinds"]), "details": ent.get("details")},
                       sample={"fn": b["path"][-60:], "callee": callee.split("::")[-1], "kinds": sorted(ent["kinds"])} if nsites % 40 == 1 else None)
    # ---- E3: no store to *self before the `?` of the word fetch on a path that returns the error
    chk.rule("E3.order", floor=4, doc="refill / peek_bits: on a path where the word fetch fails nothing of the reader has been modified before the failure")
    targets = []
    # private functions called from a peek_bits implementation of a reader
    lookahead_helpers = set()
    for b in F.bodies:
        sf = b.get("impl_self") or ""
        if b["kind"] == "AssocFn" and b["path"].endswith("::peek_bits") and (sf.startswith("impls::buf_bit_reader::BufBitReader<") or sf.startswith("impls::bit_reader::BitReader<")):
            for bl in b["blocks"]:
                t_ = bl["term"]
                if t_.get("k") == "call":
                    for nm_ in ((t_["func"].get("resolved") or {}).get("fn"), t_["func"].get("fn")):
                        if nm_:
                            lookahead_helpers.add(nm_)
    for b in F.bodies:
        if b["kind"] != "AssocFn":
            continue
        nm = b["path"].split("::")[-1]
        sf = b.get("impl_self") or ""
        is_reader = sf.startswith("impls::buf_bit_reader::BufBitReader<") or sf.startswith("impls::bit_reader::BitReader<")
        if is_reader and nm == "peek_bits" and (b.get("impl_trait_def") or "").startswith("traits::bits::BitRead"):
            targets.append(b)
        elif is_reader and not b.get("impl_trait") and str(b.get("vis") or "").startswith("Restricted") and b["path"] in lookahead_helpers and \
                any(bl["term"].get("k") == "call" and (bl["term"]["func"].get("fn") or "").endswith("WordRead::read_word") for bl in b["blocks"]):
            # a private word-fetching helper of the look-ahead (the refill called by peek_bits), whatever it is called
            targets.append(b)
    SELF = ("deref", ("arg", 1, "self"))
    for b in targets:
        probs = []
        import numabs, contracts, rules_num as rn
        # inline refill into peek_bits so that its stores are seen
        wk = numabs.NumWalker(b, numabs.Cfg(32), F, {}, None)
        wk.inline = rn.inline_pred
        wk.loops = {}
        wk.unroll = 1
        npaths = 0
        for p in wk.run():
            r = p.ret
            if p.end[0] != "return" or not (isinstance(r, tuple) and (r[0] == "from_residual" or (r[0] == "agg" and r[3] == "Err"))):
                continue
            npaths += 1
            stores = [e for e in p.events if e[0] == "store" and mir.mentions(e[1], lambda t: t == SELF)]
            if stores:
                probs.append("stores %s before returning the fetch error" % sorted({mir.fmt(e[1]) for e in stores}))
        key = "%s|%s" % ((b.get("impl_self") or "")[:70], b["path"].split("::")[-1])
        chk.expect("E3.order", key, npaths >= 1 and not probs,
                   "%s: %s" % (b["path"], "; ".join(sorted(set(probs))) or "no error path found"), sample={"fn": b["path"], "error_paths": npaths})
    # ---- E2 strict vs zero extension: the array+cursor rules of C13 (read_word part)
    sub = type(chk)(chk.pid, chk.tier, chk.level, chk.explanation)
    rules_c13.run(sub, F, tier)
    chk.rule("E2.fetch", floor=4, doc="strict backends return Err exactly when get() fails and do not move; the zero-extended reader yields ZERO there (rule K.read_word of C13)")
    for v in sub.violations:
        if "|K.read_word|" in v["key"]:
            chk.bad("E2.fetch", v["key"].split("|")[-1], v["what"])
    r = sub.rules.get("K.read_word", {"instances": 0, "ok": 0})
    for i in range(r["ok"]):
        chk.ok("E2.fetch", "read_word#%d" % i)
    # ---- E4: a word is fetched only when the request cannot be served from the buffer (otherwise the last values of a strict
    # stream, which lie entirely within the data, would fail with the fetch)
    chk.rule("E4.needed", floor=24, doc="read_bits / peek_bits / skip_bits of the buffered readers, W in {8,16,32,64}: on every path that fetches a backend word the request exceeds the buffered bits (n_bits > bits_in_buffer at entry)")
    import numabs, lp, rules_num as rn, rules_effects as re_
    from numabs import le, const
    C = re_.ghost_contracts()
    for spec in rn.reader_specs():
        parts = spec.key.split(".")
        if parts[0] != "reader" or parts[2] not in ("read_bits", "peek_bits", "skip_bits"):
            continue
        for w in spec.widths:
            b = rn.find_body(F, spec.find)

            def assume(num, spec=spec, w=w):
                out = []
                for text, goals in spec.inv(num, w):
                    out.extend(goals)
                out.extend(spec.pre(num, w))
                return out
            wk = numabs.NumWalker(b, numabs.Cfg(w), F, C, assume)
            wk.inline = spec.inline
            wk.gen_map = dict(getattr(spec, "gen", None) or {})
            bad = None
            nf = 0
            for p in wk.run():
                if not any(ev[1] == "traits::words::WordRead::read_word" for ev in p.calls()):
                    continue
                base = wk.full_store(p.state)
                if not lp.feasible_cached(base):
                    continue
                nf += 1
                wk.num.ctx_events = p.state["events"]
                n = wk.num.aff(("arg", 2, "arg2"))
                b0 = wk.num.aff(("field", ("deref", rn.SELF), "bits_in_buffer"))
                g = le(b0 + const(1), n) if (n is not None and b0 is not None) else None
                if g is None or not lp.entails(wk.num.close(base, [g]), g):
                    bad = bad or rn.describe_path(p)
            chk.expect("E4.needed", "%s@u%d" % (spec.key, w), bad is None and nf >= 1,
                       "%s, word u%d: a backend word is fetched on a path where the buffered bits may already cover the request: on a strict backend the fetch error would be reported although every requested bit is available" % (b["path"], w),
                       detail={"fn": b["path"], "cfg": "u%d" % w, "path": bad}, sample={"fn": spec.key, "cfg": "u%d" % w, "fetching_paths": nf} if w == 64 else None)
    # ---- E5 adapter
    chk.rule("E5.adapter", floor=1, doc="WordAdapter::read_word fetches a whole word with read_exact into a W::Bytes buffer")
    b = F.one(name="read_word", trait_is="traits::words::WordRead", impl_self="impls::word_adapter::WordAdapter<")
    oka = True
    for p in mir.walk(b):
        rx = [e for e in p.calls() if e[1].startswith("std::io::Read::")]
        if [e[1] for e in rx] != ["std::io::Read::read_exact"]:
            oka = False
    chk.expect("E5.adapter", "read_word", oka, "WordAdapter::read_word does not fetch with exactly one read_exact")


def run_all(chk, fsets, tier):
    import facts
    F = facts.load(fsets[0])
    run(chk, F, tier)
    # the last codes of a strict stream: a code must decode from exactly its own bits, also through the look-ahead tables
    import rules_ivl, rules_tables
    sub = chk.sibling()
    rules_ivl.run_c03_roundtrip(sub, F, fsets[0], tier)
    chk.include(sub, ("K2.replay",), "E6.tail", "every code reader, interpreted on exactly the primitives its writer emitted with nothing after them, returns the value: it never needs a bit beyond its own codeword (C03)")
    sub = chk.sibling()
    rules_tables.check_table_fns(sub, F)
    rules_tables.check_param_plumbing(sub, F)
    chk.include(sub, ("T2.shape", "T3.plumbing"), "E6.tables", "a table look-ahead that fails or misses consumes nothing and the read continues exactly like the bit-by-bit implementation (C05)")

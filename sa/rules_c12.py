"""C12 — io::Read / io::Write views: B1 numeric obligations (E3), B2 byte-order pairing, B3 whole slice reported, B4 errors mapped."""
import mir
import rules_num as rn

BE, LE = rn.BE, rn.LE


def io_bodies(F):
    out = []
    for kind, tr, sf in (("write", "std::io::Write", "impls::buf_bit_writer::BufBitWriter<"),
                         ("read", "std::io::Read", "impls::buf_bit_reader::BufBitReader<"),
                         ("read", "std::io::Read", "impls::bit_reader::BitReader<")):
        for b in F.find(name=kind, trait_is=tr, impl_self=sf):
            if b["kind"] == "AssocFn":
                e = "be" if BE in b["impl_self"] else "le"
                out.append((kind, e, b))
    return out


def run_structural(chk, F):
    bodies = io_bodies(F)
    chk.rule("B2.byteorder", floor=6, doc="BE impls convert with from_be_bytes/to_be_bytes, LE impls with from_le_bytes/to_le_bytes (how the 1..7 remainder bytes are packed into a word is not decided: an iterator reversal, a zero-padded array or per-byte shifts are all correct ways)")
    chk.rule("B3.count", floor=6, doc="every successful path returns Ok(buf.len())")
    chk.rule("B4.errors", floor=6, doc="a failing bit-level operation becomes an io::Error (never Ok with fewer bytes)")
    for kind, e, b in bodies:
        probs, cprobs, eprobs = [], [], []
        convs = set()
        rev = False
        paths = mir.walk_inline(b, F, unroll=0)
        nok = 0
        for p in paths:
            for ev in p.calls():
                last = ev[1].split("::")[-1]
                if last in ("from_be_bytes", "from_le_bytes", "from_ne_bytes", "to_be_bytes", "to_le_bytes", "to_ne_bytes"):
                    convs.add(last.split("_")[1])
                if ev[1].endswith("Iterator::rev"):
                    rev = True
            r = p.ret
            if p.end[0] == "return" and isinstance(r, tuple) and r[0] == "agg" and r[3] == "Ok":
                nok += 1
                ex = mir.expand(r[4][0], p)
                okl = ex[0] == "app" and ex[1].endswith("::len") and mir.mentions(ex, lambda t: t[0] == "arg" and t[1] == 2)
                if not okl:
                    cprobs.append("returns Ok(%s)" % mir.fmt(r[4][0])[:50])
            # error paths: a failed read_bits/write_bits must surface as Err
            # (`x?` tests discr(try(x)), `match x { Err(..) => .. }` tests discr(x))
            fails = []
            for c in p.constraints:
                if c[0][0] == "discr" and c[1] == "==" and c[2] == 1:
                    x = c[0][1][1] if c[0][1][0] == "try" else c[0][1]
                    while isinstance(x, tuple) and x and x[0] == "maperr":
                        x = x[1]
                    if isinstance(x, tuple) and x and x[0] == "ret" and x[2].startswith("traits::bits::Bit"):
                        fails.append(x)
            if fails and p.end[0] == "return" and not (isinstance(r, tuple) and (r[0] == "from_residual" or (r[0] == "agg" and r[3] == "Err"))):
                eprobs.append("a failed operation does not end in Err")
        if convs != {e}:
            probs.append("%s stream converts with %s" % (e.upper(), sorted(convs)))

        key = "%s|%s" % ((b.get("impl_self") or "")[:60], kind)
        chk.expect("B2.byteorder", key, not probs, "%s: %s" % (b["path"], "; ".join(probs)), sample={"fn": b["path"], "conversions": sorted(convs)})
        chk.expect("B3.count", key, nok >= 1 and not cprobs, "%s: %s" % (b["path"], "; ".join(sorted(set(cprobs))) or "no Ok path"))
        chk.expect("B4.errors", key, not eprobs, "%s: %s" % (b["path"], "; ".join(sorted(set(eprobs)))))


def run_content(chk, F, tier):
    """B6: the byte views interpreted (sa/ivl.py) on buffers of every length 0..=17 (0..=40 in the thorough tier) whose bytes are
    pairwise different tokens, with write_bits / read_bits of the stream stubbed: the fields handed to write_bits, read in stream
    order (BE: most significant byte first, LE: least significant first), are exactly the bytes of the buffer in order; the bytes
    stored by read are exactly the stream bytes of the values read_bits returned, in order; both report the whole length."""
    import ivl
    from ivl import AI, Agg, Ref, Frame, Slice, Opaque, mk_variant
    chk.rule("B6.content", floor=6, doc=run_content.__doc__.strip().replace("\n    ", " "))
    chk.rule("B6.failure", floor=4, doc="the same calls with the j-th stream operation failing, for every j: the call returns an error (never Ok with a byte count), and the stream is not used after the failure")
    top = 40 if tier == "thorough" else 17
    for kind, e, b in io_bodies(F):
        probs = []
        undecided = []
        n_ok = 0
        fprobs, fundecided, n_fail = [], [], 0
        for L in range(0, top + 1):
            log = []

            def h_write_bits(it, name, args, fargs, fr, t):
                log.append((args[1], args[2]))
                return mk_variant("std::result::Result", "Ok", [args[2]])

            def h_read_bits(it, name, args, fargs, fr, t):
                n = args[1].const() if isinstance(args[1], AI) else None
                if n is None or n > 64:
                    raise ivl.Unsupported("read_bits width")
                j = len(log)
                tokbytes = [(0x20 + 8 * j + i) & 0xFF for i in range(8)]        # the stream bytes this read returns, in stream order
                k = n // 8
                bs = tokbytes[:k]
                v = 0
                for x in (bs if e == "be" else bs[::-1]):
                    v = (v << 8) | x
                log.append((bs, n))
                return mk_variant("std::result::Result", "Ok", [AI("u64", v, v)])
            it = ivl.Interp(F, 0, 0, {"traits::bits::BitWrite::write_bits": h_write_bits, "traits::bits::BitRead::read_bits": h_read_bits})
            st = Frame({"path": "buf"}, {})
            st.locals[0] = Agg("array", None, None, None, [AI("u8", (0x10 + 3 * i) & 0xFF, (0x10 + 3 * i) & 0xFF) for i in range(L)])
            sh = Frame({"path": "self"}, {})
            sh.locals[0] = Opaque("the stream")
            env = {g: g for g in b.get("generics") or []}
            try:
                r = it.call_body(b, [Ref(sh, 0, ()), Slice(Ref(st, 0, ()), 0, L)], env, 0)
            except (ivl.Unsupported, ivl.Undecided) as ex:
                # code the interpreter does not model (e.g. a path that works on the stream's own fields): not decided by this rule
                undecided.append("length %d: %s" % (L, ex))
                continue
            except ivl.Panic as ex:
                probs.append("length %d: panics: %s" % (L, ex))
                continue
            okr = isinstance(r, Agg) and r.variant == "Ok" and isinstance(r.fields[0], AI) and r.fields[0].const() == L
            buf = [x.const() if isinstance(x, AI) else None for x in st.locals[0].fields]
            if kind == "write":
                stream = []
                for v, n in log:
                    vc, nc = (v.const() if isinstance(v, AI) else None), (n.const() if isinstance(n, AI) else None)
                    if vc is None or nc is None or nc % 8 or nc > 64 or vc >> nc:
                        stream.append(None)
                        continue
                    bs = [(vc >> (8 * i)) & 0xFF for i in range(nc // 8)]
                    stream.extend(bs[::-1] if e == "be" else bs)
                good = okr and stream == buf
                if not good:
                    probs.append("length %d: returns %r and writes the stream bytes %s for the buffer %s" % (L, r, stream, buf))
            else:
                stream = [x for bs, n in log for x in bs]
                good = okr and buf == stream and all(n % 8 == 0 for _, n in log)
                if not good:
                    probs.append("length %d: returns %r and stores %s for the stream bytes %s" % (L, r, buf, stream))
            n_ok += 1 if good else 0
            # the same call with the j-th stream operation failing: the failure is reported, never a byte count
            for j in range(len(log)):
                cnt = [0]

                def failing(it, name, args, fargs, fr, t, cnt=cnt, j=j):
                    cnt[0] += 1
                    if cnt[0] - 1 == j:
                        return mk_variant("std::result::Result", "Err", [Opaque("the stream's error")])
                    if cnt[0] - 1 > j:
                        raise ivl.Unsupported("stream used after a failure")
                    w = args[2] if kind == "write" else AI("u64", 0, 0)
                    return mk_variant("std::result::Result", "Ok", [w])
                mkerr = lambda it, name, args, fargs, fr, t: Opaque("io::Error")
                it2 = ivl.Interp(F, 0, 0, {"traits::bits::BitWrite::write_bits": failing, "traits::bits::BitRead::read_bits": failing,
                                           "std::io::Error::new": mkerr, "std::io::Error::other": mkerr})
                st2 = Frame({"path": "buf"}, {})
                st2.locals[0] = Agg("array", None, None, None, [AI("u8", i, i) for i in range(L)])
                try:
                    r2 = it2.call_body(b, [Ref(sh, 0, ()), Slice(Ref(st2, 0, ()), 0, L)], env, 0)
                except (ivl.Unsupported, ivl.Undecided, ivl.Panic) as ex:
                    fundecided.append("length %d, operation %d fails: %s" % (L, j, ex))
                    continue
                n_fail += 1
                if not (isinstance(r2, Agg) and r2.variant == "Err"):
                    fprobs.append("length %d: stream operation %d fails and the call returns %r" % (L, j, r2))
        key = "%s|%s" % ((b.get("impl_self") or "")[:60], kind)
        chk.expect("B6.failure", key, not fprobs and (n_fail >= 10 or fundecided or undecided), "%s: %s" % (b["path"], "; ".join(fprobs[:3]) or "no failing run could be interpreted"),
                   detail={"problems": fprobs[:10]}, sample={"fn": b["path"], "failing_runs": n_fail, "not_decided": fundecided[:2]})
        chk.expect("B6.content", key, not probs, "%s: %s" % (b["path"], "; ".join(probs[:3])), detail={"problems": probs[:10]},
                   sample={"fn": b["path"], "lengths": "0..=%d" % top, "decided": n_ok, "not_decided": undecided[:2]})


def run_all(chk, fsets, tier):
    import facts
    for i, fs in enumerate(fsets):
        F = facts.load(fs)
        if i == 0:
            run_structural(chk, F)
            run_content(chk, F, tier)
        specs = [s for s in rn.writer_specs() + rn.reader_specs() if s.group == "io"]
        chk.rule("B1.numeric", floor=150 if i == 0 else 0,
                 doc="E3 over the six io::Read/io::Write bodies x word sizes: chunk length vs [u8; 8] conversion (try_into().unwrap()), remainder width <= 64 bits, copy_from_slice length equalities, range bounds, read_bits/write_bits widths, invariants")
        rn.run_specs(chk, F, specs, "B1.numeric", fs)
    # the byte views go through the words of the backend: every word fetched / delivered is converted for the stream's endianness
    import deps
    F0 = facts.load(fsets[0])
    deps.reader_structure(chk, F0, ("R1.endianness",), "B5.words", "every backend word the reader fetches (also on the byte path) is converted with to_be/to_le of the stream (C02)")
    deps.writer_structure(chk, F0, ("W2.endianness",), "B5.words", "every word the writer delivers is converted with to_be/to_le of the stream (C01)")
    chk.trust("rustc MIR construction and the mirx exporter")
    chk.trust("contract table: chunks_exact / remainder / try_into::<[u8;N]> / copy_from_slice / range indexing as documented by std")
    chk.trust("exact rational simplex sa/lp.py")

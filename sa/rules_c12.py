"""C12 — io::Read / io::Write views: B1 numeric obligations (E3), B2 byte-order pairing, B3 whole slice reported, B4 errors mapped."""
import mir
import rules_num as rn

BE, LE = rn.BE, rn.LE


def io_bodies(F):
    out = []
    for kind, tr, sf in (("write", "std::io::Write", "impls::buf_bit_writer::BufBitWriter<"),
                         ("read", "std::io::Read", "impls::buf_bit_reader::BufBitReader<"),
                         ("read", "std::io::Read", "impls::bit_reader::BitReader<")):
        for b in F.find(name=kind, trait_is=tr, impl_self=sf):
            if b["kind"] == "AssocFn":
                e = "be" if BE in b["impl_self"] else "le"
                out.append((kind, e, b))
    return out


def run_structural(chk, F):
    bodies = io_bodies(F)
    chk.rule("B2.byteorder", floor=6, doc="BE impls convert with from_be_bytes/to_be_bytes, LE impls with from_le_bytes/to_le_bytes (how the 1..7 remainder bytes are packed into a word is not decided: an iterator reversal, a zero-padded array or per-byte shifts are all correct ways)")
    chk.rule("B3.count", floor=6, doc="every successful path returns Ok(buf.len())")
    chk.rule("B4.errors", floor=6, doc="a failing bit-level operation becomes an io::Error (never Ok with fewer bytes)")
    for kind, e, b in bodies:
        probs, cprobs, eprobs = [], [], []
        convs = set()
        rev = False
        paths = mir.walk_inline(b, F, unroll=0)
        nok = 0
        for p in paths:
            for ev in p.calls():
                last = ev[1].split("::")[-1]
                if last in ("from_be_bytes", "from_le_bytes", "from_ne_bytes", "to_be_bytes", "to_le_bytes", "to_ne_bytes"):
                    convs.add(last.split("_")[1])
                if ev[1].endswith("Iterator::rev"):
                    rev = True
            r = p.ret
            if p.end[0] == "return" and isinstance(r, tuple) and r[0] == "agg" and r[3] == "Ok":
                nok += 1
                ex = mir.expand(r[4][0], p)
                okl = ex[0] == "app" and ex[1].endswith("::len") and mir.mentions(ex, lambda t: t[0] == "arg" and t[1] == 2)
                if not okl:
                    cprobs.append("returns Ok(%s)" % mir.fmt(r[4][0])[:50])
            # error paths: a failed read_bits/write_bits must surface as Err
            # (`x?` tests discr(try(x)), `match x { Err(..) => .. }` tests discr(x))
            fails = []
            for c in p.constraints:
                if c[0][0] == "discr" and c[1] == "==" and c[2] == 1:
                    x = c[0][1][1] if c[0][1][0] == "try" else c[0][1]
                    while isinstance(x, tuple) and x and x[0] == "maperr":
                        x = x[1]
                    if isinstance(x, tuple) and x and x[0] == "ret" and x[2].startswith("traits::bits::Bit"):
                        fails.append(x)
            if fails and p.end[0] == "return" and not (isinstance(r, tuple) and (r[0] == "from_residual" or (r[0] == "agg" and r[3] == "Err"))):
                eprobs.append("a failed operation does not end in Err")
        if convs != {e}:
            probs.append("%s stream converts with %s" % (e.upper(), sorted(convs)))

        key = "%s|%s" % ((b.get("impl_self") or "")[:60], kind)
        chk.expect("B2.byteorder", key, not probs, "%s: %s" % (b["path"], "; ".join(probs)), sample={"fn": b["path"], "conversions": sorted(convs)})
        chk.expect("B3.count", key, nok >= 1 and not cprobs, "%s: %s" % (b["path"], "; ".join(sorted(set(cprobs))) or "no Ok path"))
        chk.expect("B4.errors", key, not eprobs, "%s: %s" % (b["path"], "; ".join(sorted(set(eprobs)))))


def run_all(chk, fsets, tier):
    import facts
    for i, fs in enumerate(fsets):
        F = facts.load(fs)
        if i == 0:
            run_structural(chk, F)
        specs = [s for s in rn.writer_specs() + rn.reader_specs() if s.group == "io"]
        chk.rule("B1.numeric", floor=150 if i == 0 else 0,
                 doc="E3 over the six io::Read/io::Write bodies x word sizes: chunk length vs [u8; 8] conversion (try_into().unwrap()), remainder width <= 64 bits, copy_from_slice length equalities, range bounds, read_bits/write_bits widths, invariants")
        rn.run_specs(chk, F, specs, "B1.numeric", fs)
    # the byte views go through the words of the backend: every word fetched / delivered is converted for the stream's endianness
    import deps
    F0 = facts.load(fsets[0])
    deps.reader_structure(chk, F0, ("R1.endianness",), "B5.words", "every backend word the reader fetches (also on the byte path) is converted with to_be/to_le of the stream (C02)")
    deps.writer_structure(chk, F0, ("W2.endianness",), "B5.words", "every word the writer delivers is converted with to_be/to_le of the stream (C01)")
    chk.trust("rustc MIR construction and the mirx exporter")
    chk.trust("contract table: chunks_exact / remainder / try_into::<[u8;N]> / copy_from_slice / range indexing as documented by std")
    chk.trust("exact rational simplex sa/lp.py")

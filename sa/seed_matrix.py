#!/usr/bin/env python3
"""Run every registered check against every seeded mutant (in scratch worktrees, never in /repo) and record which checks fire.
usage: seed_matrix.py [--redo] [--own] [--jobs N] [seed ...]   -> writes /verif/seeded/MATRIX.json"""
import json, os, subprocess, sys, time
from concurrent.futures import ThreadPoolExecutor
HERE = os.path.dirname(os.path.abspath(__file__))
VERIF = os.path.dirname(HERE)
sys.path.insert(0, HERE)
import registry


OWN_ONLY = "--own" in sys.argv          # only the check of the property the seed was aimed at


def sh(cmd, **kw):
    return subprocess.run(cmd, shell=True, stdout=subprocess.PIPE, stderr=subprocess.STDOUT, text=True, **kw)


def run_seed(sd, slot):
    wt, cache, ev = "/tmp/matrix-repo-%d" % slot, "/tmp/matrix-cache-%d" % slot, "/tmp/matrix-evidence-%d" % slot
    env = dict(os.environ, VERIF_REPO=wt, VERIF_CACHE=cache, VERIF_EVIDENCE=ev)
    patch = os.path.join(VERIF, "seeded", sd, "patch.diff")
    sh("git -C %s checkout -q -- . && git -C %s clean -fdq" % (wt, wt))
    r = sh("git -C %s apply --whitespace=nowarn %s" % (wt, patch))
    if r.returncode:
        return sd, {"applies": False, "note": r.stdout.strip()[:200]}
    fired = {}
    t0 = time.time()
    for pid in (sorted(registry.CHECKS) if not OWN_ONLY else [sd[:3]]):
        r = subprocess.run([os.path.join(VERIF, "check"), pid], env=env, cwd=VERIF, stdout=subprocess.PIPE, stderr=subprocess.STDOUT, text=True)
        rules = sorted({l.split("rule=")[1].split(" ")[0] for l in r.stdout.splitlines() if l.strip().startswith("rule=")})
        if rules:
            fired[pid] = rules
    return sd, {"applies": True, "fired": fired, "own_property_fires": sd[:3] in fired, "secs": round(time.time() - t0)}


def main():
    args = [a for a in sys.argv[1:] if not a.startswith("--")]
    jobs = 4
    if "--jobs" in sys.argv:
        jobs = int(sys.argv[sys.argv.index("--jobs") + 1])
        args = [a for a in args if a != str(jobs)]
    seeds = args or sorted(d for d in os.listdir(os.path.join(VERIF, "seeded")) if os.path.isdir(os.path.join(VERIF, "seeded", d)))
    out_p = os.path.join(VERIF, "seeded", "MATRIX.json")
    matrix = json.load(open(out_p)) if os.path.exists(out_p) and "--redo" not in sys.argv else {}
    seeds = [s for s in seeds if not (s in matrix and matrix[s].get("applies"))] if "--redo" not in sys.argv else seeds
    for i in range(jobs):
        sh("git -C /repo worktree remove --force /tmp/matrix-repo-%d" % i)
        r = sh("git -C /repo worktree add -q --detach /tmp/matrix-repo-%d HEAD" % i)
        if r.returncode:
            print(r.stdout); return 1
    import queue
    slots = queue.Queue()
    for i in range(jobs):
        slots.put(i)

    def work(sd):
        slot = slots.get()
        try:
            return run_seed(sd, slot)
        finally:
            slots.put(slot)
    try:
        with ThreadPoolExecutor(jobs) as ex:
            for sd, res in ex.map(work, seeds):
                matrix[sd] = res
                print(sd, {k: v[:3] for k, v in res.get("fired", {}).items()} if res.get("applies") else "DOES NOT APPLY", flush=True)
                json.dump(matrix, open(out_p, "w"), indent=1, sort_keys=True)
    finally:
        for i in range(jobs):
            sh("git -C /repo worktree remove --force /tmp/matrix-repo-%d" % i)
            sh("rm -rf /tmp/matrix-cache-%d /tmp/matrix-evidence-%d" % (i, i))
    return 0


if __name__ == "__main__":
    sys.exit(main())

#!/usr/bin/env python3
"""Run every registered check against every seeded mutant (in a scratch worktree, never in /repo) and record which checks fire.
usage: seed_matrix.py [seed ...]   -> writes /verif/seeded/MATRIX.json"""
import json, os, subprocess, sys, time
HERE = os.path.dirname(os.path.abspath(__file__))
VERIF = os.path.dirname(HERE)
sys.path.insert(0, HERE)
import registry

WT = "/tmp/matrix-repo"
CACHE = "/tmp/matrix-cache"


def sh(cmd, **kw):
    return subprocess.run(cmd, shell=True, stdout=subprocess.PIPE, stderr=subprocess.STDOUT, text=True, **kw)


def main():
    seeds = [a for a in sys.argv[1:] if not a.startswith("--")] or sorted(d for d in os.listdir(os.path.join(VERIF, "seeded")) if os.path.isdir(os.path.join(VERIF, "seeded", d)))
    sh("git -C /repo worktree remove --force %s" % WT)
    r = sh("git -C /repo worktree add -q --detach %s HEAD" % WT)
    if r.returncode:
        print(r.stdout); return 1
    env = dict(os.environ, VERIF_REPO=WT, VERIF_CACHE=CACHE, VERIF_EVIDENCE="/tmp/matrix-evidence")
    out_p = os.path.join(VERIF, "seeded", "MATRIX.json")
    matrix = json.load(open(out_p)) if os.path.exists(out_p) else {}
    try:
        for sd in seeds:
            if sd in matrix and matrix[sd].get("applies") and "--redo" not in sys.argv:
                continue
            patch = os.path.join(VERIF, "seeded", sd, "patch.diff")
            sh("git -C %s checkout -q -- . && git -C %s clean -fdq" % (WT, WT))
            r = sh("git -C %s apply --whitespace=nowarn %s" % (WT, patch))
            if r.returncode:
                matrix[sd] = {"applies": False, "note": r.stdout.strip()[:200]}
                print(sd, "DOES NOT APPLY"); continue
            fired = {}
            t0 = time.time()
            for pid in sorted(registry.CHECKS):
                r = subprocess.run([os.path.join(VERIF, "check"), pid], env=env, cwd=VERIF, stdout=subprocess.PIPE, stderr=subprocess.STDOUT, text=True)
                rules = sorted({l.split("rule=")[1].split(" ")[0] for l in r.stdout.splitlines() if l.strip().startswith("rule=")})
                if rules:
                    fired[pid] = rules
            matrix[sd] = {"applies": True, "fired": fired, "own_property_fires": sd[:3] in fired, "secs": round(time.time() - t0)}
            print(sd, {k: v[:3] for k, v in fired.items()}, flush=True)
            json.dump(matrix, open(out_p, "w"), indent=1, sort_keys=True)
    finally:
        sh("git -C /repo worktree remove --force %s" % WT)
        sh("rm -rf %s /tmp/matrix-evidence" % CACHE)
    return 0


if __name__ == "__main__":
    sys.exit(main())

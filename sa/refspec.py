"""Documented codeword structure of the codes as *field lists over a cell of values* (independent of the library code,
written from the module documentation: src/codes/mod.rs, gamma.rs, delta.rs, zeta.rs, pi.rs, omega.rs, rice.rs,
minimal_binary.rs).  Companion of refcodes.py (bit-level definitions for single values).

A field is
    ("U", v)                 the unary code of the constant v
    ("B", val, w)            a w-bit field whose value is `val` modulo 2^w, where val is
         ("aff", a, b)          a*n + b                      (n = the value being coded)
         ("shr", a, b, k)       (a*n + b) >> k               ("low", a, b, k)   (a*n + b) mod 2^k
`fields(code, e, params, y0, y1)` returns the list for all n in [y0, y1], or None when the structure (some width, some
unary part, a minimal-binary branch) is not the same for all n of the cell — the caller then splits the cell.
"""
import refcodes as rc


EXEMPT = "exempt"


def ilog2(x):
    return x.bit_length() - 1


def const_fields(code, e, params, v):
    """fields of the codeword of the constant v (values made constant: a nested code does not depend on n)"""
    r = fields(code, e, params, v, v)
    assert r is not None
    return [f if f[0] == "U" else ("B", ("aff", 0, value_at(f[1], v) & ((1 << f[2]) - 1)), f[2]) for f in r]


def gamma(e, y0, y1):
    lam = ilog2(y0 + 1)
    if ilog2(y1 + 1) != lam:
        return None
    return [("U", lam), ("B", ("aff", 1, 1 - (1 << lam)), lam)]


def delta(e, y0, y1):
    lam = ilog2(y0 + 1)
    if ilog2(y1 + 1) != lam:
        return None
    return const_fields("gamma", e, (), lam) + [("B", ("aff", 1, 1 - (1 << lam)), lam)]


def minimal_binary(e, u, a, b, x0, x1):
    """fields of the minimal binary code with upper bound u of x = a*n + b, x in [x0, x1] (both < u)"""
    s = (u - 1).bit_length()            # ceil(log2 u)
    t = (1 << s) - u
    if t == 0:
        # u a power of two: every word is the plain s-bit representation; the library emits it as s-bit field when
        # x < limit = 2^(l+1) - u = u with l = s  (ilog2(u) = s)
        return [("B", ("aff", a, b), s)]
    if x1 < t:
        return [("B", ("aff", a, b), s - 1)]
    if x0 >= t:
        # x - u + 2^s in s bits, emitted as the (s-1)-bit prefix followed by the last bit
        c = b - u + (1 << s)
        return [("B", ("shr", a, c, 1), s - 1), ("B", ("low", a, c, 1), 1)]
    return None


def zeta(e, k, y0, y1):
    lam = ilog2(y0 + 1)
    if ilog2(y1 + 1) != lam:
        return None
    h = lam // k
    if (h + 1) * k > 64:
        # the property (C04) and the library document the code only where the interval bound 2^((h+1)k) is representable;
        # beyond, the library truncates the last interval at 2^64
        return EXEMPT
    lo = 1 << (h * k)
    hi = 1 << ((h + 1) * k)
    mb = minimal_binary(e, hi - lo, 1, 1 - lo, y0 + 1 - lo, y1 + 1 - lo)
    if mb is None:
        return None
    return [("U", h)] + mb


def rice_const(e, k, v):
    return [("U", v >> k), ("B", ("aff", 0, v & ((1 << k) - 1)), k)]


def pi(e, k, y0, y1):
    lam = ilog2(y0 + 1)
    if ilog2(y1 + 1) != lam:
        return None
    return rice_const(e, k, lam) + [("B", ("aff", 1, 1 - (1 << lam)), lam)]


def omega(e, y0, y1):
    """omega.rs: blocks b0 b1 ... bn `0`; each block is the binary representation (leading one included) of the length of
    the next block minus one; the last block is n + 1.  Little-endian: every block rotated left by one."""
    lam = ilog2(y0 + 1)
    if ilog2(y1 + 1) != lam:
        return None

    def blocks(N):
        # constant N
        if N <= 1:
            return []
        l = ilog2(N)
        v = N if e == "be" else (((N << 1) | 1) & ((1 << (l + 1)) - 1))
        return blocks(l) + [("B", ("aff", 0, v), l + 1)]
    if y1 + 1 <= 1:
        return [("B", ("aff", 0, 0), 1)]
    last = ("aff", 1, 1) if e == "be" else ("aff", 2, 3)      # N = n+1; LE: (N << 1) | 1 = 2n + 3 (mod 2^(lam+1))
    return blocks(lam) + [("B", last, lam + 1), ("B", ("aff", 0, 0), 1)]


def fields(code, e, params, y0, y1):
    if code == "gamma":
        return gamma(e, y0, y1)
    if code == "delta":
        return delta(e, y0, y1)
    if code == "zeta":
        return zeta(e, params[0], y0, y1)
    if code == "pi":
        return pi(e, params[0], y0, y1)
    if code == "omega":
        return omega(e, y0, y1)
    if code == "minimal_binary":
        u = params[0]
        if y1 >= u:
            return None
        return minimal_binary(e, u, 1, 0, y0, y1)
    raise KeyError(code)


# ---- evaluation at a single value (used to cross-check this file against refcodes.py and the documented examples) ----
def value_at(val, n):
    k = val[0]
    if k == "aff":
        return val[1] * n + val[2]
    if k == "shr":
        return (val[1] * n + val[2]) >> val[3]
    if k == "low":
        return (val[1] * n + val[2]) & ((1 << val[3]) - 1)
    raise KeyError(k)


def bits_at(fl, e, n):
    """stream-order bits of a field list at the value n (conventions of refcodes.py)"""
    out = []
    for f in fl:
        if f[0] == "U":
            out += rc.unary(f[1])
        else:
            w = f[2]
            out += rc.field(e, value_at(f[1], n) & ((1 << w) - 1), w) if w else []
    return out


def self_check():
    """this file agrees with the bit-level definitions of refcodes.py at sample values and with the documented examples;
    returns a list of problems"""
    probs = []
    samples = list(range(0, 300)) + [(1 << i) + d for i in range(8, 64) for d in (-2, -1, 0, 1)] + [(1 << 64) - 2]
    for e in ("be", "le"):
        for n in samples:
            for code, params, ref in (("gamma", (), lambda: rc.gamma(e, n)), ("delta", (), lambda: rc.delta(e, n))) + tuple(
                    (("zeta", (k,), (lambda k=k: rc.zeta(e, n, k))) for k in (1, 2, 3, 5, 8))):
                if code == "zeta" and n + 1 >= 1 << 63:
                    continue
                fl = fields(code, e, params, n, n)
                if fl == EXEMPT:
                    continue
                if fl is None or bits_at(fl, e, n) != ref():
                    probs.append("%s%s(%d) %s" % (code, params, n, e))
        for u in list(range(1, 70)) + [1000, (1 << 20) + 3]:
            for x in sorted({0, 1, u // 2, max(0, u - 2), u - 1}):
                if x < u:
                    fl = fields("minimal_binary", e, (u,), x, x)
                    if fl is None or bits_at(fl, e, x) != rc.minimal_binary(e, x, u):
                        probs.append("minimal_binary(%d,%d) %s" % (x, u, e))
    # documented examples (omega.rs header): 10 is 1110010 (BE) and 0011111 (LE); pi.rs: len examples
    s = lambda bits: "".join(map(str, bits))
    # (the header prints the big-endian string as 1110010, which is not the concatenation of the blocks it lists; the blocks
    # 11 | 1011 | 0 are the definition)
    if s(bits_at(fields("omega", "be", (), 10, 10), "be", 10)) != "11" + "1011" + "0":
        probs.append("omega be doc example")
    # LE blocks are emitted LSB first: blocks 11 | 0111 | 0 -> stream 11 1110 0 reversed per field
    le = fields("omega", "le", (), 10, 10)
    if [(f[2], value_at(f[1], 10) & ((1 << f[2]) - 1)) for f in le] != [(2, 0b11), (4, 0b0111), (1, 0)]:
        probs.append("omega le doc example")
    for (n, k, l) in ((0, 0, 1), (1, 0, 3), (3, 0, 5), (7, 0, 7), (0, 1, 2), (1, 1, 3), (3, 1, 5), (5, 3, 6), (7, 3, 7)):
        fl = fields("pi", "be", (k,), n, n)
        if len(bits_at(fl, "be", n)) != l:
            probs.append("pi len doc example %s" % ((n, k, l),))
    return probs

#!/usr/bin/env python3
"""Regenerate MANIFEST.json from sa/registry.py (claimed checks) and NOT_APPLICABLE."""
import json, os, sys
HERE = os.path.dirname(os.path.abspath(__file__))
sys.path.insert(0, HERE)
import registry

VERIF = os.path.dirname(HERE)
props = [json.loads(l) for l in open(os.path.join(VERIF, "properties.jsonl"))]
checks = []
na = []
for p in props:
    pid = p["id"]
    if pid in registry.CHECKS:
        s = registry.CHECKS[pid]
        checks.append({
            "property_id": pid,
            "quick_cmd": "./check %s --tier quick" % pid,
            "thorough_cmd": "./check %s --tier thorough" % pid,
            "evidence_file": "/verif/evidence/%s.json" % pid,
            "replay_cmd_template": "./check %s --replay {path}" % pid,
            "engine": s.get("engine", "mirx+sa"),
            "level_claimed": {"category": s["level"], "text": s["claim"], "design_ref": s.get("design_ref", "DESIGN.md section 5 " + pid)},
            "level_note": s["note"],
            "technique": s["technique"],
        })
    else:
        na.append({"property_id": pid, "reason": registry.NOT_APPLICABLE.get(pid, "check not built yet; not claimed")})
m = {
    "version": 1,
    "setup_cmd": "cd /verif && ./setup.sh",
    "hooks": {"guard": "dsi_bitstream_verif",
              "enable": "no hooks: the analysis consumes rustc's own MIR of the unmodified crate (cargo +nightly check with RUSTC_WORKSPACE_WRAPPER=mirx)",
              "baseline_off_cmd": "cd /repo && cargo test --workspace --no-fail-fast --offline",
              "source_commits": [], "add_only": True},
    "engines": [
        {"name": "mirx", "path": "/verif/mirx", "serves_properties": sorted(registry.CHECKS), "kind_free_text": "rustc_private MIR/const/ADT fact exporter (nightly), run as RUSTC_WORKSPACE_WRAPPER; no library code is executed"},
        {"name": "sa", "path": "/verif/sa", "serves_properties": sorted(registry.CHECKS), "kind_free_text": "Python rule library over exported facts: CFG path/decision-tree extraction with def-use term resolution, table validation against reference definitions, abstract interpretation (affine forms + linear inequalities)"},
    ],
    "checks": checks,
    "notes": "Static analysis only (no execution of library code, no solver). See DESIGN.md. Known findings: /verif/known_findings.json.",
    "not_applicable": na,
}
json.dump(m, open(os.path.join(VERIF, "MANIFEST.json"), "w"), indent=1)
print("claimed:", [c["property_id"] for c in checks])

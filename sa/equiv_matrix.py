#!/usr/bin/env python3
"""Run every registered quick check against behaviour-preserving refactorings (/verif/equiv/<id>/patch.diff) in scratch worktrees.
Every rule that fires is a false alarm to look at.  usage: equiv_matrix.py [--jobs N] [id ...]  -> /verif/equiv/EQUIV.json"""
import json, os, subprocess, sys, time, queue
from concurrent.futures import ThreadPoolExecutor
HERE = os.path.dirname(os.path.abspath(__file__))
VERIF = os.path.dirname(HERE)
sys.path.insert(0, HERE)
import registry


def sh(cmd):
    return subprocess.run(cmd, shell=True, stdout=subprocess.PIPE, stderr=subprocess.STDOUT, text=True)


def run_one(eid, slot):
    wt, cache, ev = "/tmp/equiv-repo-%d" % slot, "/tmp/equiv-cache-%d" % slot, "/tmp/equiv-evidence-%d" % slot
    env = dict(os.environ, VERIF_REPO=wt, VERIF_CACHE=cache, VERIF_EVIDENCE=ev)
    sh("git -C %s checkout -q -- . && git -C %s clean -fdq" % (wt, wt))
    r = sh("git -C %s apply --whitespace=nowarn %s" % (wt, os.path.join(VERIF, "equiv", eid, "patch.diff")))
    if r.returncode:
        return eid, {"applies": False, "note": r.stdout.strip()[:200]}
    fired = {}
    for pid in sorted(registry.CHECKS):
        r = subprocess.run([os.path.join(VERIF, "check"), pid], env=env, cwd=VERIF, stdout=subprocess.PIPE, stderr=subprocess.STDOUT, text=True)
        lines = r.stdout.splitlines()
        keys = [l.split("key=")[1].strip() for l in lines if l.strip().startswith("rule=") and "key=" in l]
        if keys:
            fired[pid] = keys[:12]
    return eid, {"applies": True, "fired": fired}


def main():
    args = [a for a in sys.argv[1:] if not a.startswith("--")]
    jobs = 4
    if "--jobs" in sys.argv:
        jobs = int(sys.argv[sys.argv.index("--jobs") + 1])
        args = [a for a in args if a != str(jobs)]
    ids = args or sorted(d for d in os.listdir(os.path.join(VERIF, "equiv")) if os.path.isdir(os.path.join(VERIF, "equiv", d)))
    out_p = os.path.join(VERIF, "equiv", "EQUIV.json")
    res = json.load(open(out_p)) if os.path.exists(out_p) else {}
    for i in range(jobs):
        sh("git -C /repo worktree remove --force /tmp/equiv-repo-%d" % i)
        sh("git -C /repo worktree add -q --detach /tmp/equiv-repo-%d HEAD" % i)
    slots = queue.Queue()
    for i in range(jobs):
        slots.put(i)

    def work(eid):
        s = slots.get()
        try:
            return run_one(eid, s)
        finally:
            slots.put(s)
    try:
        with ThreadPoolExecutor(jobs) as ex:
            for eid, r in ex.map(work, ids):
                res[eid] = r
                print(eid, r.get("fired") if r.get("applies") else "DOES NOT APPLY", flush=True)
                json.dump(res, open(out_p, "w"), indent=1, sort_keys=True)
    finally:
        for i in range(jobs):
            sh("git -C /repo worktree remove --force /tmp/equiv-repo-%d" % i)
            sh("rm -rf /tmp/equiv-cache-%d /tmp/equiv-evidence-%d" % (i, i))
    return 0


if __name__ == "__main__":
    sys.exit(main())

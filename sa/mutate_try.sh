#!/bin/sh
# usage: mutate_try.sh <check ids, comma separated> <file> <sed-expr>  — apply a sed edit to /repo, run checks, revert
ids=$1; f=$2; expr=$3
cd /repo || exit 2
if [ -n "$(git status --porcelain -- src Cargo.toml)" ]; then echo "repo dirty"; exit 2; fi
sed -i "$expr" "$f"
if [ -z "$(git diff --stat)" ]; then echo "NO-CHANGE"; exit 3; fi
git diff | grep '^[+-]' | grep -v '^+++\|^---' | head -6
for id in $(echo $ids | tr , ' '); do
  (cd /verif && ./check $id 2>/dev/null | grep -E "^VIOLATION|^  rule=|^C[0-9]+ quick" | head -8)
done
git checkout -- src Cargo.toml

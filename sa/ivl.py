"""E7 — value-partition abstract interpreter over exported MIR (DESIGN.md section 0.3).

Decides clauses that quantify over *all* values of an integer argument by abstract interpretation, never by running
the library: the argument ranges over a cell [y0, y1] of a partition of its whole domain; every integer is abstracted by

    bounds   lo <= v <= hi                      (sound for every y in the cell)
    dir      'c' constant | 'up' non-decreasing in y | 'down' non-increasing | None
             (for 'up'/'down' the bounds are the exact values at the two ends of the cell)
    aff      (a, b): the bit pattern of v is a*y + b modulo 2^width, for every y of the cell (or None)

A branch whose condition is not constant over the cell raises Undecided and the driver splits the cell (bisection);
a construct outside the interpreter raises Unsupported and the rule using it fails closed.  The union of the cells is
the whole domain, so a fact established on every cell holds for every value — 2^64 of them, not a sample.
"""
import re

TY = {"u8": (8, False), "u16": (16, False), "u32": (32, False), "u64": (64, False), "u128": (128, False), "usize": (64, False),
      "i8": (8, True), "i16": (16, True), "i32": (32, True), "i64": (64, True), "i128": (128, True), "isize": (64, True),
      "bool": (1, False), "char": (32, False)}


class Undecided(Exception):
    pass


class Unsupported(Exception):
    pass


class Panic(Exception):
    pass


def tmin(ty):
    w, s = TY[ty]
    return -(1 << (w - 1)) if s else 0


def tmax(ty):
    w, s = TY[ty]
    return (1 << (w - 1)) - 1 if s else (1 << w) - 1


class AI:
    """abstract integer (see module doc)"""
    __slots__ = ("ty", "lo", "hi", "dir", "aff", "tag")

    def __init__(self, ty, lo, hi, dir=None, aff=None, tag=None):
        self.ty, self.lo, self.hi, self.dir, self.aff = ty, lo, hi, dir, aff
        self.tag = tag          # ("shr" | "low", a, b, k): this value is (a*y+b) >> k  /  (a*y+b) mod 2^k of an exact source
        if lo == hi:
            self.dir = "c"
            self.aff = (0, lo)

    def const(self):
        return self.lo if self.lo == self.hi else None

    def __repr__(self):
        if self.lo == self.hi:
            return "%s:%d" % (self.ty, self.lo)
        return "%s:[%d,%d]%s%s" % (self.ty, self.lo, self.hi, {"up": "^", "down": "v", None: "?", "c": ""}[self.dir],
                                   (" aff%s" % (self.aff,)) if self.aff else "")


def flip(d):
    return {"up": "down", "down": "up"}.get(d, d)


def join_dir(a, b):
    """direction of a sum of two values"""
    if a == "c":
        return b
    if b == "c":
        return a
    return a if a == b else None


def trunc_div(a, b):
    q = abs(a) // abs(b)
    return q if (a >= 0) == (b > 0) else -q


class Ref:
    __slots__ = ("frame", "local", "proj")

    def __init__(self, frame, local, proj=()):
        self.frame, self.local, self.proj = frame, local, tuple(proj)

    def __repr__(self):
        return "&%d._%d%s" % (id(self.frame) % 1000, self.local, list(self.proj))


class Agg:
    """tuple / ADT / array value"""
    __slots__ = ("kind", "name", "variant", "vidx", "fields")

    def __init__(self, kind, name, variant, vidx, fields):
        self.kind, self.name, self.variant, self.vidx, self.fields = kind, name, variant, vidx, list(fields)

    def __repr__(self):
        if self.kind == "closure":
            return "closure %s%s" % (self.name, self.fields)
        return "%s%s" % (self.variant or self.kind, self.fields)


class Slice:
    """&[T] into an array place"""
    __slots__ = ("ref", "start", "end")

    def __init__(self, ref, start, end):
        self.ref, self.start, self.end = ref, start, end


class Opaque:
    """a value the interpreter does not look into (stream handles, errors, unit)"""
    __slots__ = ("what",)

    def __init__(self, what):
        self.what = what

    def __repr__(self):
        return "<%s>" % (self.what,)


UNIT = Opaque("unit")
VARIANTS = {"Option": ["None", "Some"], "Result": ["Ok", "Err"], "ControlFlow": ["Continue", "Break"]}


def mk_variant(adt, variant, fields):
    short = adt.split("::")[-1]
    return Agg("adt", adt, variant, VARIANTS[short].index(variant), fields)


TABLES = {}


class Sym:
    """a value the interpreter does not compute with but keeps as an expression over the values it was built from (floating
    point results): rules compare the expression, never a number"""
    __slots__ = ("expr",)

    def __init__(self, expr):
        self.expr = expr

    def __repr__(self):
        return "<sym %r>" % (self.expr,)


class PyIter:
    """an iterator value of std (slice iterators, ranges and the adaptors over them): `step(it)` yields the next item or raises
    StopIteration.  Adaptors are modelled by their documented behaviour; closures are applied through Interp.apply_callable."""

    def __init__(self, kind, parts):
        self.kind, self.parts = kind, parts

    def __repr__(self):
        return "<iter %s>" % self.kind

    def step(self, it, fr, t, depth):
        k, p = self.kind, self.parts
        if k == "slice":            # [array Ref, start, end, pos, reversed]
            ref, start, end = p[0], p[1], p[2]
            if p[3] >= end - start:
                raise StopIteration
            i = (end - 1 - p[3]) if p[4] else (start + p[3])
            p[3] += 1
            return Ref(ref.frame, ref.local, list(ref.proj) + [{"const_index": i}])
        if k == "chunks":           # [array Ref, start, end, size, exact]
            ref, start, end, size, exact = p
            if start >= end or (exact and end - start < size):
                raise StopIteration
            hi = min(start + size, end)
            p[1] = hi
            return Slice(ref, start, hi)
        if k == "values":           # [list, pos]
            if p[1] >= len(p[0]):
                raise StopIteration
            p[1] += 1
            return p[0][p[1] - 1]
        if k == "range":            # [cur AI, end AI | None, ty]
            cur, end = p[0], p[1]
            if end is not None:
                lt = it.compare("Lt", cur, end).const()
                if lt is None:
                    raise Undecided("range iteration bound")
                if not lt:
                    raise StopIteration
            p[0] = it.arith("Add", cur, AI(cur.ty, 1, 1), cur.ty)
            return cur
        if k == "enumerate":        # [inner, count]
            x = p[0].step(it, fr, t, depth)
            p[1] += 1
            return Agg("tuple", None, None, None, [AI("usize", p[1] - 1, p[1] - 1), x])
        if k == "zip":
            a = p[0].step(it, fr, t, depth)
            b = p[1].step(it, fr, t, depth)
            return Agg("tuple", None, None, None, [a, b])
        if k == "map":
            x = p[0].step(it, fr, t, depth)
            return it.apply_callable(p[1], [x], fr, t, depth)
        if k == "chain":
            if not p[2]:
                try:
                    return p[0].step(it, fr, t, depth)
                except StopIteration:
                    p[2] = True
            return p[1].step(it, fr, t, depth)
        if k == "copied":
            x = p[0].step(it, fr, t, depth)
            for _ in range(4):
                if isinstance(x, Ref):
                    x = it.project(x.frame, x.frame.locals.get(x.local), x.proj)
            return x
        if k == "take":
            if p[1] <= 0:
                raise StopIteration
            p[1] -= 1
            return p[0].step(it, fr, t, depth)
        if k == "take_while":
            if p[2]:
                raise StopIteration
            x = p[0].step(it, fr, t, depth)
            holder = Frame({"path": "<item>", "locals": []}, {})
            holder.locals[0] = x
            keep = it.apply_callable(p[1], [Ref(holder, 0, [])], fr, t, depth)
            c = keep.const() if isinstance(keep, AI) else None
            if c is None:
                raise Undecided("take_while predicate")
            if not c:
                p[2] = True
                raise StopIteration
            return x
        if k == "map_while":
            if p[2]:
                raise StopIteration
            x = p[0].step(it, fr, t, depth)
            r = it.apply_callable(p[1], [x], fr, t, depth)
            if isinstance(r, Agg) and r.variant == "Some":
                return r.fields[0]
            if isinstance(r, Agg) and r.variant == "None":
                p[2] = True
                raise StopIteration
            raise Undecided("map_while result")
        if k == "step_by":
            if not p[2]:
                for _ in range(p[1] - 1):
                    p[0].step(it, fr, t, depth)
            p[2] = False
            return p[0].step(it, fr, t, depth)
        if k == "filter":
            while True:
                x = p[0].step(it, fr, t, depth)
                holder = Frame({"path": "<item>", "locals": []}, {})
                holder.locals[0] = x
                keep = it.apply_callable(p[1], [Ref(holder, 0, [])], fr, t, depth)
                c = keep.const() if isinstance(keep, AI) else None
                if c is None:
                    raise Undecided("filter predicate")
                if c:
                    return x
        if k == "once":
            if p[1]:
                raise StopIteration
            p[1] = True
            return p[0]
        raise Unsupported("iterator %s" % k)


class Frame:
    def __init__(self, body, env):
        self.body = body
        self.locals = {}
        self.env = env      # generic parameter name -> python value (int/bool) or type name


class Interp:
    def __init__(self, F, y0, y1, handlers=None, max_steps=200000, max_depth=40):
        self.F = F
        self.y0, self.y1 = y0, y1
        self.handlers = handlers or {}
        self.events = []
        self.steps = 0
        self.max_steps = max_steps
        self.max_depth = max_depth
        self.trace = []          # branch decisions: the control path signature of the cell

    # ---- construction ------------------------------------------------------
    def const(self, ty, v):
        return AI(ty, v, v)

    def top(self, ty, aff=None):
        return AI(ty, tmin(ty), tmax(ty), None, aff)

    def input(self, ty, a=1, b=0):
        """the abstract value a*y + b of the cell variable"""
        return self.from_aff(ty, a, b)

    def from_aff(self, ty, a, b):
        w = TY[ty][0]
        # the value is a*y + b modulo 2^w: any representative of the slope modulo 2^w describes it (254*y = -2*y in eight bits)
        am = a % (1 << w)
        for aa in ((a,) if abs(a) < (1 << (w - 1)) else ()) + (am, am - (1 << w)):
            m0, m1 = aa * self.y0 + b, aa * self.y1 + b
            lo, hi = min(m0, m1), max(m0, m1)
            k = (lo - tmin(ty)) >> w
            if hi - (k << w) <= tmax(ty):
                bb = b - (k << w)
                return AI(ty, lo - (k << w), hi - (k << w), "up" if aa > 0 else "down" if aa < 0 else "c", (aa, bb))
        return self.top(ty, (a % (1 << w), b % (1 << w)))

    def norm(self, ty, lo, hi, dir=None, aff=None):
        """bring a mathematical range back into the type (wrapping semantics); keeps precision when the whole range
        wraps by the same multiple of 2^w"""
        if aff is not None:
            r = self.from_aff(ty, aff[0], aff[1])
            if r.dir is not None:
                return r
            aff = r.aff
        w = TY[ty][0]
        if lo >= tmin(ty) and hi <= tmax(ty):
            return AI(ty, lo, hi, dir, aff)
        k = (lo - tmin(ty)) >> w
        if hi - (k << w) <= tmax(ty):
            return AI(ty, lo - (k << w), hi - (k << w), dir, aff)
        return self.top(ty, aff)

    def exact(self, v):
        """aff describes the typed value itself (no wrap) over the cell"""
        return v.aff is not None and v.dir is not None

    # ---- bit fields of an affine source -----------------------------------------------
    # fld = (a, b, k, w, p, C): the value C + ((((a*y + b) >> k) mod 2^w) << p), w None = no truncation, a*y + b >= 0 on the cell.
    # Shift-and-mask code (base-128 digits and the like) moves such fields around; adjacent fields of sources that agree on
    # the bits involved merge back, and a field that starts at bit 0 and is not truncated IS the affine source.
    def as_fld(self, x):
        if not isinstance(x, AI) or x.ty == "bool" or x.lo < 0:
            return None
        t = x.tag
        if t and t[0] == "fld":
            return t[1:]
        if x.const() is not None:
            return None
        if self.exact(x) and x.aff[0] > 0:
            return (x.aff[0], x.aff[1], 0, None, 0, 0)
        if t and t[0] == "shr" and t[1] > 0:
            return (t[1], t[2], t[3], None, 0, 0)
        if t and t[0] == "low" and t[1] > 0:
            return (t[1], t[2], 0, t[3], 0, 0)
        if t and t[0] == "hi" and t[1] > 0:
            return (t[1], t[2], t[3], None, t[3], 0)
        return None

    def mk_fld(self, ty, f):
        a, b, k, w, p, C = f
        if a <= 0 or k < 0 or p < 0 or (w is not None and w <= 0):
            return None
        s0, s1 = a * self.y0 + b, a * self.y1 + b
        if s0 < 0:
            return None
        if w is not None:
            # the field depends on the source only modulo 2^(k+w): the smallest non-negative representative
            b -= (s0 >> (k + w)) << (k + w)
            s0, s1 = a * self.y0 + b, a * self.y1 + b
        q0, q1 = s0 >> k, s1 >> k
        if w is not None and q1 < (1 << w):
            w = None
        if w is None and p == 0 and C:
            b += C << k
            C = 0
            s0, s1 = a * self.y0 + b, a * self.y1 + b
            if s0 < 0:
                return None
            q0, q1 = s0 >> k, s1 >> k
        if w is None:
            v0, v1, d = q0, q1, "up"
        elif (q0 >> w) == (q1 >> w):
            v0, v1, d = q0 % (1 << w), q1 % (1 << w), "up"
        else:
            v0, v1, d = 0, (1 << w) - 1, None
        lo, hi = C + (v0 << p), C + (v1 << p)
        if lo < tmin(ty) or hi > tmax(ty):
            return None
        if w is None and k == 0 and p == 0:
            return self.from_aff(ty, a, b)
        if lo == hi:
            return AI(ty, lo, hi)
        return AI(ty, lo, hi, d, None, ("fld", a, b, k, w, p, C))

    def fld_op(self, op, x, y, ty):
        """result of `x op y` as a field value, or None"""
        fx, fy = self.as_fld(x), self.as_fld(y)
        cx, cy = (x.const() if isinstance(x, AI) else None), (y.const() if isinstance(y, AI) else None)
        if fx is not None and fy is not None and op in ("Add", "BitOr"):
            if fx[0] != fy[0]:
                return None
            lo_f, up_f = (fx, fy) if fx[4] <= fy[4] else (fy, fx)
            a, bl, kl, wl, pl, Cl = lo_f
            _, bu, ku, wu, pu, Cu = up_f
            if wl is None or pu != pl + wl or ku != kl + wl or (bl - bu) % (1 << (kl + wl)):
                return None
            if op == "BitOr" and (Cl or Cu):
                return None
            return self.mk_fld(ty, (a, bu, kl, (wl + wu) if wu is not None else None, pl, Cl + Cu))
        if fx is None and fy is not None and cx is not None and op in ("Add", "BitOr"):
            fx, cy, x, y = fy, cx, y, x
            fy = None
        if fx is None or cy is None or cy < 0:
            return None
        a, b, k, w, p, C = fx
        if op == "Add":
            return self.mk_fld(ty, (a, b, k, w, p, C + cy))
        if op == "Sub":
            if w is None and p == 0:
                return self.mk_fld(ty, (a, b - (cy << k), k, None, 0, C))
            return self.mk_fld(ty, (a, b, k, w, p, C - cy)) if C >= cy else None
        if op == "BitOr":
            m = x.hi.bit_length()
            if cy % (1 << m) == 0:
                return self.mk_fld(ty, (a, b, k, w, p, C + cy))
            return None
        if op == "BitAnd":
            if cy & (cy + 1):
                return None
            m = cy.bit_length()
            if C % (1 << m) or p != 0:
                return None
            if m == 0:
                return AI(ty, 0, 0)
            return self.mk_fld(ty, (a, b, k, m if w is None else min(w, m), 0, 0))
        if op == "Shr":
            if C % (1 << cy):
                return None
            if p >= cy:
                return self.mk_fld(ty, (a, b, k, w, p - cy, C >> cy))
            if p:
                return None
            if w is None:
                return self.mk_fld(ty, (a, b, k + cy, None, 0, C >> cy))
            if cy >= w:
                return AI(ty, C >> cy, C >> cy)
            return self.mk_fld(ty, (a, b, k + cy, w - cy, 0, C >> cy))
        if op == "Shl":
            return self.mk_fld(ty, (a, b, k, w, p + cy, C << cy))
        return None

    def arith(self, op, x, y, ty, want_overflow=False):
        r = self._arith0(op, x, y, ty, want_overflow)
        if op in ("Add", "Sub", "Shl", "Shr") and isinstance(x, AI) and isinstance(y, AI):
            r0 = r[0] if want_overflow else r
            if isinstance(r0, AI) and r0.const() is None and not self.exact(r0) and r0.tag is None and (want_overflow is False or r[1].const() == 0):
                f = self.fld_op(op, x, y, ty)
                if f is not None and f.lo >= r0.lo and f.hi <= r0.hi:
                    return (f, r[1]) if want_overflow else f
        return r

    def bitop(self, op, x, y, ty):
        r = self._bitop0(op, x, y, ty)
        if op in ("BitAnd", "BitOr") and isinstance(r, AI) and r.const() is None and not self.exact(r) and r.tag is None:
            f = self.fld_op(op, x, y, ty)
            if f is not None and f.lo >= r.lo and f.hi <= r.hi:
                return f
        return r

    # ---- arithmetic ----------------------------------------------------------
    def binop(self, op, x, y, ty):
        if op.endswith("WithOverflow"):
            base = op[:-12]
            r, ov = self.arith(base, x, y, ty, want_overflow=True)
            return Agg("tuple", None, None, None, [r, ov])
        if op.endswith("Unchecked"):
            op = op[:-9]
        if isinstance(x, Sym) or isinstance(y, Sym):
            if op in ("Add", "Sub", "Mul", "Div"):
                return Sym((op, x, y))
            raise Undecided("comparison of floating point values")
        if op in ("Lt", "Le", "Gt", "Ge", "Eq", "Ne"):
            return self.compare(op, x, y)
        if op == "Cmp":
            raise Unsupported("three-way comparison")
        return self.arith(op, x, y, ty)

    def compare(self, op, x, y):
        if not isinstance(x, AI) or not isinstance(y, AI):
            raise Unsupported("comparison of non-integers")
        if op == "Gt":
            return self.compare("Lt", y, x)
        if op == "Ge":
            return self.compare("Le", y, x)
        if op == "Ne":
            r = self.compare("Eq", x, y)
            c = r.const()
            return AI("bool", 0, 1) if c is None else AI("bool", 1 - c, 1 - c)
        res = None
        if op == "Lt":
            res = 1 if x.hi < y.lo else 0 if x.lo >= y.hi else None
        elif op == "Le":
            res = 1 if x.hi <= y.lo else 0 if x.lo > y.hi else None
        elif op == "Eq":
            if x.lo == x.hi == y.lo == y.hi:
                res = 1
            elif x.hi < y.lo or y.hi < x.lo:
                res = 0
            elif (x.tag == ("neq",) and self.exact(y) and y.aff == (1, 0)) or (y.tag == ("neq",) and self.exact(x) and x.aff == (1, 0)):
                res = 0             # a value introduced as "different from the cell variable" (relational split of a comparison)
            elif self.exact(x) and self.exact(y):
                # a*y+b == c*y+d on the whole cell only if identical; otherwise at most one point
                if x.aff == y.aff:
                    res = 1
        return AI("bool", 0, 1) if res is None else AI("bool", res, res)

    def _arith0(self, op, x, y, ty, want_overflow=False):
        if not isinstance(x, AI) or not isinstance(y, AI):
            raise Unsupported("arithmetic on non-integers (%s)" % op)
        w, signed = TY[ty]
        lo = hi = None
        d = None
        aff = None
        if op == "Add" and x.tag and y.tag:
            r = self.recombine(x, y, ty)
            if r is not None:
                return (r, AI("bool", 0, 0)) if want_overflow else r
        if op in ("Add", "Sub"):
            if op == "Sub":
                yl, yh, yd = -y.hi, -y.lo, flip(y.dir)
                ya = (-y.aff[0], -y.aff[1]) if y.aff else None
            else:
                yl, yh, yd, ya = y.lo, y.hi, y.dir, y.aff
            lo, hi, d = x.lo + yl, x.hi + yh, join_dir(x.dir, yd)
            if x.aff and ya:
                aff = (x.aff[0] + ya[0], x.aff[1] + ya[1])
                if self.exact(x) and self.exact(y):
                    # exact mathematical value: tighter than interval addition when directions oppose
                    m0, m1 = aff[0] * self.y0 + aff[1], aff[0] * self.y1 + aff[1]
                    lo, hi = min(m0, m1), max(m0, m1)
                    d = "up" if aff[0] > 0 else "down" if aff[0] < 0 else "c"
        elif op == "Mul":
            cands = [x.lo * y.lo, x.lo * y.hi, x.hi * y.lo, x.hi * y.hi]
            lo, hi = min(cands), max(cands)
            cx, cy = x.const(), y.const()
            if cx is not None or cy is not None:
                c, o = (cx, y) if cx is not None else (cy, x)
                d = o.dir if c >= 0 else flip(o.dir)
                if c == 0:
                    d = "c"
                if o.aff:
                    aff = (o.aff[0] * c, o.aff[1] * c)
            elif x.lo >= 0 and y.lo >= 0 and x.dir in ("up", "c") and y.dir in ("up", "c"):
                d = "up"
            elif x.lo >= 0 and y.lo >= 0 and x.dir in ("down", "c") and y.dir in ("down", "c"):
                d = "down"
        elif op in ("Div", "Rem"):
            if y.lo <= 0 <= y.hi:
                if y.lo == y.hi:
                    raise Panic("division by zero")
                raise Undecided("divisor may be zero")
            cy = y.const()
            if cy is not None and cy > 1 and cy & (cy - 1) == 0 and x.lo >= 0:
                # division / remainder by 2^k of a non-negative value is the shift / the mask (same knowledge about the bits)
                k = cy.bit_length() - 1
                if op == "Div":
                    r = self.arith("Shr", x, AI("u32", k, k), ty)
                    return (r, AI("bool", 0, 0)) if want_overflow else r
                if not getattr(self, "_in_rem", False):
                    self._in_rem = True
                    try:
                        r = self.arith("BitAnd", x, AI(ty, cy - 1, cy - 1), ty)
                    finally:
                        self._in_rem = False
                    return (r, AI("bool", 0, 0)) if want_overflow else r
            if op == "Div":
                cands = [trunc_div(a, b) for a in (x.lo, x.hi) for b in (y.lo, y.hi)]
                lo, hi = min(cands), max(cands)
                if cy is not None:
                    d = x.dir if cy > 0 else flip(x.dir)
                    if self.exact(x) and x.lo >= 0 and cy > 0 and x.aff[0] % cy == 0:
                        aff = (x.aff[0] // cy, x.aff[1] // cy)
                elif x.lo >= 0 and y.lo > 0:
                    if x.dir in ("up", "c") and y.dir in ("down", "c"):
                        d = "up"
                    elif x.dir in ("down", "c") and y.dir in ("up", "c"):
                        d = "down"
            else:
                if cy is not None and cy > 0 and x.lo >= 0:
                    if x.lo // cy == x.hi // cy:
                        base = (x.lo // cy) * cy
                        lo, hi, d = x.lo - base, x.hi - base, x.dir
                        if self.exact(x):
                            aff = (x.aff[0], x.aff[1] - base)
                    elif self.exact(x) and x.aff[0] % cy == 0:
                        lo = hi = x.aff[1] % cy
                    else:
                        lo, hi = 0, cy - 1
                elif x.lo >= 0 and y.lo > 0:
                    lo, hi = 0, min(x.hi, y.hi - 1)
                else:
                    m = max(abs(y.lo), abs(y.hi)) - 1
                    lo, hi = (-m if x.lo < 0 else 0), (m if x.hi > 0 else 0)
        elif op in ("Shl", "Shr"):
            if y.lo < 0 or y.hi >= w:
                if y.lo >= w or y.hi < 0:
                    raise Panic("shift amount out of range")
                raise Undecided("shift amount may be out of range")
            if op == "Shl":
                cands = [x.lo << y.lo, x.lo << y.hi, x.hi << y.lo, x.hi << y.hi]
                lo, hi = min(cands), max(cands)
                cy = y.const()
                if cy is not None:
                    d = x.dir
                    if x.aff:
                        aff = (x.aff[0] << cy, x.aff[1] << cy)
                elif x.lo >= 0:
                    if x.dir in ("up", "c") and y.dir in ("up", "c"):
                        d = "up"
                    elif x.dir in ("down", "c") and y.dir in ("down", "c"):
                        d = "down"
                if want_overflow is False and (lo < tmin(ty) or hi > tmax(ty)):
                    # bits shifted out are lost: keep the modular form, drop the bounds
                    if aff is not None:
                        return self.norm(ty, 0, 0, None, aff) if False else self._wrapped(ty, lo, hi, aff)
                    return self._wrapped(ty, lo, hi, None)
            else:
                cands = [x.lo >> y.lo, x.lo >> y.hi, x.hi >> y.lo, x.hi >> y.hi]
                lo, hi = min(cands), max(cands)
                cy = y.const()
                if cy is not None:
                    d = x.dir
                    if self.exact(x) and x.aff[0] % (1 << cy) == 0:
                        aff = (x.aff[0] >> cy, x.aff[1] >> cy)
                elif x.lo >= 0:
                    if x.dir in ("up", "c") and y.dir in ("down", "c"):
                        d = "up"
                    elif x.dir in ("down", "c") and y.dir in ("up", "c"):
                        d = "down"
        elif op in ("BitAnd", "BitOr", "BitXor"):
            return self.bitop(op, x, y, ty)
        else:
            raise Unsupported("binary operator %s" % op)
        if lo == hi:
            d, aff = "c", None
        if want_overflow:
            inr = lo >= tmin(ty) and hi <= tmax(ty)
            out = hi < tmin(ty) or lo > tmax(ty)
            ov = AI("bool", 0, 0) if inr else AI("bool", 1, 1) if out else AI("bool", 0, 1)
            return self.norm(ty, lo, hi, d if inr else None, aff), ov
        if lo >= tmin(ty) and hi <= tmax(ty):
            r = AI(ty, lo, hi, d, aff if aff is None or d is not None else aff)
            if op == "Shl" and x.tag and x.tag[0] == "shr" and y.const() == x.tag[3]:
                r.tag = ("hi",) + x.tag[1:]
            if op == "Shr" and y.const() is not None and self.exact(x) and x.lo >= 0 and aff is None:
                r.tag = ("shr", x.aff[0], x.aff[1], y.const())
            return r
        return self._wrapped(ty, lo, hi, aff)

    def recombine(self, x, y, ty):
        """((s >> k) << k) + (s mod 2^k) = s"""
        for p, q in ((x, y), (y, x)):
            if p.tag and q.tag and p.tag[0] == "hi" and q.tag[0] == "low" and p.tag[1:] == q.tag[1:]:
                r = self.from_aff(ty, p.tag[1], p.tag[2])
                if r.dir is not None:
                    return r
        return None

    def _wrapped(self, ty, lo, hi, aff):
        if aff is not None:
            return self.norm(ty, lo, hi, None, aff)
        return self.norm(ty, lo, hi, None, None)

    def _bitop0(self, op, x, y, ty):
        if op == "BitOr" and x.tag and y.tag:
            r = self.recombine(x, y, ty)
            if r is not None:
                return r
        w, signed = TY[ty]
        cx, cy = x.const(), y.const()
        full = (1 << w) - 1
        if cx is not None and cy is not None:
            ux, uy = cx & full, cy & full
            r = ux & uy if op == "BitAnd" else ux | uy if op == "BitOr" else ux ^ uy
            if signed and r > tmax(ty):
                r -= 1 << w
            return AI(ty, r, r)
        if cx is not None:
            x, y, cx, cy = y, x, cy, cx
        if cy is not None:
            uc = cy & full
            if op == "BitXor":
                if uc == 0:
                    return x
                if uc == full:
                    return self.unop("Not", x, ty)
                if uc & (uc - 1) == 0 and x.lo >= 0:
                    if x.lo >= uc and x.hi < 2 * uc:           # clears the (known set) bit
                        return AI(ty, x.lo - uc, x.hi - uc, x.dir, (x.aff[0], x.aff[1] - uc) if self.exact(x) else None)
                    if x.hi < uc:                               # sets a (known clear) bit
                        return AI(ty, x.lo + uc, x.hi + uc, x.dir, (x.aff[0], x.aff[1] + uc) if self.exact(x) else None)
            if op == "BitAnd":
                if uc == 0:
                    return AI(ty, 0, 0)
                if uc == full:
                    return x
                if uc & (uc + 1) == 0:                          # low mask 2^j - 1: remainder
                    if x.lo >= 0:
                        r = self.arith("Rem", x, AI(ty, uc + 1, uc + 1), ty) if uc + 1 <= tmax(ty) else x
                        if self.exact(x) and not self.exact(r):
                            r.tag = ("low", x.aff[0], x.aff[1], uc.bit_length())
                        return r
                    if x.aff is not None:
                        j = uc.bit_length()
                        if x.aff[0] % (1 << j) == 0:
                            v = x.aff[1] % (1 << j)
                            return AI(ty, v, v)
                    return AI(ty, 0, uc)
                lowc = ~uc & full
                if lowc & (lowc + 1) == 0 and x.lo >= 0:        # high mask !(2^j - 1): x with its low j bits cleared
                    j = lowc.bit_length()
                    if x.hi <= lowc:
                        return AI(ty, 0, 0)
                    r = AI(ty, (x.lo >> j) << j, (x.hi >> j) << j, x.dir if x.dir in ("up", "down", "c") else None)
                    if self.exact(x):
                        r.tag = ("hi", x.aff[0], x.aff[1], j)
                    return r
                if x.lo >= 0:
                    return AI(ty, 0, min(x.hi, uc))
            if op == "BitOr":
                if uc == 0:
                    return x
                if self.exact(x) and cy >= 0:
                    m = uc.bit_length()
                    if x.aff[0] % (1 << m) == 0:                # the low m bits of x are the constant b mod 2^m
                        lowb = x.aff[1] % (1 << m)
                        dlt = (lowb | uc) - lowb
                        return self.norm(ty, x.lo + dlt, x.hi + dlt, x.dir, (x.aff[0], x.aff[1] + dlt))
                if x.lo >= 0 and cy >= 0:
                    tz = (uc & -uc).bit_length() - 1
                    if x.hi < (1 << tz):                        # disjoint bits: addition
                        return AI(ty, x.lo + uc, x.hi + uc, x.dir, (x.aff[0], x.aff[1] + uc) if self.exact(x) else None)
                    if x.hi <= uc and uc & (uc + 1) == 0:
                        return AI(ty, uc, uc)
        if x.lo >= 0 and y.lo >= 0:
            if op == "BitAnd":
                return AI(ty, 0, min(x.hi, y.hi))
            top = (1 << max(x.hi, y.hi).bit_length()) - 1
            return AI(ty, max(x.lo, y.lo) if op == "BitOr" else 0, top)
        return self.top(ty)

    def unop(self, op, x, ty):
        if not isinstance(x, AI):
            raise Unsupported("unary operator on non-integer")
        if ty == "bool":
            c = x.const()
            return AI("bool", 0, 1) if c is None else AI("bool", 1 - c, 1 - c)
        w, signed = TY[ty]
        if op == "Not":
            if signed:
                return AI(ty, -x.hi - 1, -x.lo - 1, flip(x.dir), (-x.aff[0], -x.aff[1] - 1) if x.aff else None) if x.dir is not None or not x.aff \
                    else self.from_aff(ty, -x.aff[0], -x.aff[1] - 1)
            m = tmax(ty)
            if x.dir is None and x.aff:
                return self.from_aff(ty, -x.aff[0], -x.aff[1] - 1)
            return AI(ty, m - x.hi, m - x.lo, flip(x.dir), (-x.aff[0], m - x.aff[1]) if x.aff else None)
        if op == "Neg":
            if x.lo == tmin(ty) and signed:
                if x.hi == x.lo:
                    raise Panic("negation overflow")
                raise Undecided("negation may overflow")
            return AI(ty, -x.hi, -x.lo, flip(x.dir), (-x.aff[0], -x.aff[1]) if x.aff else None)
        raise Unsupported("unary operator %s" % op)

    def cast(self, x, ty):
        if not isinstance(x, AI):
            raise Unsupported("cast of non-integer")
        if ty not in TY:
            raise Unsupported("cast to %s" % ty)
        if ty == "bool":
            raise Unsupported("cast to bool")
        if x.lo >= tmin(ty) and x.hi <= tmax(ty):
            return AI(ty, x.lo, x.hi, x.dir, x.aff, x.tag)
        return self.norm(ty, x.lo, x.hi, None, x.aff)

    # ---- monotone library functions ----------------------------------------------
    def ilog2(self, x):
        if x.hi <= 0:
            raise Panic("ilog2 of a non-positive value")
        if x.lo <= 0:
            raise Undecided("ilog2 argument may be zero")
        return AI("u32", x.lo.bit_length() - 1, x.hi.bit_length() - 1, x.dir if x.dir in ("up", "down", "c") else None)

    def leading_zeros(self, x):
        w = TY[x.ty][0]
        if x.lo < 0:
            raise Unsupported("leading_zeros of a signed value")
        return AI("u32", w - x.hi.bit_length(), w - x.lo.bit_length(), flip(x.dir))

    # ---- places --------------------------------------------------------------------
    def read_place(self, fr, place):
        v = fr.locals.get(place["l"])
        return self.project(fr, v, place["proj"], place)

    def project(self, fr, v, proj, place=None):
        for p in proj:
            if v is None:
                raise Unsupported("read of an uninitialised or unknown place %s" % (place,))
            if p == "deref":
                if isinstance(v, Ref):
                    v = self.project(v.frame, v.frame.locals.get(v.local), v.proj)
                elif isinstance(v, (Slice, Opaque)):
                    pass
                else:
                    raise Unsupported("deref of %r" % (v,))
            elif "field" in p:
                if isinstance(v, Agg):
                    v = v.fields[p["field"]]
                else:
                    raise Unsupported("field of %r" % (v,))
            elif "downcast" in p:
                if not isinstance(v, Agg) or v.vidx != p["downcast"]:
                    raise Unsupported("downcast of %r to %s" % (v, p.get("variant")))
            elif "index" in p:
                i = fr.locals.get(p["index"])
                v = self.index(v, i)
            elif "const_index" in p:
                v = self.index(v, AI("usize", p["const_index"], p["const_index"]))
            else:
                raise Unsupported("projection %r" % (p,))
        return v

    def index(self, v, i):
        if not isinstance(i, AI):
            raise Unsupported("index is not an integer")
        c = i.const()
        if isinstance(v, Slice):
            arr = self.project(v.ref.frame, v.ref.frame.locals.get(v.ref.local), v.ref.proj)
            if c is None:
                raise Undecided("index not constant")
            return arr.fields[v.start + c]
        if isinstance(v, Agg) and v.kind == "array":
            if c is None:
                vals = v.fields[i.lo:i.hi + 1]
                if all(isinstance(e, AI) and e.const() is not None and e.const() == vals[0].const() for e in vals):
                    return vals[0]
                raise Undecided("index not constant")
            if not 0 <= c < len(v.fields):
                raise Panic("index out of bounds")
            return v.fields[c]
        raise Unsupported("indexing %r" % (v,))

    def write_place(self, fr, place, val):
        self.write_proj(fr, place["l"], place["proj"], val)

    def write_proj(self, fr, local, proj, val):
        if not proj:
            fr.locals[local] = val
            return
        # index projections name locals of THIS frame: make them constants before following references into other frames
        res = []
        for p in proj:
            if isinstance(p, dict) and "index" in p:
                i = fr.locals.get(p["index"])
                c = i.const() if isinstance(i, AI) else None
                if c is None:
                    raise Undecided("store index not constant")
                res.append({"const_index": c})
            else:
                res.append(p)
        proj = res
        # resolve leading derefs through references
        if proj[0] == "deref":
            r = fr.locals.get(local)
            if isinstance(r, Ref):
                return self.write_proj(r.frame, r.local, list(r.proj) + list(proj[1:]), val)
            if isinstance(r, Slice) and len(proj) == 1 and isinstance(val, Agg) and val.kind == "array" and len(val.fields) == r.end - r.start:
                # `*chunk = [..]` through a reference to a fixed-size piece of a slice: element-wise into the storage
                for i, v in enumerate(val.fields):
                    self.write_proj(r.ref.frame, r.ref.local, list(r.ref.proj) + [{"const_index": r.start + i}], v)
                return
            if isinstance(r, Slice) and len(proj) == 2 and isinstance(proj[1], dict) and "const_index" in proj[1] and 0 <= proj[1]["const_index"] < r.end - r.start:
                return self.write_proj(r.ref.frame, r.ref.local, list(r.ref.proj) + [{"const_index": r.start + proj[1]["const_index"]}], val)
            raise Unsupported("write through %r" % (r,))
        base = fr.locals.get(local)
        cur = base
        for k, p in enumerate(proj):
            last = k == len(proj) - 1
            if "field" in p:
                if not isinstance(cur, Agg):
                    raise Unsupported("field write into %r" % (cur,))
                if last:
                    cur.fields[p["field"]] = val
                else:
                    cur = cur.fields[p["field"]]
            elif "index" in p or "const_index" in p:
                i = fr.locals.get(p["index"]) if "index" in p else AI("usize", p["const_index"], p["const_index"])
                c = i.const() if isinstance(i, AI) else None
                if c is None:
                    raise Undecided("store index not constant")
                if not isinstance(cur, Agg) or not 0 <= c < len(cur.fields):
                    raise Unsupported("indexed write into %r" % (cur,))
                if last:
                    cur.fields[c] = val
                else:
                    cur = cur.fields[c]
            elif "downcast" in p:
                pass
            elif p == "deref":
                if isinstance(cur, Ref):
                    return self.write_proj(cur.frame, cur.local, list(cur.proj) + list(proj[k + 1:]), val)
                raise Unsupported("write through %r" % (cur,))
            else:
                raise Unsupported("write projection %r" % (p,))

    # ---- operands ----------------------------------------------------------------------
    def operand(self, fr, o):
        k = o["k"]
        if k in ("copy", "move"):
            v = self.read_place(fr, o["place"])
            if isinstance(v, Agg) and k == "copy":
                v = self.clone(v)
            return v
        if k == "const":
            return self.constant(fr, o)
        raise Unsupported("operand %s" % k)

    def clone(self, v):
        if isinstance(v, Agg):
            return Agg(v.kind, v.name, v.variant, v.vidx, [self.clone(f) for f in v.fields])
        return v

    def resolve_ty(self, fr, ty):
        if ty in TY:
            return ty
        if ty in fr.env and isinstance(fr.env[ty], str):
            return fr.env[ty]
        m = re.match(r"<(\w+) as .*::(SignedInt|UnsignedInt)>::(SignedInt|UnsignedInt)$", ty) or re.match(r"<(\w+) as .*>::(SignedInt|UnsignedInt)()$", ty)
        if m:
            base = self.resolve_ty(fr, m.group(1))
            if base in TY:
                which = m.group(3) or m.group(2)
                return ("i" if which == "SignedInt" else "u") + base[1:]
        return ty

    def constant(self, fr, o):
        ty = self.resolve_ty(fr, o["ty"])
        if "fn" in o:
            return Opaque(("fn", o["fn"], tuple(o.get("fn_args", ()))))
        if "closure" in o:
            return Opaque(("closure", o["closure"]))
        if o.get("zst"):
            return UNIT
        if "param" in o:
            if o["param"] not in fr.env:
                raise Unsupported("unbound const parameter %s" % o["param"])
            v = fr.env[o["param"]]
            return AI(ty if ty in TY else "usize", int(v), int(v))
        if "value" in o and ty in TY:
            v = o["value"]
            v = int(v) if not isinstance(v, bool) else int(v)
            return AI(ty, v, v)
        if ty in ("f64", "f32"):
            return Sym(("const", o.get("text") or o.get("value")))
        if "uneval" in o:
            return self.named_const(fr, o, ty)
        if "str" in o:
            return Opaque(("str", o["str"]))
        if "bytes" in o or str(o.get("ty", "")).startswith(("&[u8", "&'static [u8", "&str")):
            return Opaque(("bytes", tuple(o["bytes"]) if isinstance(o.get("bytes"), list) else o.get("text")))      # format templates and other byte literals
        raise Unsupported("constant %s" % (o.get("text") or o.get("ty")))

    def named_const(self, fr, o, ty):
        name = o["uneval"]
        last = name.split("::")[-1]
        args = [self.resolve_ty(fr, a) for a in o.get("uneval_args", [])]
        if ty in TY and args and args[0] in TY:
            t0 = args[0]
            if last == "ONE":
                return AI(ty, 1, 1)
            if last == "ZERO":
                return AI(ty, 0, 0)
            if last == "BITS":
                return AI(ty, TY[t0][0], TY[t0][0])
            if last == "BYTES":
                return AI(ty, TY[t0][0] // 8, TY[t0][0] // 8)
            if last == "MAX":
                return AI(ty, tmax(t0), tmax(t0))
            if last == "MIN":
                return AI(ty, tmin(t0), tmin(t0))
        if "promoted" in o:
            for b in self.F.bodies:
                if b["kind"] == "Promoted" and b["path"] == name and str(b.get("promoted_idx")) == str(o["promoted"]):
                    return self.const_body(("promoted", name, str(o["promoted"])), b, fr)
            raise Unsupported("promoted constant %s of %s" % (o["promoted"], name))
        cc = self.F.consts.get(name)
        c = cc.get("value") if cc else None
        if c is not None:
            if isinstance(c, (int, bool)) and ty in TY:
                return AI(ty, int(c), int(c))
            if isinstance(c, list):
                return self.table(name, cc)
        for b in self.F.bodies:
            if b["kind"] in ("Const", "AssocConst", "InlineConst", "AnonConst") and b["path"] == name and b.get("blocks") and not b.get("generics"):
                return self.const_body(("const", name), b, fr)
        raise Unsupported("named constant %s" % name)

    def const_body(self, key, body, fr):
        """value of a closed constant item / promoted: its own MIR is interpreted once (constants have no inputs);
        the value lives in a frame of its own so that references into it stay valid"""
        # (a promoted / inline constant of a generic function sees the function's generic arguments)
        envk = tuple(sorted((a, b) for a, b in (fr.env or {}).items() if isinstance(b, (int, bool, str)))) if key[0] == "promoted" else ()
        k = (id(self.F),) + key + (envk,)
        if k not in TABLES:
            sub = Interp(self.F, 0, 0, self.handlers)
            v = sub.call_body(body, [], dict(fr.env) if key[0] == "promoted" else {}, 1)
            holder = Frame({"path": "const " + str(key)}, {})
            holder.locals[0] = v
            TABLES[k] = holder
        v = TABLES[k].locals[0]
        return self.clone(v) if isinstance(v, Agg) else v

    def table(self, name, cc):
        """a const slice of the crate as an abstract array (entries are the const-evaluated values of the source)"""
        fr = TABLES.get((id(self.F), name))
        if fr is None:
            m = re.search(r"\[(\w+)\]", cc["ty"])
            ety = m.group(1) if m and m.group(1) in TY else None
            if ety is None:
                raise Unsupported("table %s of type %s" % (name, cc["ty"]))
            fr = Frame({"path": "const " + name}, {})
            fr.locals[0] = Agg("array", None, None, None, [AI(ety, int(v), int(v)) for v in cc["value"]])
            TABLES[(id(self.F), name)] = fr
        return Slice(Ref(fr, 0, ()), 0, len(fr.locals[0].fields))

    # ---- rvalues --------------------------------------------------------------------------
    def rvalue(self, fr, rv):
        k = rv["k"]
        if k == "use":
            return self.operand(fr, rv["op"])
        if k == "binop":
            a, b = self.operand(fr, rv["a"]), self.operand(fr, rv["b"])
            ty = self.resolve_ty(fr, rv["a_ty"])
            if ty in ("f64", "f32") or isinstance(a, Sym) or isinstance(b, Sym):
                return self.binop(rv["op"], a if isinstance(a, Sym) else Sym(("float", a)), b if isinstance(b, Sym) else Sym(("float", b)), "u64")
            if ty not in TY:
                raise Unsupported("binop on %s" % ty)
            return self.binop(rv["op"], a, b, ty)
        if k == "unop":
            a = self.operand(fr, rv["a"])
            if rv["op"] == "PtrMetadata":
                if isinstance(a, Slice):
                    return AI("usize", a.end - a.start, a.end - a.start)
                raise Unsupported("PtrMetadata of %r" % (a,))
            return self.unop(rv["op"], a, a.ty if isinstance(a, AI) else "?")
        if k == "cast":
            v = self.operand(fr, rv["op"])
            kind = rv["kind"]
            if kind == "IntToInt":
                return self.cast(v, self.resolve_ty(fr, rv["ty"]))
            if kind == "IntToFloat":
                return Sym(("float", v))
            if kind in ("FloatToFloat",) and isinstance(v, Sym):
                return v
            if kind.startswith("PointerCoercion(Unsize"):
                if isinstance(v, Ref):
                    arr = self.project(v.frame, v.frame.locals.get(v.local), v.proj)
                    if isinstance(arr, Agg) and arr.kind == "array":
                        return Slice(v, 0, len(arr.fields))
                return v
            if kind in ("Transmute", "PtrToPtr") or kind.startswith("PointerCoercion"):
                return v
            raise Unsupported("cast kind %s" % kind)
        if k == "ref" or k == "rawptr":
            pl = rv["place"]
            # reborrow: &*r
            if pl["proj"] and pl["proj"][0] == "deref":
                r = fr.locals.get(pl["l"])
                if isinstance(r, Ref):
                    return Ref(r.frame, r.local, list(r.proj) + list(pl["proj"][1:]))
                if len(pl["proj"]) == 1 or isinstance(r, Opaque):
                    return r            # a reference into an opaque object (a stream, a backend) stays opaque
                raise Unsupported("reference through %r" % (r,))
            return Ref(fr, pl["l"], pl["proj"])
        if k == "discr":
            v = self.read_place(fr, rv["place"])
            if isinstance(v, Agg) and v.vidx is not None:
                return AI("isize", v.vidx, v.vidx)
            raise Unsupported("discriminant of %r" % (v,))
        if k == "aggregate":
            ops = [self.operand(fr, o) for o in rv["ops"]]
            if rv["agg"] == "tuple":
                return Agg("tuple", None, None, None, ops) if ops else UNIT
            if rv["agg"] == "array":
                return Agg("array", None, None, None, ops)
            if rv["agg"] == "adt":
                return Agg("adt", rv["adt"], rv["variant"], int(rv["variant_idx"]), ops)
            if rv["agg"] == "closure":
                # (the `variant` slot of a closure value keeps the generic environment of the function that built it)
                return Agg("closure", rv["closure"], dict(fr.env), None, ops)
            raise Unsupported("aggregate %s" % rv["agg"])
        if k == "repeat":
            v = self.operand(fr, rv["op"])
            n = rv["n"]
            n = int(n) if str(n).isdigit() else fr.env.get(n)
            if not isinstance(n, int):
                raise Unsupported("repeat length %r" % (rv["n"],))
            return Agg("array", None, None, None, [v] * n)
        raise Unsupported("rvalue %s" % k)

    # ---- execution --------------------------------------------------------------------------
    def call_body(self, body, args, env, depth=0):
        if depth > self.max_depth:
            raise Unsupported("call depth")
        fr = Frame(body, env)
        for i, a in enumerate(args):
            fr.locals[i + 1] = a
        bi = 0
        blocks = body["blocks"]
        while True:
            self.steps += 1
            if self.steps > self.max_steps:
                raise Unsupported("step budget exhausted (unbounded loop over this cell?)")
            bl = blocks[bi]
            for s in bl["stmts"]:
                if s["k"] == "assign":
                    self.write_place(fr, s["place"], self.rvalue(fr, s["rv"]))
                elif s["k"] == "set_discr":
                    raise Unsupported("set_discriminant")
            t = bl["term"]
            k = t["k"]
            if k == "goto":
                bi = t["target"]
            elif k == "return":
                return fr.locals.get(0, UNIT)
            elif k == "switch":
                v = self.operand(fr, t["discr"])
                if not isinstance(v, AI):
                    raise Unsupported("switch on %r" % (v,))
                c = v.const()
                if c is None:
                    # no listed value lies in the range: every value of the cell takes the `otherwise` edge
                    if any(v.lo <= int(val) <= v.hi for val, tgt in t["targets"]):
                        raise Undecided("branch at %s:%s" % (body["path"], t.get("line")))
                nxt = t["otherwise"]
                for val, tgt in t["targets"]:
                    if c is not None and int(val) == c:
                        nxt = tgt
                self.trace.append((body["path"], bi, nxt))
                bi = nxt
            elif k == "assert":
                v = self.operand(fr, t["cond"])
                c = v.const() if isinstance(v, AI) else None
                if c is None:
                    raise Undecided("assert %s at %s:%s" % (t["msg"].get("k"), body["path"], t.get("line")))
                if bool(c) != bool(t["expected"]):
                    raise Panic("%s at %s:%s" % (t["msg"].get("k"), body["path"], t.get("line")))
                bi = t["target"]
            elif k == "call":
                res = self.call(fr, t, depth)
                self.write_place(fr, t["dest"], res)
                if t["target"] is None:
                    raise Panic("diverging call %s" % t["func"].get("fn"))
                bi = t["target"]
            elif k == "drop":
                bi = t["target"]
            elif k == "unreachable":
                raise Unsupported("unreachable reached in %s" % body["path"])
            else:
                raise Unsupported("terminator %s" % k)

    def apply_callable(self, fv, cargs, fr, t, depth):
        """call of a function value: a function item, a closure constant (no captures) or a closure aggregate"""
        if isinstance(fv, Ref):
            fv = self.project(fv.frame, fv.frame.locals.get(fv.local), fv.proj)
        if isinstance(fv, Opaque) and isinstance(fv.what, tuple) and fv.what[0] == "fn":
            mc = re.match(r"(?:std|core)::(.*)::(Ok|Err|Some)$", fv.what[1])
            if mc:
                return mk_variant("std::result::Result" if mc.group(2) in ("Ok", "Err") else "std::option::Option", mc.group(2), list(cargs))
            fargs = [self.subst(fr, a) for a in fv.what[2]]
            return self.call_named(fv.what[1], fargs, list(cargs), fr, t, depth, None)
        if isinstance(fv, Opaque) and isinstance(fv.what, tuple) and fv.what[0] == "closure":
            fv = Agg("closure", fv.what[1], dict(fr.env), None, [])
        if isinstance(fv, Agg) and fv.kind == "closure":
            body = self.find_body(fv.name, [])
            if body is None:
                raise Unsupported("closure body %s" % fv.name)
            l1 = str(body["locals"][1]["ty"]) if len(body["locals"]) > 1 else ""
            if l1.startswith("&"):
                holder = Frame({"path": "<closure holder>", "locals": []}, {})
                holder.locals[0] = fv
                a0 = Ref(holder, 0, [])
            else:
                a0 = fv
            return self.call_body(body, [a0] + list(cargs), fv.variant if isinstance(fv.variant, dict) else dict(fr.env), depth + 1)
        raise Unsupported("call of the function value %r" % (fv,))

    def call(self, fr, t, depth):
        f = t["func"]
        if f["k"] != "const" or "fn" not in f:
            fv = self.operand(fr, f)
            return self.apply_callable(fv, [self.operand(fr, a) for a in t["args"]], fr, t, depth)
        name = f["fn"]
        fargs = [self.subst(fr, a) for a in f.get("fn_args", [])]
        args = [self.operand(fr, a) for a in t["args"]]
        res = (f.get("resolved") or {}).get("fn")
        if res and res != name and name not in self.handlers and not self.F.by_path.get(name) and len(self.F.by_path.get(res, [])) == 1 \
                and self.F.by_path[res][0].get("blocks") and name.startswith(("std::ops::", "std::iter::Sum", "std::default::Default", "std::clone::Clone", "std::cmp::")):
            # an operator / std trait implemented in the crate for a crate type: the call is a call of that implementation
            rb = self.F.by_path[res][0]
            rf = (f.get("resolved") or {}).get("fn_args")
            env = dict(zip(rb.get("generics") or [], [self.subst(fr, a) for a in rf])) if rf is not None and len(rf) == len(rb.get("generics") or []) else dict(fr.env)
            self.carry_assoc(fr.env, env)
            return self.call_body(rb, args, env, depth + 1)
        return self.call_named(name, fargs, args, fr, t, depth, f.get("fn_crate"))

    def call_named(self, name, fargs, args, fr, t, depth, crate):
        f = {"fn_crate": crate if crate is not None else ("dsi_bitstream" if self.F.by_path.get(name) else name.split("::")[0])}
        if name in ("std::ops::FnOnce::call_once", "std::ops::FnMut::call_mut", "std::ops::Fn::call") and len(args) == 2:
            tup = args[1]
            cargs = tup.fields if isinstance(tup, Agg) and tup.kind == "tuple" else [] if tup is UNIT else None
            if cargs is not None:
                return self.apply_callable(args[0], cargs, fr, t, depth)
        m = re.match(r"(?:std|core)::bool::<impl bool>::(then|then_some)$", name)
        if m and len(args) == 2 and isinstance(args[0], AI) and args[0].const() is not None:
            if not args[0].const():
                return mk_variant("std::option::Option", "None", [])
            return mk_variant("std::option::Option", "Some", [args[1] if m.group(1) == "then_some" else self.apply_callable(args[1], [], fr, t, depth)])
        m = re.match(r"std::option::Option::<std::option::Option<T>>::flatten$", name)
        if m and isinstance(args[0], Agg) and args[0].variant in ("Some", "None"):
            return args[0].fields[0] if args[0].variant == "Some" else args[0]
        m = re.match(r"std::(result::Result::<T, E>|option::Option::<T>)::(map|map_err|map_or|map_or_else|and_then|unwrap_or|unwrap_or_else|ok|ok_or|ok_or_else|is_ok|is_err|is_some|is_none|inspect|inspect_err)$", name)
        if m and args and isinstance(args[0], Agg) and args[0].variant in ("Ok", "Err", "Some", "None"):
            # std docs: the adapters of Result / Option on a value whose variant is known
            r, fn = args[0], m.group(2)
            good = r.variant in ("Ok", "Some")
            adt = r.name
            if fn in ("is_ok", "is_some"):
                return AI("bool", int(good), int(good))
            if fn in ("is_err", "is_none"):
                return AI("bool", int(not good), int(not good))
            if fn == "ok":
                return mk_variant("std::option::Option", "Some", [r.fields[0]]) if good else mk_variant("std::option::Option", "None", [])
            if fn == "ok_or":
                return mk_variant("std::result::Result", "Ok", [r.fields[0]]) if good else mk_variant("std::result::Result", "Err", [args[1]])
            if fn == "ok_or_else":
                return mk_variant("std::result::Result", "Ok", [r.fields[0]]) if good else \
                    mk_variant("std::result::Result", "Err", [self.apply_callable(args[1], [], fr, t, depth)])
            if fn == "map":
                return mk_variant(adt, r.variant, [self.apply_callable(args[1], [r.fields[0]], fr, t, depth)]) if good else r
            if fn == "map_err":
                return r if good else mk_variant(adt, "Err", [self.apply_callable(args[1], [r.fields[0]], fr, t, depth)])
            if fn == "and_then":
                return self.apply_callable(args[1], [r.fields[0]], fr, t, depth) if good else r
            if fn == "unwrap_or":
                return r.fields[0] if good else args[1]
            if fn == "unwrap_or_else":
                return r.fields[0] if good else self.apply_callable(args[1], r.fields[:1], fr, t, depth)
            if fn in ("inspect", "inspect_err"):
                if good == (fn == "inspect") and r.fields:
                    holder = Frame({"path": "<inspected>", "locals": []}, {})
                    holder.locals[0] = r.fields[0]
                    self.apply_callable(args[1], [Ref(holder, 0, [])], fr, t, depth)
                return r
            if fn == "map_or":
                return self.apply_callable(args[2], [r.fields[0]], fr, t, depth) if good else args[1]
            if fn == "map_or_else":
                return self.apply_callable(args[2], [r.fields[0]], fr, t, depth) if good else self.apply_callable(args[1], r.fields[:1], fr, t, depth)
        h = self.handlers.get(name)
        if h is not None:
            r = h(self, name, args, fargs, fr, t)
            if r is not NotImplemented:
                return r
        r = self.std_call(name, args, fargs, fr, t)
        if r is not NotImplemented:
            return r
        if f.get("fn_crate") in ("anyhow", "alloc", "core", "std") and re.match(r"(anyhow::|alloc::fmt::|core::fmt::|std::fmt::|alloc::string::|core::panicking::)", name) \
                and t["target"] is not None:
            return Opaque(("foreign", name))       # error values / formatted messages: nothing the analysed clauses depend on
        if t.get("target") is None and re.match(r"(core::panicking::|std::rt::begin_panic|std::panicking::|core::option::expect_failed|core::result::unwrap_failed)", name):
            raise Panic("explicit panic (%s)" % name)
        if name == "std::hint::must_use" and len(args) == 1:
            return args[0]
        if f.get("fn_crate") != "dsi_bitstream" and t["target"] is not None and args and all(self.is_opaque(a) for a in args):
            return Opaque(("foreign", name))       # a foreign function of values the analysis does not look into
        if f.get("fn_crate") == "dsi_bitstream":
            body = self.find_body(name, fargs)
            if body is not None:
                env = dict(zip(body["generics"], fargs))
                self.carry_assoc(fr.env, env)
                return self.call_body(body, args, env, depth + 1)
        raise Unsupported("call of %s" % name)

    @staticmethod
    def carry_assoc(outer, env):
        """associated types bound in the caller's environment (`<WR as WordRead>::Word` = u8) stay bound in the callee, under the
        callee's names for the same type parameters"""
        for key, val in outer.items():
            if not (isinstance(key, str) and key.startswith("<")):
                continue
            for g, v in list(env.items()):
                if isinstance(v, str) and isinstance(g, str) and not g.startswith("<") and ("<%s as " % v) in key:
                    env.setdefault(key.replace("<%s as " % v, "<%s as " % g), val)

    def as_iter(self, v):
        """the PyIter denoted by an iterator / iterable value, or None"""
        x = v
        for _ in range(3):
            if isinstance(x, Ref):
                y = self.project(x.frame, x.frame.locals.get(x.local), x.proj)
                if isinstance(y, PyIter):
                    return y
                if isinstance(y, Agg) and y.kind == "array":
                    return PyIter("slice", [x, 0, len(y.fields), 0, False])
                x = y
        if isinstance(x, PyIter):
            return x
        if isinstance(x, Agg) and x.kind == "iter" and x.name == "array" and isinstance(x.fields[1], AI) and x.fields[1].const() is not None:
            return PyIter("values", [list(x.fields[0].fields), x.fields[1].const()])
        if isinstance(x, Agg) and x.kind == "iter" and x.name == "slice" and isinstance(x.fields[1], AI) and x.fields[1].const() is not None:
            sl = x.fields[0]
            return PyIter("slice", [sl.ref, sl.start, sl.end, x.fields[1].const(), False])
        if isinstance(x, Slice):
            return PyIter("slice", [x.ref, x.start, x.end, 0, False])
        if isinstance(x, Agg) and x.kind == "array":
            return PyIter("values", [list(x.fields), 0])
        if isinstance(x, Agg) and x.name and x.name.endswith("ops::Range") and len(x.fields) == 2:
            return PyIter("range", [x.fields[0], x.fields[1]])
        if isinstance(x, Agg) and x.name and x.name.endswith("ops::RangeFrom"):
            return PyIter("range", [x.fields[0], None])
        return None

    def slice_of(self, v):
        """(array Ref, start, end) of a slice / array-reference value, or None"""
        x = v
        for _ in range(3):
            if isinstance(x, Slice):
                return x.ref, x.start, x.end
            if isinstance(x, Ref):
                y = self.project(x.frame, x.frame.locals.get(x.local), x.proj)
                if isinstance(y, Agg) and y.kind == "array":
                    return x, 0, len(y.fields)
                x = y
            else:
                break
        return None

    def slice_call(self, name, args, fargs, fr, t):
        """std slice / byte-array functions on values the interpreter holds exactly"""
        last = name.split("::")[-1]
        if name in ("common_traits::Sequence::is_empty", "common_traits::Sequence::len") and args and self.slice_of(args[0]) is not None:
            ref, start, end = self.slice_of(args[0])
            if last == "len":
                return AI("usize", end - start, end - start)
            return AI("bool", int(end == start), int(end == start))
        if name.startswith("core::slice::<impl [T]>::"):
            sl = self.slice_of(args[0]) if args else None
            if sl is None:
                return NotImplemented
            ref, start, end = sl
            if last in ("chunks_exact", "chunks_exact_mut", "chunks", "chunks_mut"):
                k = args[1].const() if isinstance(args[1], AI) else None
                if k is None:
                    raise Undecided("chunk size")
                if k == 0:
                    raise Panic("chunk size 0")
                return PyIter("chunks", [ref, start, end, k, last.startswith("chunks_exact")])
            if last in ("split_at", "split_at_mut"):
                m = args[1].const() if isinstance(args[1], AI) else None
                if m is None:
                    raise Undecided("split point")
                if m > end - start:
                    raise Panic("split_at beyond the end")
                return Agg("tuple", None, None, None, [Slice(ref, start, start + m), Slice(ref, start + m, end)])
            m_ = re.match(r"split_(first|last)_chunk(_mut)?$", last)
            if m_ or last in ("as_chunks", "as_chunks_mut", "first_chunk", "last_chunk"):
                n = fargs[-1] if fargs else None
                if not isinstance(n, int) or isinstance(n, bool) or n <= 0:
                    raise Unsupported("chunk length of %s" % name)
                if last in ("as_chunks", "as_chunks_mut"):
                    q = (end - start) // n
                    groups = PyIter("values", [[Slice(ref, start + i * n, start + (i + 1) * n) for i in range(q)], 0])
                    return Agg("tuple", None, None, None, [groups, Slice(ref, start + q * n, end)])
                if end - start < n:
                    return mk_variant("std::option::Option", "None", [])
                if last == "first_chunk":
                    return mk_variant("std::option::Option", "Some", [Slice(ref, start, start + n)])
                if last == "last_chunk":
                    return mk_variant("std::option::Option", "Some", [Slice(ref, end - n, end)])
                if m_.group(1) == "first":
                    pair = [Slice(ref, start, start + n), Slice(ref, start + n, end)]
                else:
                    pair = [Slice(ref, start, end - n), Slice(ref, end - n, end)]
                return mk_variant("std::option::Option", "Some", [Agg("tuple", None, None, None, pair)])
            if last == "copy_from_slice":
                src = self.slice_of(args[1])
                if src is None:
                    return NotImplemented
                sref, s0, s1 = src
                if s1 - s0 != end - start:
                    raise Panic("copy_from_slice: source and destination lengths differ")
                sarr = self.project(sref.frame, sref.frame.locals.get(sref.local), sref.proj)
                darr = self.project(ref.frame, ref.frame.locals.get(ref.local), ref.proj)
                vals = list(sarr.fields[s0:s1])
                for i, v in enumerate(vals):
                    darr.fields[start + i] = v
                return UNIT
            if last == "is_empty":
                return AI("bool", int(end == start), int(end == start))
            if last == "windows":
                k = args[1].const() if isinstance(args[1], AI) else None
                if not k:
                    raise Panic("window size 0") if k == 0 else Undecided("window size")
                return PyIter("values", [[Slice(ref, i, i + k) for i in range(start, end - k + 1)], 0])
            if last in ("get", "get_mut") and len(args) == 2 and isinstance(args[1], Agg) and args[1].name and \
                    args[1].name.split("::")[-1] in ("RangeFrom", "Range", "RangeTo"):
                nm = args[1].name.split("::")[-1]
                f = args[1].fields
                lo = f[0].const() if nm in ("RangeFrom", "Range") else 0
                hi = f[1].const() if nm == "Range" else f[0].const() if nm == "RangeTo" else end - start
                if lo is None or hi is None:
                    raise Undecided("slice bounds not constant")
                if not 0 <= lo <= hi <= end - start:
                    return mk_variant("std::option::Option", "None", [])
                return mk_variant("std::option::Option", "Some", [Slice(ref, start + lo, start + hi)])
            if last in ("first", "last"):
                if end == start:
                    return mk_variant("std::option::Option", "None", [])
                i = start if last == "first" else end - 1
                return mk_variant("std::option::Option", "Some", [Ref(ref.frame, ref.local, list(ref.proj) + [{"const_index": i}])])
            return NotImplemented
        m = re.match(r"std::f(64|32)::<impl f(64|32)>::(powi|powf|sqrt|ln|log2|exp|abs|mul_add|recip)$", name)
        if m:
            return Sym((m.group(3),) + tuple(args))
        if re.match(r"(std|alloc)::vec::Vec::<T(, A)?>::(new|with_capacity)$", name):
            return Agg("array", None, None, None, [])
        m = re.match(r"(std|alloc)::vec::Vec::<T(, A)?>::(len|is_empty|push|as_slice|as_mut_slice|capacity)$", name)
        if m and args:
            sl = self.slice_of(args[0])
            if sl is None:
                return NotImplemented
            ref, start, end = sl
            arr = self.project(ref.frame, ref.frame.locals.get(ref.local), ref.proj)
            fn = m.group(3)
            if fn == "len":
                return AI("usize", len(arr.fields), len(arr.fields))
            if fn == "is_empty":
                return AI("bool", int(not arr.fields), int(not arr.fields))
            if fn == "push":
                arr.fields.append(args[1])
                return UNIT
            if fn in ("as_slice", "as_mut_slice"):
                return Slice(ref, 0, len(arr.fields))
            return NotImplemented
        if name in ("std::ops::Deref::deref", "std::ops::DerefMut::deref_mut") and args and fargs and str(fargs[0]).startswith(("std::vec::Vec<", "alloc::vec::Vec<")):
            sl = self.slice_of(args[0])
            if sl is not None:
                return Slice(sl[0], sl[1], sl[2])
        if name in ("std::ops::Index::index", "std::ops::IndexMut::index_mut") and len(args) == 2 and isinstance(args[1], AI):
            sl = self.slice_of(args[0])
            if sl is not None:
                ref, start, end = sl
                c = args[1].const()
                if c is None:
                    if args[1].lo >= end - start:
                        raise Panic("index out of bounds")
                    raise Undecided("index not constant")
                if not 0 <= c < end - start:
                    raise Panic("index out of bounds")
                return Ref(ref.frame, ref.local, list(ref.proj) + [{"const_index": start + c}])
        m = re.match(r"std::slice::ChunksExact(Mut)?::<'a, T>::(remainder|into_remainder)$", name)
        if m:
            it_ = self.as_iter(args[0])
            if it_ is not None and it_.kind == "chunks":
                ref, start, end, k, exact = it_.parts
                rs = start + ((end - start) // k) * k
                return Slice(ref, rs, end)
            return NotImplemented
        m = re.match(r"core::num::<impl (u\d+|usize)>::(from|to)_(be|le|ne)_bytes$", name)
        if m:
            ty, dirn, order = m.group(1), m.group(2), m.group(3)
            nb = TY[ty][0] // 8
            if dirn == "from":
                arr = args[0]
                if isinstance(arr, Ref):
                    arr = self.project(arr.frame, arr.frame.locals.get(arr.local), arr.proj)
                if isinstance(arr, Slice) and arr.end - arr.start == nb:
                    # a fixed-size piece of a slice read as an array (`*chunk`)
                    whole = self.project(arr.ref.frame, arr.ref.frame.locals.get(arr.ref.local), arr.ref.proj)
                    if isinstance(whole, Agg) and whole.kind == "array":
                        arr = Agg("array", None, None, None, list(whole.fields[arr.start:arr.end]))
                if not (isinstance(arr, Agg) and arr.kind == "array" and len(arr.fields) == nb and all(isinstance(b, AI) and b.const() is not None for b in arr.fields)):
                    raise Unsupported("%s of %r" % (name, arr))
                bs = [b.const() for b in arr.fields]
                if order in ("le", "ne"):
                    bs = bs[::-1]
                v = 0
                for b in bs:
                    v = (v << 8) | b
                return AI(ty, v, v)
            x = args[0]
            if not (isinstance(x, AI) and x.const() is not None):
                raise Unsupported("%s of a non-constant" % name)
            bs = [(x.const() >> (8 * i)) & 0xFF for i in range(nb)]
            if order == "be":
                bs = bs[::-1]
            return Agg("array", None, None, None, [AI("u8", b, b) for b in bs])
        if name in ("std::convert::TryInto::try_into", "std::convert::TryFrom::try_from") and args:
            sl = self.slice_of(args[0])
            dst = " ".join(str(a) for a in fargs)
            mm = re.search(r"\[\w+; (\d+)\]", dst)
            if sl is not None and mm:
                ref, start, end = sl
                n = int(mm.group(1))
                if end - start != n:
                    return mk_variant("std::result::Result", "Err", [Opaque("TryFromSliceError")])
                arr = self.project(ref.frame, ref.frame.locals.get(ref.local), ref.proj)
                return mk_variant("std::result::Result", "Ok", [Agg("array", None, None, None, list(arr.fields[start:end]))])
        if name in ("std::ops::IndexMut::index_mut", "std::ops::Index::index") and len(args) == 2 and isinstance(args[1], Agg) and args[1].name and \
                args[1].name.split("::")[-1] in ("RangeFrom", "Range", "RangeTo", "RangeFull"):
            sl = self.slice_of(args[0])
            if sl is not None:
                ref, start, end = sl
                nm = args[1].name.split("::")[-1]
                f = args[1].fields
                lo = f[0].const() if nm in ("RangeFrom", "Range") else 0
                hi = f[1].const() if nm == "Range" else f[0].const() if nm == "RangeTo" else end - start
                if lo is None or hi is None:
                    raise Undecided("slice bounds not constant")
                if not 0 <= lo <= hi <= end - start:
                    raise Panic("slice index out of range")
                return Slice(ref, start + lo, start + hi)
        return NotImplemented

    def iter_call(self, name, args, fargs, fr, t):
        r = self.slice_call(name, args, fargs, fr, t)
        if r is not NotImplemented:
            return r
        depth = 1
        last = name.split("::")[-1]
        if name in ("core::slice::<impl [T]>::iter", "core::slice::<impl [T]>::iter_mut") or re.match(r"core::array::<impl \[T; N\]>::(iter|iter_mut)$", name):
            it_ = self.as_iter(args[0])
            if it_ is not None and it_.kind == "slice":
                return it_
            return NotImplemented
        if name.startswith("std::iter::Iterator::") or name in ("std::iter::IntoIterator::into_iter", "std::iter::once", "std::iter::zip", "core::iter::zip"):
            if name == "std::iter::once":
                return PyIter("once", [args[0], False])
            src = self.as_iter(args[0]) if args else None
            if src is None:
                return NotImplemented
            if name == "std::iter::IntoIterator::into_iter":
                # only the new iterator forms are taken over here; ranges and plain slices keep their existing representation
                v0 = args[0]
                if isinstance(v0, PyIter) or (isinstance(v0, Ref) and isinstance(self.project(v0.frame, v0.frame.locals.get(v0.local), v0.proj), PyIter)):
                    return src
                if isinstance(v0, Agg) and v0.name and v0.name.endswith("ops::RangeFrom"):
                    return src
                return NotImplemented
            if last == "next":
                if not isinstance(self.project(args[0].frame, args[0].frame.locals.get(args[0].local), args[0].proj) if isinstance(args[0], Ref) else args[0], PyIter):
                    return NotImplemented
                try:
                    return mk_variant("std::option::Option", "Some", [src.step(self, fr, t, depth)])
                except StopIteration:
                    return mk_variant("std::option::Option", "None", [])
            if last == "enumerate":
                return PyIter("enumerate", [src, 0])
            if last in ("zip",) and len(args) == 2:
                other = self.as_iter(args[1])
                if other is None:
                    raise Unsupported("zip with %r" % (args[1],))
                return PyIter("zip", [src, other])
            if last == "map":
                return PyIter("map", [src, args[1]])
            if last == "chain":
                other = self.as_iter(args[1])
                if other is None:
                    raise Unsupported("chain with %r" % (args[1],))
                return PyIter("chain", [src, other, False])
            if last in ("copied", "cloned"):
                return PyIter("copied", [src])
            if last == "rev" and src.kind == "slice":
                src.parts[4] = not src.parts[4]
                return src
            if last == "take" and isinstance(args[1], AI) and args[1].const() is not None:
                return PyIter("take", [src, args[1].const()])
            if last == "skip" and isinstance(args[1], AI) and args[1].const() is not None:
                for _ in range(args[1].const()):
                    try:
                        src.step(self, fr, t, depth)
                    except StopIteration:
                        break
                return src
            if last == "step_by" and isinstance(args[1], AI) and args[1].const() is not None and args[1].const() >= 1:
                return PyIter("step_by", [src, args[1].const(), True])
            if last == "filter":
                return PyIter("filter", [src, args[1]])
            if last == "by_ref":
                return args[0]
            if last == "for_each":
                n = 0
                while True:
                    try:
                        x = src.step(self, fr, t, depth)
                    except StopIteration:
                        return UNIT
                    self.apply_callable(args[1], [x], fr, t, depth)
                    n += 1
                    if n > 100000:
                        raise Unsupported("for_each over an unbounded iterator")
            if last == "try_for_each":
                # the closure returns a Result / Option: the first failure is the result, otherwise Ok(()) / Some(())
                n = 0
                kind = None
                while True:
                    try:
                        x = src.step(self, fr, t, depth)
                    except StopIteration:
                        if kind is None:
                            rt = " ".join(str(a) for a in (fargs or []))
                            kind = "std::option::Option" if re.search(r"option::Option<\(\)>", rt) and "Result<" not in rt else "std::result::Result"
                        return mk_variant(kind, "Ok" if kind.endswith("Result") else "Some", [UNIT])
                    r = self.apply_callable(args[1], [x], fr, t, depth)
                    if not isinstance(r, Agg) or r.variant not in ("Ok", "Err", "Some", "None"):
                        raise Unsupported("try_for_each with a closure returning %r" % (r,))
                    kind = "std::result::Result" if r.variant in ("Ok", "Err") else "std::option::Option"
                    if r.variant in ("Err", "None"):
                        return r
                    n += 1
                    if n > 100000:
                        raise Unsupported("try_for_each over an unbounded iterator")
            if last == "fold":
                acc = args[1]
                n = 0
                while True:
                    try:
                        x = src.step(self, fr, t, depth)
                    except StopIteration:
                        return acc
                    acc = self.apply_callable(args[2], [acc, x], fr, t, depth)
                    n += 1
                    if n > 100000:
                        raise Unsupported("fold over an unbounded iterator")
            if last == "collect":
                out = []
                while True:
                    try:
                        out.append(src.step(self, fr, t, depth))
                    except StopIteration:
                        return Agg("array", None, None, None, out)
                    if len(out) > 100000:
                        raise Unsupported("collect of an unbounded iterator")
            if last == "take_while":
                return PyIter("take_while", [src, args[1], False])
            if last == "map_while":
                return PyIter("map_while", [src, args[1], False])
            if last == "count":
                n = 0
                while True:
                    try:
                        src.step(self, fr, t, depth)
                    except StopIteration:
                        return AI("usize", n, n)
                    n += 1
                    if n > 100000:
                        raise Unsupported("count of an unbounded iterator")
        return NotImplemented

    def is_opaque(self, a):
        if isinstance(a, Opaque):
            return True
        if isinstance(a, Ref):
            try:
                v = self.project(a.frame, a.frame.locals.get(a.local), a.proj)
            except Unsupported:
                return False
            return isinstance(v, Opaque) or v is None
        if isinstance(a, Agg):
            return all(self.is_opaque(x) for x in a.fields)
        return False

    def subst(self, fr, a):
        if a in fr.env:
            return fr.env[a]
        if a in ("true", "false"):
            return a == "true"
        if re.fullmatch(r"-?\d+", a):
            return int(a)
        return self.resolve_ty(fr, a)

    def find_body(self, name, fargs):
        bl = self.F.by_path.get(name)
        if bl and len(bl) == 1 and bl[0].get("blocks"):
            return bl[0]
        return None

    # ---- std / core contracts ---------------------------------------------------------------------
    def std_call(self, name, args, fargs, fr, t):
        last = name.split("::")[-1]
        if re.match(r"core::num::<impl \w+>::(from|to)_(be|le|ne)_bytes$", name):
            return self.slice_call(name, args, fargs, fr, t)
        m = re.match(r"common_traits::(?:Integer|Number|UnsignedInt|SignedInt)::(leading_zeros|trailing_zeros|count_ones|count_zeros|leading_ones|trailing_ones|ilog2|wrapping_add|wrapping_sub|wrapping_mul|wrapping_shl|wrapping_shr|min|max)$", name)
        if m and args and isinstance(args[0], AI) and args[0].ty in TY:
            # the dependency's integer traits forward to the inherent methods of the primitive types
            name = "core::num::<impl %s>::%s" % (args[0].ty, m.group(1))
        m = re.match(r"core::num::<impl (\w+)>::(\w+)$", name)
        if m:
            ty, fn = m.group(1), m.group(2)
            x = args[0]
            if not isinstance(x, AI):
                raise Unsupported("%s on %r" % (name, x))
            if fn == "ilog2":
                return self.ilog2(x)
            if fn == "leading_zeros":
                return self.leading_zeros(x)
            if fn in ("wrapping_sub", "wrapping_add", "wrapping_mul", "wrapping_shl", "wrapping_shr"):
                op = {"wrapping_sub": "Sub", "wrapping_add": "Add", "wrapping_mul": "Mul"}.get(fn)
                if op:
                    return self.arith(op, x, args[1], ty)
            if fn in ("wrapping_shl", "wrapping_shr"):
                # the shift amount is taken modulo the width
                k = args[1]
                w = TY[ty][0]
                if not isinstance(k, AI):
                    raise Unsupported(name)
                if k.lo // w != k.hi // w:
                    raise Undecided("wrapping shift amount crosses a multiple of the width")
                km = AI(k.ty, k.lo % w, k.hi % w, k.dir, None)
                if fn == "wrapping_shr":
                    return self.arith("Shr", x, km, ty)
                return self.arith("Shl", x, km, ty)
            if fn in ("min", "max"):
                return self.minmax(fn, x, args[1])
            mm = re.match(r"(checked|saturating)_(add|sub|mul)$", fn)
            if mm and isinstance(args[1], AI):
                op = {"add": "Add", "sub": "Sub", "mul": "Mul"}[mm.group(2)]
                # exact mathematical result first: does it fit the type on the whole cell?
                wide = self.arith(op, AI("i128" if TY[ty][0] <= 64 else ty, x.lo, x.hi, x.dir, x.aff), AI("i128" if TY[ty][0] <= 64 else ty, args[1].lo, args[1].hi, args[1].dir, args[1].aff), "i128") \
                    if TY[ty][0] <= 64 else None
                if wide is None:
                    raise Unsupported(name)
                fits = wide.lo >= tmin(ty) and wide.hi <= tmax(ty)
                out_lo, out_hi = wide.hi < tmin(ty), wide.lo > tmax(ty)
                if mm.group(1) == "checked":
                    if fits:
                        return mk_variant("std::option::Option", "Some", [AI(ty, wide.lo, wide.hi, wide.dir, wide.aff)])
                    if out_lo or out_hi:
                        return mk_variant("std::option::Option", "None", [])
                    raise Undecided("%s may overflow" % fn)
                if fits:
                    return AI(ty, wide.lo, wide.hi, wide.dir, wide.aff)
                if out_lo:
                    return AI(ty, tmin(ty), tmin(ty))
                if out_hi:
                    return AI(ty, tmax(ty), tmax(ty))
                raise Undecided("%s may saturate" % fn)
            if fn in ("trailing_zeros", "count_ones", "leading_ones", "trailing_ones", "count_zeros"):
                c = x.const()
                w = TY[ty][0]
                if c is not None:
                    u = c & ((1 << w) - 1)
                    r = {"trailing_zeros": (u & -u).bit_length() - 1 if u else w, "count_ones": bin(u).count("1"),
                         "count_zeros": w - bin(u).count("1"),
                         "leading_ones": w - ((~u) & ((1 << w) - 1)).bit_length(),
                         "trailing_ones": ((~u & (u + 1)).bit_length() - 1)}[fn]
                    return AI("u32", r, r)
                if fn == "trailing_zeros" and x.aff is not None:
                    # x = a*y + b (mod 2^w): below the lowest set bit of a the bits of x are those of b
                    a_, b_ = x.aff
                    ta = ((a_ & -a_).bit_length() - 1) if a_ else w
                    bm = b_ % (1 << w)
                    tb = ((bm & -bm).bit_length() - 1) if bm else w
                    if tb < min(ta, w):
                        return AI("u32", tb, tb)
                return AI("u32", 0, w)
            if fn == "div_ceil":
                y = args[1]
                q = self.arith("Div", x, y, ty)
                r = self.arith("Rem", x, y, ty)
                if r.const() == 0:
                    return q
                if r.lo > 0:
                    return self.arith("Add", q, AI(ty, 1, 1), ty)
                cy = y.const()
                if cy is not None and cy > 0 and x.lo >= 0:
                    return AI(ty, -(-x.lo // cy), -(-x.hi // cy), x.dir)
                raise Undecided("div_ceil remainder")
            if fn == "pow":
                cx, cy = x.const(), args[1].const()
                if cx is not None and cy is not None:
                    return self.norm(ty, cx ** cy, cx ** cy)
            if fn in ("to_be", "to_le", "swap_bytes"):
                raise Unsupported(name)
            raise Unsupported("integer method %s" % name)
        if name in ("std::cmp::Ord::min", "std::cmp::Ord::max", "std::cmp::min", "std::cmp::max", "core::cmp::min", "core::cmp::max"):
            return self.minmax(last, args[0], args[1])
        if name == "core::slice::<impl [T]>::len":
            s = args[0]
            if isinstance(s, Slice):
                return AI("usize", s.end - s.start, s.end - s.start)
            if isinstance(s, Ref):
                arr = self.project(s.frame, s.frame.locals.get(s.local), s.proj)
                if isinstance(arr, Agg):
                    return AI("usize", len(arr.fields), len(arr.fields))
            raise Unsupported("len of %r" % (s,))
        if name == "core::slice::<impl [T]>::get" and isinstance(args[0], Slice) and isinstance(args[1], AI):
            sl, i = args
            n = sl.end - sl.start
            if i.lo >= n:
                return mk_variant("std::option::Option", "None", [])
            if i.hi >= n or i.lo < 0:
                raise Undecided("table index may be out of range")
            arr = self.project(sl.ref.frame, sl.ref.frame.locals.get(sl.ref.local), sl.ref.proj)
            vals = arr.fields[sl.start + i.lo: sl.start + i.hi + 1]
            c0 = vals[0].const() if isinstance(vals[0], AI) else None
            if c0 is None or any(not isinstance(e, AI) or e.const() != c0 for e in vals):
                raise Undecided("table entries differ over the cell")
            return mk_variant("std::option::Option", "Some", [Ref(sl.ref.frame, sl.ref.local, list(sl.ref.proj) + [{"const_index": sl.start + i.lo}])])
        if name == "std::ops::Index::index":
            base, idx = args
            if isinstance(base, Ref):
                arr = self.project(base.frame, base.frame.locals.get(base.local), base.proj)
                if isinstance(arr, Agg) and arr.kind == "array":
                    base = Slice(base, 0, len(arr.fields))
            if isinstance(base, Slice) and isinstance(idx, Agg) and idx.name and idx.name.split("::")[-1] in ("RangeFrom", "Range", "RangeTo"):
                nm = idx.name.split("::")[-1]
                n = base.end - base.start
                lo = idx.fields[0] if nm in ("RangeFrom", "Range") else AI("usize", 0, 0)
                hi = idx.fields[1] if nm == "Range" else idx.fields[0] if nm == "RangeTo" else AI("usize", n, n)
                if lo.const() is None or hi.const() is None:
                    raise Undecided("slice bounds not constant")
                if not 0 <= lo.const() <= hi.const() <= n:
                    raise Panic("slice index out of range")
                return Slice(base.ref, base.start + lo.const(), base.start + hi.const())
            raise Unsupported("index of %r by %r" % (base, idx))
        r = self.iter_call(name, args, fargs, fr, t)
        if r is not NotImplemented:
            return r
        if name == "std::iter::IntoIterator::into_iter":
            s = args[0]
            if isinstance(s, Slice):
                return Agg("iter", "slice", None, None, [s, AI("usize", 0, 0)])
            if isinstance(s, Agg) and s.name and s.name.endswith("ops::Range"):
                return s
            if isinstance(s, Agg) and s.kind == "array":
                return Agg("iter", "array", None, None, [s, AI("usize", 0, 0)])
            if isinstance(s, Ref):
                arr = self.project(s.frame, s.frame.locals.get(s.local), s.proj)
                if isinstance(arr, Agg) and arr.kind == "array":
                    return Agg("iter", "slice", None, None, [Slice(s, 0, len(arr.fields)), AI("usize", 0, 0)])
            raise Unsupported("into_iter of %r" % (s,))
        if name == "std::iter::Iterator::next":
            r = args[0]
            if not isinstance(r, Ref):
                raise Unsupported("next on %r" % (r,))
            it = self.project(r.frame, r.frame.locals.get(r.local), r.proj)
            if isinstance(it, Agg) and it.kind == "iter" and it.name == "array":
                arr, cur = it.fields
                c = cur.const()
                if c >= len(arr.fields):
                    return mk_variant("std::option::Option", "None", [])
                it.fields[1] = AI("usize", c + 1, c + 1)
                return mk_variant("std::option::Option", "Some", [arr.fields[c]])
            if isinstance(it, Agg) and it.kind == "iter":
                s, cur = it.fields
                c = cur.const()
                if c >= s.end - s.start:
                    return mk_variant("std::option::Option", "None", [])
                it.fields[1] = AI("usize", c + 1, c + 1)
                arrref = s.ref
                elem = Ref(arrref.frame, arrref.local, list(arrref.proj) + [{"const_index": s.start + c}])
                return mk_variant("std::option::Option", "Some", [elem])
            if isinstance(it, Agg) and it.name and it.name.endswith("ops::Range"):
                a, b = it.fields
                lt = self.compare("Lt", a, b).const()
                if lt is None:
                    raise Undecided("range iteration bound")
                if not lt:
                    return mk_variant("std::option::Option", "None", [])
                it.fields[0] = self.arith("Add", a, AI(a.ty, 1, 1), a.ty)
                return mk_variant("std::option::Option", "Some", [a])
            raise Unsupported("next on %r" % (it,))
        if re.match(r"std::option::Option::<&(mut |'\w+ )?T>::(copied|cloned)$", name) and isinstance(args[0], Agg):
            v = args[0]
            if v.variant == "None":
                return v
            if v.variant == "Some":
                x = v.fields[0]
                for _ in range(4):
                    if isinstance(x, Ref):
                        x = self.project(x.frame, x.frame.locals.get(x.local), x.proj)
                return mk_variant("std::option::Option", "Some", [x])
        if name in ("std::any::TypeId::of", "core::any::TypeId::of"):
            return Opaque(("typeid", fargs[0]))
        if name in ("std::cmp::PartialEq::eq", "std::cmp::PartialEq::ne") and len(args) == 2:
            vs = []
            for a in args:
                for _ in range(4):          # `&&usize == &&usize` compares the referents
                    if isinstance(a, Ref):
                        a = self.project(a.frame, a.frame.locals.get(a.local), a.proj)
                vs.append(a)
            if all(isinstance(v, Opaque) and isinstance(v.what, tuple) and v.what[0] == "typeid" for v in vs):
                known = all(isinstance(v.what[1], str) and "::" in v.what[1] for v in vs)
                if not known:
                    raise Unsupported("TypeId of an unbound type parameter %r" % ([v.what[1] for v in vs],))
                r = int((vs[0].what[1] == vs[1].what[1]) == name.endswith("eq"))
                return AI("bool", r, r)
            if all(isinstance(v, AI) for v in vs):
                return self.compare("Eq" if name.endswith("eq") else "Ne", vs[0], vs[1])
        m = re.match(r"std::cmp::PartialOrd::(lt|le|gt|ge)$", name)
        if m and len(args) == 2:
            vs = []
            for a in args:
                if isinstance(a, Ref):
                    a = self.project(a.frame, a.frame.locals.get(a.local), a.proj)
                vs.append(a)
            if all(isinstance(v, AI) for v in vs):
                return self.compare({"lt": "Lt", "le": "Le", "gt": "Gt", "ge": "Ge"}[m.group(1)], vs[0], vs[1])
        if name == "std::ops::Try::branch":
            v = args[0]
            if isinstance(v, Agg) and v.variant == "Ok":
                return mk_variant("std::ops::ControlFlow", "Continue", [v.fields[0]])
            if isinstance(v, Agg) and v.variant == "Some":
                return mk_variant("std::ops::ControlFlow", "Continue", [v.fields[0]])
            if isinstance(v, Agg) and v.variant in ("Err", "None"):
                return mk_variant("std::ops::ControlFlow", "Break", [v])
            raise Unsupported("Try::branch of %r" % (v,))
        if name == "std::ops::FromResidual::from_residual":
            return args[0]
        if name in ("std::convert::From::from", "std::convert::Into::into") and isinstance(args[0], AI):
            dst = self.resolve_ty(fr, fargs[0] if name.endswith("from") else fargs[1]) if fargs else None
            if dst in TY:
                return self.cast(args[0], dst)
        if name in ("std::convert::TryInto::try_into", "std::convert::TryFrom::try_from") and isinstance(args[0], AI):
            dst = self.resolve_ty(fr, fargs[1] if name.endswith("try_into") else fargs[0])
            if dst in TY:
                x = args[0]
                if x.lo >= tmin(dst) and x.hi <= tmax(dst):
                    return mk_variant("std::result::Result", "Ok", [AI(dst, x.lo, x.hi, x.dir, x.aff)])
                if x.hi < tmin(dst) or x.lo > tmax(dst):
                    return mk_variant("std::result::Result", "Err", [Opaque("TryFromIntError")])
                raise Undecided("try_into range")
        if re.match(r"std::(result::Result|option::Option)<.*>::(unwrap|expect)$", name) or name.endswith("::unwrap") and isinstance(args[0], Agg):
            v = args[0]
            if isinstance(v, Agg) and v.variant in ("Ok", "Some"):
                return v.fields[0]
            if isinstance(v, Agg) and v.variant in ("Err", "None"):
                raise Panic("unwrap of %s" % v.variant)
        if name in ("common_traits::CastableInto::cast", "common_traits::UpcastableInto::upcast", "common_traits::DowncastableInto::downcast") and isinstance(args[0], AI):
            # contract of the dependency: the `as` conversion to the named integer type
            dst = fargs[-1] if fargs else None
            if dst in TY and dst != "bool":
                return self.cast(args[0], dst)
            raise Unsupported("%s to %r" % (name, dst))
        last = name.split("::")[-1]
        if last in ("rotate_right", "rotate_left") and len(args) == 2 and isinstance(args[0], AI) and isinstance(args[1], AI) \
                and (name.startswith(("common_traits::Integer::", "core::num::", "std::num::")) or re.match(r"[ui]\d+::|usize::|isize::", name)):
            x, k = args
            w = TY[x.ty][0]
            kc = k.const()
            if kc is not None and x.lo >= 0:
                kc %= w
                if last == "rotate_left":
                    kc = (w - kc) % w
                if kc == 0:
                    return x
                c = x.const()
                if c is not None:
                    v = ((c >> kc) | (c << (w - kc))) & ((1 << w) - 1)
                    return AI(x.ty, v, v)
                if x.hi < (1 << kc):                 # only the rotated-out bits are set: a left shift by w - k
                    return self.arith("Shl", x, AI("u32", w - kc, w - kc), x.ty)
                if x.aff is not None and self.exact(x) and x.aff[0] % (1 << kc) == 0 and x.aff[1] % (1 << kc) == 0:
                    return self.arith("Shr", x, AI("u32", kc, kc), x.ty)      # low k bits clear: a right shift
            return self.top(x.ty)
        if last in ("to_be", "to_le", "from_be", "from_le", "swap_bytes") and len(args) == 1 and isinstance(args[0], AI) \
                and (name.startswith(("common_traits::Integer::", "core::num::", "std::num::")) or re.match(r"[ui]\d+::|usize::|isize::", name)):
            x = args[0]
            w = TY[x.ty][0]
            if last in ("to_le", "from_le") or w == 8:            # the analysis fixes a little-endian target (as the facts do)
                return x
            c = x.const()
            if c is not None and c >= 0:
                v = int.from_bytes(c.to_bytes(w // 8, "little"), "big")
                return AI(x.ty, v, v) if v <= tmax(x.ty) else self.top(x.ty)
            return self.top(x.ty)
        if name in ("common_traits::UnsignedInt::to_signed", "common_traits::SignedInt::to_unsigned") and isinstance(args[0], AI):
            # contract of the dependency: reinterpretation of the same bits in the same-width type of the other signedness
            x = args[0]
            if x.ty not in TY or x.ty == "bool":
                raise Unsupported(name)
            dst = ("i" if name.endswith("to_signed") else "u") + x.ty[1:]
            return self.cast(x, dst)
        # operator traits on integers (generic code): std::ops::Shl::shl(a, b) etc.
        m = re.match(r"std::ops::(Shl|Shr|BitAnd|BitOr|BitXor|Add|Sub|Mul|Div|Rem)::(\w+)$", name)
        if m and len(args) == 2:
            # operators are also implemented for references to integers (`&a - b`): same arithmetic on the referents
            der = []
            for a in args:
                if isinstance(a, Ref):
                    try:
                        a = self.project(a.frame, a.frame.locals.get(a.local), a.proj)
                    except Unsupported:
                        pass
                der.append(a)
            if all(isinstance(a, AI) for a in der):
                args = der
        if m and len(args) == 2 and isinstance(args[0], AI) and isinstance(args[1], AI):
            op = m.group(1)
            x, y = args
            if op in ("Add", "Sub", "Mul"):
                r, ov = self.arith(op, x, y, x.ty, want_overflow=True)
                c = ov.const()
                if c is None:
                    raise Undecided("operator overflow")
                if c:
                    raise Panic("arithmetic overflow in %s" % name)
                return r
            return self.arith(op, x, y, x.ty)
        # compound assignment through the operator traits (generic words): `*a op= b`
        m = re.match(r"std::ops::(Shl|Shr|BitAnd|BitOr|BitXor|Add|Sub|Mul|Div|Rem)Assign::(\w+)$", name)
        if m and len(args) == 2 and isinstance(args[0], Ref):
            cur = self.project(args[0].frame, args[0].frame.locals.get(args[0].local), args[0].proj)
            rhs = args[1]
            if isinstance(rhs, Ref):
                rhs = self.project(rhs.frame, rhs.frame.locals.get(rhs.local), rhs.proj)
            if isinstance(cur, AI) and isinstance(rhs, AI):
                r = self.std_call("std::ops::%s::%s" % (m.group(1), m.group(2).replace("_assign", "")), [cur, rhs], fargs, fr, t)
                if r is None or r is NotImplemented:
                    raise Unsupported(name)
                self.write_proj(args[0].frame, args[0].local, list(args[0].proj), r)
                return UNIT
        m = re.match(r"std::ops::(Neg|Not)::(\w+)$", name)
        if m and isinstance(args[0], AI):
            return self.unop(m.group(1), args[0], args[0].ty)
        return NotImplemented

    def minmax(self, which, x, y):
        if not isinstance(x, AI) or not isinstance(y, AI):
            raise Unsupported("min/max of non-integers")
        f = min if which == "min" else max
        # one operand dominates on the whole cell: the result is the other operand itself (with everything known about it)
        if which == "min":
            if x.hi <= y.lo:
                return x
            if y.hi <= x.lo:
                return y
        else:
            if x.lo >= y.hi:
                return x
            if y.lo >= x.hi:
                return y
        d = x.dir if x.dir == y.dir else (y.dir if x.dir == "c" else x.dir if y.dir == "c" else None)
        if d in ("up", "down", "c"):
            # both monotone the same way: min/max is monotone, end values exact
            return AI(x.ty, f(x.lo, y.lo), f(x.hi, y.hi), d)
        return AI(x.ty, f(x.lo, y.lo), f(x.hi, y.hi), None)


# ---- partition driver -----------------------------------------------------------------------------------
class Cell:
    __slots__ = ("y0", "y1", "status", "ret", "events", "trace", "why")

    def __init__(self, y0, y1, status, ret=None, events=None, trace=None, why=None):
        self.y0, self.y1, self.status, self.ret, self.events, self.trace, self.why = y0, y1, status, ret, events, trace, why

    def __repr__(self):
        return "[%d,%d] %s %r" % (self.y0, self.y1, self.status, self.ret if self.status == "ok" else self.why)


def partition(F, run, y0, y1, max_cells=20000, refine=None):
    """run(interp) -> return value; explores [y0, y1] splitting cells on Undecided.  Returns the ordered list of cells
    (status ok | panic).  Raises Unsupported when a construct is outside the interpreter or the cell budget is exceeded."""
    out = []
    stack = [(y0, y1)]
    n = 0
    while stack:
        a, b = stack.pop()
        n += 1
        if n > max_cells * 4:
            raise Unsupported("cell budget exhausted")
        it = Interp(F, a, b)
        try:
            r = run(it)
            if refine is not None and a < b and refine(r, it):
                raise Undecided("result not constant over the cell")
            out.append(Cell(a, b, "ok", r, it.events, tuple(it.trace)))
        except Panic as e:
            out.append(Cell(a, b, "panic", why=str(e), events=it.events, trace=tuple(it.trace)))
        except Undecided as e:
            if a == b:
                raise Unsupported("undecided on the single value %d: %s" % (a, e))
            mid = (a + b) // 2
            stack.append((mid + 1, b))
            stack.append((a, mid))
        if len(out) > max_cells:
            raise Unsupported("more than %d cells" % max_cells)
    out.sort(key=lambda c: c.y0)
    return out


def merge(cells, same):
    """merge adjacent cells that `same` considers indistinguishable"""
    out = []
    for c in cells:
        if out and out[-1].y1 + 1 == c.y0 and out[-1].status == c.status and same(out[-1], c):
            p = out[-1]
            out[-1] = Cell(p.y0, c.y1, p.status, p.ret, p.events, p.trace, p.why)
        else:
            out.append(c)
    return out

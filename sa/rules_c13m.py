"""C13 — in-memory word streams behave as an array with a cursor, decided by interpreting the methods themselves.

Every method of the four word streams (zero-extended reader, strict reader, slice writer, vector writer) is interpreted by the
value-partition interpreter (sa/ivl.py) on storages of 0..=3 words with pairwise different contents and on every cursor cell
(every position up to two beyond the end as a singleton, and the whole range of far positions as one cell), and its result,
the cursor afterwards and the storage afterwards are compared with the array-plus-cursor model of the property.  The shape of
the code (get/copied/unwrap_or, match, if/else, helper functions, early returns) does not matter: only what it computes.

The storage type parameter is instantiated with a slice (`B: AsRef<[W]>`) or a vector (`B: AsRef<Vec<W>>`); `as_ref`/`as_mut`
are the identity views their documentation promises.  The methods use the storage length only through `len()` and
`get`/`get_mut`/indexing, which the interpreter decides exactly for every cell (a cell never straddles the end).
"""
import ivl
from ivl import AI, Agg, Ref, Slice, Opaque, Frame, Unsupported, Undecided, Panic, mk_variant, UNIT

UMAX = (1 << 64) - 1
TYPES = {
    "MemWordReader<W, B>": ("impls::mem_word_reader::MemWordReader<W, B>", "inf", "impls::mem_word_reader::MemWordReader"),
    "MemWordReader<W, B, false>": ("impls::mem_word_reader::MemWordReader<W, B, false>", "strict", "impls::mem_word_reader::MemWordReader"),
    "MemWordWriterSlice<W, B>": ("impls::mem_word_writer::MemWordWriterSlice<W, B>", "slice", "impls::mem_word_writer::MemWordWriterSlice"),
    "MemWordWriterVec<W, B>": ("impls::mem_word_writer::MemWordWriterVec<W, B>", "vec", "impls::mem_word_writer::MemWordWriterVec"),
}
WORDS = [0xA1, 0xB2, 0xC3, 0xD4, 0xE5, 0xF6]
NEWWORD = 0x5E


def deref(it, v):
    for _ in range(4):
        if isinstance(v, Ref):
            v = it.project(v.frame, v.frame.locals.get(v.local), v.proj)
    return v


def storage_of(it, v):
    """(array aggregate, Ref to it) behind a storage value: a slice view or a reference to the vector"""
    if isinstance(v, Slice):
        return deref(it, v.ref), v.ref
    r = v
    for _ in range(4):
        if isinstance(r, Ref):
            x = it.project(r.frame, r.frame.locals.get(r.local), r.proj)
            if isinstance(x, Agg) and x.kind == "array":
                return x, r
            if isinstance(x, Slice):
                return deref(it, x.ref), x.ref
            r = x
    if isinstance(r, Agg) and r.kind == "array":
        return r, None
    raise Unsupported("storage %r" % (v,))


def h_view(it, name, args, fargs, fr, t):
    """AsRef::as_ref / AsMut::as_mut / Deref / Borrow on the storage: the identity view (std docs)"""
    arr, ref = storage_of(it, args[0])
    if ref is None:
        raise Unsupported("view of a storage value without a place")
    want_slice = any(isinstance(a, str) and a.strip().startswith("[") for a in fargs[1:]) or name.endswith("deref") or name.endswith("deref_mut") \
        or name.endswith("as_slice") or name.endswith("as_mut_slice")
    return Slice(ref, 0, len(arr.fields)) if want_slice else ref


def h_len(it, name, args, fargs, fr, t):
    arr, _ = storage_of(it, args[0])
    if isinstance(args[0], Slice):
        n = args[0].end - args[0].start
    else:
        n = len(arr.fields)
    return AI("usize", n, n)


def h_get(it, name, args, fargs, fr, t):
    arr, ref = storage_of(it, args[0])
    i = args[1]
    if not isinstance(i, AI):
        raise Unsupported("%s with a non-integer index" % name)
    n = len(arr.fields)
    if i.lo >= n:
        return mk_variant("std::option::Option", "None", [])
    if i.hi >= n or i.lo != i.hi:
        raise Undecided("index cell straddles the end of the storage")
    return mk_variant("std::option::Option", "Some", [Ref(ref.frame, ref.local, list(ref.proj) + [{"const_index": i.lo}])])


def h_index(it, name, args, fargs, fr, t):
    arr, ref = storage_of(it, args[0])
    i = args[1]
    if not isinstance(i, AI):
        return NotImplemented
    if i.lo >= len(arr.fields):
        raise Panic("index out of bounds")
    if i.lo != i.hi:
        raise Undecided("index cell")
    return Ref(ref.frame, ref.local, list(ref.proj) + [{"const_index": i.lo}])


def h_copied(it, name, args, fargs, fr, t):
    v = args[0]
    if isinstance(v, Agg) and v.variant == "Some":
        return mk_variant("std::option::Option", "Some", [deref(it, v.fields[0])])
    if isinstance(v, Agg) and v.variant == "None":
        return v
    return NotImplemented


def h_resize(it, name, args, fargs, fr, t):
    arr, _ = storage_of(it, args[0])
    n, val = args[1], args[2]
    if not isinstance(n, AI) or n.const() is None:
        raise Undecided("resize length")
    k = n.const()
    if k > 64:
        raise Unsupported("resize to %d words" % k)
    if k < len(arr.fields):
        del arr.fields[k:]
    while len(arr.fields) < k:
        arr.fields.append(val)
    return UNIT


def h_truncate(it, name, args, fargs, fr, t):
    arr, _ = storage_of(it, args[0])
    n = args[1]
    if not isinstance(n, AI) or n.const() is None:
        if isinstance(n, AI) and n.lo >= len(arr.fields):
            return UNIT
        raise Undecided("truncate length")
    if n.const() < len(arr.fields):
        del arr.fields[n.const():]
    return UNIT


def h_is_empty(it, name, args, fargs, fr, t):
    arr, _ = storage_of(it, args[0])
    n = (args[0].end - args[0].start) if isinstance(args[0], Slice) else len(arr.fields)
    return AI("bool", int(n == 0), int(n == 0))


def h_unit(it, name, args, fargs, fr, t):
    return UNIT


def h_push(it, name, args, fargs, fr, t):
    arr, _ = storage_of(it, args[0])
    arr.fields.append(args[1])
    return UNIT


def h_opaque(it, name, args, fargs, fr, t):
    return Opaque(("foreign", name))


def handlers():
    hs = {}
    for nm in ("std::convert::AsRef::as_ref", "std::convert::AsMut::as_mut", "std::ops::Deref::deref", "std::ops::DerefMut::deref_mut",
               "std::borrow::Borrow::borrow", "std::borrow::BorrowMut::borrow_mut", "alloc::vec::Vec::<T, A>::as_slice",
               "alloc::vec::Vec::<T, A>::as_mut_slice", "std::vec::Vec::<T, A>::as_slice", "std::vec::Vec::<T, A>::as_mut_slice"):
        hs[nm] = h_view
    for nm in ("core::slice::<impl [T]>::len", "alloc::vec::Vec::<T, A>::len", "std::vec::Vec::<T, A>::len", "common_traits::Sequence::len"):
        hs[nm] = h_len
    for nm in ("core::slice::<impl [T]>::get", "core::slice::<impl [T]>::get_mut"):
        hs[nm] = h_get
    for nm in ("std::ops::Index::index", "std::ops::IndexMut::index_mut"):
        hs[nm] = h_index
    for nm in ("std::option::Option::<&T>::copied", "std::option::Option::<&T>::cloned", "std::option::Option::<&mut T>::copied",
               "std::option::Option::<&'a T>::copied", "std::option::Option::<&'a T>::cloned"):
        hs[nm] = h_copied
    for nm in ("alloc::vec::Vec::<T, A>::resize", "std::vec::Vec::<T, A>::resize"):
        hs[nm] = h_resize
    for nm in ("alloc::vec::Vec::<T, A>::push", "std::vec::Vec::<T, A>::push"):
        hs[nm] = h_push
    for pre in ("alloc::vec::Vec::<T, A>::", "std::vec::Vec::<T, A>::"):
        hs[pre + "truncate"] = h_truncate
        hs[pre + "is_empty"] = h_is_empty
        hs[pre + "reserve"] = h_unit
        hs[pre + "reserve_exact"] = h_unit
        hs[pre + "shrink_to_fit"] = h_unit
    hs["core::slice::<impl [T]>::is_empty"] = h_is_empty
    for nm in ("std::io::Error::new", "std::io::Error::other", "std::io::Error::from"):
        hs[nm] = h_opaque
    return hs


def cursor_cells(n):
    return [(c, c) for c in range(0, n + 3)] + [(n + 3, UMAX - 1)]


def setup(F, it, adt, kind, n, cur):
    """a stream over n words with the cursor `cur` (an abstract integer); returns (Ref to the stream, holder frame, array)"""
    flds = [f["name"] for f in F.adts[adt]["variants"][0]["fields"]]
    store = Frame({"path": "storage"}, {})
    arr = Agg("array", None, None, None, [AI("u64", w, w) for w in WORDS[:n]])
    store.locals[0] = arr
    data = Slice(Ref(store, 0, ()), 0, n) if kind != "vec" else Ref(store, 0, ())
    vals = {"data": data, "word_index": cur}
    h = Frame({"path": "stream"}, {})
    h.locals[0] = Agg("adt", adt, adt.split("::")[-1], 0, [vals.get(f, UNIT) for f in flds])
    return Ref(h, 0, ()), h, arr, flds.index("word_index")


def run(chk, F, tier):
    chk.rule("K.read_word", floor=4, doc="read_word interpreted on storages of 0..=3 words x every cursor cell: returns the word under the cursor and advances; beyond the end the strict streams report an error without moving the cursor, the zero-extended reader yields zero and advances")
    chk.rule("K.write_word", floor=2, doc="write_word interpreted likewise: stores the argument at the cursor (vector: after zero-filled growth to cursor+1) and advances, leaves every other word alone; the fixed slice reports an error beyond the end and changes nothing")
    chk.rule("K.word_pos", floor=4, doc="word_pos interpreted on every cursor cell: returns the cursor, changes nothing")
    chk.rule("K.set_word_pos", floor=4, doc="set_word_pos interpreted on every (cursor, argument) cell pair: accepted positions (<= length; any for the zero-extended reader) become the cursor; a rejected one reports an error and leaves the cursor")
    chk.rule("K.len", floor=2, doc="len() interpreted on storages of 0..=3 words: the number of words")
    hs = handlers()
    NMAX = 4 if tier != "thorough" else 7          # storages of 0..=3 words (quick) / 0..=6 words (thorough)
    for tname, (sty, kind, adt) in sorted(TYPES.items()):
        def method(tr, nm):
            l = [b for b in F.bodies if b["kind"] == "AssocFn" and b.get("impl_self") == sty and (b.get("impl_trait_def") or "") == tr
                 and b["path"].endswith("::" + nm)]
            return l[0] if len(l) == 1 else None

        def interp(body, n, cell, extra=lambda it: []):
            """-> (result, cursor after, words after, cursor before, interpreter) or an exception text"""
            it = ivl.Interp(F, cell[0], cell[1], hs)
            cur = it.input("usize")
            sref, h, arr, ci = setup(F, it, adt, kind, n, cur)
            env = {g: ("u64" if g == "W" else g) for g in (body.get("generics") or [])}
            r = it.call_body(body, [sref] + extra(it), env, 0)
            return r, h.locals[0].fields[ci], [w.const() if isinstance(w, AI) else None for w in arr.fields], cur, it

        def same_aff(it, x, cur, d):
            """x == cur + d on the whole cell"""
            if not isinstance(x, AI):
                return False
            if cur.const() is not None:
                return x.const() == cur.const() + d
            return it.exact(x) and x.aff == (1, d)

        def attempt(probs, what, fn):
            try:
                return fn()
            except (Undecided, Unsupported, Panic) as ex:
                probs.append("%s: %s: %s" % (what, type(ex).__name__, ex))
                return None

        # ---- read_word
        b = method("traits::words::WordRead", "read_word")
        probs = []
        ncells = 0
        if b is None:
            probs.append("not found")
        else:
            for n in range(0, NMAX):
                for cell in cursor_cells(n):
                    what = "len %d, cursor %s" % (n, list(cell) if cell[0] != cell[1] else cell[0])
                    res = attempt(probs, what, lambda: interp(b, n, cell))
                    if res is None:
                        continue
                    ncells += 1
                    r, c1, words, cur, it = res
                    inside = cell[1] < n
                    okv = isinstance(r, Agg) and r.variant == "Ok"
                    val = r.fields[0].const() if okv and isinstance(r.fields[0], AI) else None
                    if words != WORDS[:n]:
                        probs.append("%s: storage changed to %s" % (what, words))
                    if inside:
                        if not (okv and val == WORDS[cell[0]] and same_aff(it, c1, cur, 1)):
                            probs.append("%s: returns %s and leaves the cursor at %s (expected Ok(word %d), cursor + 1)" % (what, r, c1, cell[0]))
                    elif kind == "inf":
                        if not (okv and val == 0 and same_aff(it, c1, cur, 1)):
                            probs.append("%s: beyond the end returns %s, cursor %s (expected Ok(0), cursor + 1)" % (what, r, c1))
                    else:
                        if not (isinstance(r, Agg) and r.variant == "Err" and same_aff(it, c1, cur, 0)):
                            probs.append("%s: beyond the end returns %s, cursor %s (expected an error and an unchanged cursor)" % (what, r, c1))
        chk.expect("K.read_word", tname, not probs, "%s::read_word: %s" % (tname, "; ".join(probs[:4])), detail={"problems": probs[:20]},
                   sample={"type": tname, "cells": ncells})
        # ---- write_word
        if kind in ("slice", "vec"):
            b = method("traits::words::WordWrite", "write_word")
            probs = []
            ncells = 0
            if b is None:
                probs.append("not found")
            else:
                for n in range(0, NMAX):
                    for cell in cursor_cells(n)[:-1] + ([] if kind == "vec" else [cursor_cells(n)[-1]]):
                        what = "len %d, cursor %s" % (n, list(cell) if cell[0] != cell[1] else cell[0])
                        res = attempt(probs, what, lambda: interp(b, n, cell, lambda it: [AI("u64", NEWWORD, NEWWORD)]))
                        if res is None:
                            continue
                        ncells += 1
                        r, c1, words, cur, it = res
                        okv = isinstance(r, Agg) and r.variant == "Ok"
                        c = cell[0]
                        if cell[1] < n or kind == "vec":
                            want = list(WORDS[:n]) + [0] * max(0, c + 1 - n)
                            want[c] = NEWWORD
                            if not (okv and words == want and same_aff(it, c1, cur, 1)):
                                probs.append("%s: returns %s, storage %s, cursor %s (expected Ok, storage %s, cursor + 1)" % (what, r, words, c1, want))
                        else:
                            if not (isinstance(r, Agg) and r.variant == "Err" and words == WORDS[:n] and same_aff(it, c1, cur, 0)):
                                probs.append("%s: beyond the end returns %s, storage %s, cursor %s (expected an error, nothing changed)" % (what, r, words, c1))
            chk.expect("K.write_word", tname, not probs, "%s::write_word: %s" % (tname, "; ".join(probs[:4])), detail={"problems": probs[:20]},
                       sample={"type": tname, "cells": ncells})
        # ---- word_pos
        b = method("traits::words::WordSeek", "word_pos")
        probs = []
        if b is None:
            probs.append("not found")
        else:
            for n in (0, 2):
                for cell in cursor_cells(n):
                    what = "len %d, cursor %s" % (n, list(cell))
                    res = attempt(probs, what, lambda: interp(b, n, cell))
                    if res is None:
                        continue
                    r, c1, words, cur, it = res
                    ok = isinstance(r, Agg) and r.variant == "Ok" and same_aff(it, r.fields[0], cur, 0) and same_aff(it, c1, cur, 0) and words == WORDS[:n]
                    if not ok:
                        probs.append("%s: returns %s, cursor afterwards %s" % (what, r, c1))
        chk.expect("K.word_pos", tname, not probs, "%s::word_pos does not return the cursor: %s" % (tname, "; ".join(probs[:3])), sample={"type": tname})
        # ---- set_word_pos: the argument is the cell variable, the cursor a constant
        b = method("traits::words::WordSeek", "set_word_pos")
        probs = []
        ncells = 0
        if b is None:
            probs.append("not found")
        else:
            for n in range(0, NMAX):
                for c0 in (0, n, n + 2):
                    for cell in [(x, x) for x in range(0, n + 3)] + [(n + 3, UMAX)]:
                        what = "len %d, cursor %d, position %s" % (n, c0, list(cell) if cell[0] != cell[1] else cell[0])

                        def go():
                            it = ivl.Interp(F, cell[0], cell[1], hs)
                            x = it.input("u64")
                            sref, h, arr, ci = setup(F, it, adt, kind, n, AI("usize", c0, c0))
                            env = {g: ("u64" if g == "W" else g) for g in (b.get("generics") or [])}
                            r = it.call_body(b, [sref, x], env, 0)
                            return r, h.locals[0].fields[ci], [w.const() if isinstance(w, AI) else None for w in arr.fields], x, it
                        res = attempt(probs, what, go)
                        if res is None:
                            continue
                        ncells += 1
                        r, c1, words, x, it = res
                        accept = kind == "inf" or cell[1] <= n
                        if words != WORDS[:n]:
                            probs.append("%s: storage changed" % what)
                        if accept:
                            if not (isinstance(r, Agg) and r.variant == "Ok" and same_aff(it, c1, x, 0)):
                                probs.append("%s: returns %s, cursor %s (expected Ok and the cursor at the position)" % (what, r, c1))
                        else:
                            if not (isinstance(r, Agg) and r.variant == "Err" and isinstance(c1, AI) and c1.const() == c0):
                                probs.append("%s: returns %s, cursor %s (expected an error and the cursor left at %d)" % (what, r, c1, c0))
        chk.expect("K.set_word_pos", tname, not probs, "%s::set_word_pos: %s" % (tname, "; ".join(probs[:4])), detail={"problems": probs[:20]},
                   sample={"type": tname, "cells": ncells})
    for tname, (sty, kind, adt) in sorted(TYPES.items()):
        if kind not in ("slice", "vec"):
            continue
        bl = [b for b in F.bodies if b["kind"] == "AssocFn" and b.get("impl_self") == sty and not b.get("impl_trait_def") and b["path"].endswith("::len")]
        probs = []
        if len(bl) != 1:
            probs.append("not found")
        else:
            for n in range(0, NMAX):
                try:
                    it = ivl.Interp(F, 0, 0, hs)
                    sref, h, arr, ci = setup(F, it, adt, kind, n, AI("usize", 1, 1))
                    env = {g: ("u64" if g == "W" else g) for g in (bl[0].get("generics") or [])}
                    r = it.call_body(bl[0], [sref], env, 0)
                    if not (isinstance(r, AI) and r.const() == n):
                        probs.append("len of a %d-word storage is %s" % (n, r))
                except (Undecided, Unsupported, Panic) as ex:
                    probs.append("len %d: %s: %s" % (n, type(ex).__name__, ex))
        chk.expect("K.len", tname, not probs, "%s::len: %s" % (tname, "; ".join(probs[:3])))

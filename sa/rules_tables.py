"""Table rules shared by C04 (D1), C05 (T1-T3), C06 (L1), C20 (F4).

T1: every entry of the const-evaluated decode/encode/length tables is compared
with the reference definitions of refcodes.py (exhaustive).
T2: shape of the table functions.  T3: USE_TABLE plumbing of the *_param methods.
"""
import os
import re
from fractions import Fraction

import mir
import refcodes as rc
import codeclass as cc
from facts import FactsError, REPO

MODS = {
    "gamma": ("codes::gamma_tables", lambda e, v: rc.gamma(e, v)),
    "delta": ("codes::delta_tables", lambda e, v: rc.delta(e, v)),
    "zeta": ("codes::zeta_tables", lambda e, v: rc.zeta(e, v, 3)),
}


def tables_of(F, code):
    m = MODS[code][0]
    g = lambda n: F.const(m + "::" + n)
    return {
        "READ_BITS": g("READ_BITS"), "WRITE_MAX": g("WRITE_MAX"),
        "MISSING_BE": g("MISSING_VALUE_LEN_BE"), "MISSING_LE": g("MISSING_VALUE_LEN_LE"),
        "READ_BE": g("READ_BE"), "READ_LE": g("READ_LE"), "READ_LEN_BE": g("READ_LEN_BE"), "READ_LEN_LE": g("READ_LEN_LE"),
        "WRITE_BE": g("WRITE_BE"), "WRITE_LE": g("WRITE_LE"), "WRITE_LEN_BE": g("WRITE_LEN_BE"), "WRITE_LEN_LE": g("WRITE_LEN_LE"),
        "LEN": g("LEN"),
    }


def elem_bits(F, path):
    c = F.consts[path]
    return int(c.get("elem_bytes", 0)) * 8


def check_decode_tables(chk, F, rule="T1.decode"):
    chk.rule(rule, floor=2 * (512 + 2048 + 4096), doc="decode-table entries (value,len | missing) vs first codeword of the window under the reference definition")
    chk.rule(rule + ".meta", floor=18, doc="table sizes, sentinel > READ_BITS, hit lengths <= READ_BITS")
    for code, (mod, fn) in MODS.items():
        T = tables_of(F, code)
        rb = int(T["READ_BITS"])
        for e in ("be", "le"):
            E = e.upper()
            vals, lens, miss = T["READ_" + E], T["READ_LEN_" + E], int(T["MISSING_" + E])
            chk.expect(rule + ".meta", "%s.%s.size" % (code, e), len(vals) == len(lens) == (1 << rb),
                       "%s READ_%s/READ_LEN_%s have %d/%d entries, expected 2^%d" % (mod, E, E, len(vals), len(lens), rb))
            chk.expect(rule + ".meta", "%s.%s.sentinel" % (code, e), miss > rb,
                       "%s::MISSING_VALUE_LEN_%s = %d collides with a real length (READ_BITS = %d)" % (mod, E, miss, rb))
            # the sentinel must be representable and distinct from every hit length
            exp = rc.decode_table(fn, e, rb)
            maxhit = 0
            for idx in range(min(len(vals), len(exp))):
                want = exp[idx]
                gl, gv = int(lens[idx]), int(vals[idx])
                if want is None:
                    ok = gl == miss
                    what = "window %s: no whole codeword fits in %d bits, table says (value %d, len %d), expected the sentinel %d" % (
                        "".join(map(str, rc.window_bits(e, idx, rb))), rb, gv, gl, miss)
                else:
                    ok = (gv, gl) == want
                    maxhit = max(maxhit, gl if gl != miss else 0)
                    what = "window %s (stream order): table says (value %d, len %d), definition gives (value %d, len %d)" % (
                        "".join(map(str, rc.window_bits(e, idx, rb))), gv, gl, want[0], want[1])
                chk.expect(rule, "%s.%s[%d]" % (code, e, idx), ok, "%s::READ_%s[%d]: %s" % (mod, E, idx, what),
                           sample={"table": "%s::READ_%s" % (mod, E), "idx": idx, "value": gv, "len": gl} if idx in (1, 77) else None)
            chk.expect(rule + ".meta", "%s.%s.maxhit" % (code, e), maxhit <= rb,
                       "%s: a hit length %d exceeds READ_BITS %d (skip_bits_after_peek would skip unpeeked bits)" % (mod, maxhit, rb))


def check_encode_tables(chk, F, rule="T1.encode", len_rule="T1.len"):
    chk.rule(rule, floor=2 * (64 + 1024 + 1024), doc="encode-table entries (bits,len) vs reference codeword")
    chk.rule(len_rule, floor=64 + 1024 + 1024, doc="LEN entries vs reference length")
    chk.rule(rule + ".meta", floor=12, doc="table sizes = WRITE_MAX+1; entries fit their element type and their stated length")
    for code, (mod, fn) in MODS.items():
        T = tables_of(F, code)
        wm = int(T["WRITE_MAX"])
        chk.expect(rule + ".meta", code + ".LEN.size", len(T["LEN"]) == wm + 1, "%s::LEN has %d entries, WRITE_MAX+1 = %d" % (mod, len(T["LEN"]), wm + 1))
        for e in ("be", "le"):
            E = e.upper()
            bits, lens = T["WRITE_" + E], T["WRITE_LEN_" + E]
            chk.expect(rule + ".meta", "%s.%s.size" % (code, e), len(bits) == len(lens) == wm + 1,
                       "%s WRITE_%s/WRITE_LEN_%s have %d/%d entries, WRITE_MAX+1 = %d" % (mod, E, E, len(bits), len(lens), wm + 1))
            fits = True
            for v in range(min(len(bits), wm + 1)):
                w = fn(e, v)
                gb, gl = int(bits[v]), int(lens[v])
                ok = gl == len(w) and gb == rc.pack(e, w)
                fits = fits and gb < (1 << gl)
                chk.expect(rule, "%s.%s[%d]" % (code, e, v), ok,
                           "%s::WRITE_%s[%d] = (%#x, len %d) but the definition of the code gives %s = (%#x, len %d)"
                           % (mod, E, v, gb, gl, "".join(map(str, w)), rc.pack(e, w), len(w)),
                           sample={"table": "%s::WRITE_%s" % (mod, E), "v": v, "bits": gb, "len": gl} if v in (4, 63) else None)
            chk.expect(rule + ".meta", "%s.%s.clean" % (code, e), fits,
                       "%s::WRITE_%s has an entry with bits at or above its stated length (would trip the `checks` assertion)" % (mod, E))
        for v in range(min(len(T["LEN"]), wm + 1)):
            w = fn("be", v)
            chk.expect(len_rule, "%s.LEN[%d]" % (code, v), int(T["LEN"][v]) == len(w) == int(T["WRITE_LEN_BE"][v]) == int(T["WRITE_LEN_LE"][v]),
                       "%s::LEN[%d] = %d, WRITE_LEN_BE/LE = %d/%d, definition length = %d"
                       % (mod, v, int(T["LEN"][v]), int(T["WRITE_LEN_BE"][v]), int(T["WRITE_LEN_LE"][v]), len(w)))
    chk.rule(rule + ".K", floor=1, doc="zeta_tables::K = 3")
    chk.expect(rule + ".K", "zeta.K", int(F.const("codes::zeta_tables::K")) == 3, "zeta_tables::K != 3")


def check_doc_table(chk, F, rule="D1.doc"):
    """documented examples of src/codes/mod.rs (unary, gamma, delta of 0..7) vs definitions and tables"""
    chk.rule(rule, floor=0, doc="documented codeword table of src/codes/mod.rs vs reference definitions and WRITE_BE tables")
    p = os.path.join(REPO, "src", "codes", "mod.rs")
    try:
        text = open(p).read()
    except OSError:
        return
    for m in re.finditer(r"^//!\s*\|\s*(\d+)\s*\|\s*([01]+)\s*\|\s*([01]+)\s*\|\s*([01]+)\s*\|", text, re.M):
        v = int(m.group(1))
        u, g, d = m.group(2), m.group(3), m.group(4)
        s = lambda bits: "".join(map(str, bits))
        ok = u == s(rc.unary(v)) and g == s(rc.gamma("be", v)) and d == s(rc.delta("be", v))
        Tg, Td = tables_of(F, "gamma"), tables_of(F, "delta")
        if v < len(Tg["WRITE_BE"]):
            ok = ok and int(Tg["WRITE_BE"][v]) == int(g, 2) and int(Tg["WRITE_LEN_BE"][v]) == len(g)
        if v < len(Td["WRITE_BE"]):
            ok = ok and int(Td["WRITE_BE"][v]) == int(d, 2) and int(Td["WRITE_LEN_BE"][v]) == len(d)
        chk.expect(rule, "doc[%d]" % v, ok, "documented codewords of %d (unary %s, gamma %s, delta %s) disagree with the definitions/tables" % (v, u, g, d),
                   sample={"v": v, "unary": u, "gamma": g, "delta": d})


def check_kraft_monotone(chk, F, rule="F4.tables"):
    chk.rule(rule, floor=3 * 2, doc="LEN tables non-decreasing and every prefix Kraft sum <= 1 (exact rationals)")
    for code, (mod, fn) in MODS.items():
        L = [int(x) for x in tables_of(F, code)["LEN"]]
        mono = all(L[i] <= L[i + 1] for i in range(len(L) - 1))
        chk.expect(rule, code + ".monotone", mono, "%s::LEN is not non-decreasing" % mod)
        s = Fraction(0)
        ok = True
        for i, l in enumerate(L):
            s += Fraction(1, 1 << l)
            if s > 1:
                ok = False
                break
        chk.expect(rule, code + ".kraft", ok, "%s::LEN violates Kraft's inequality at N=%d" % (mod, i + 1), sample={"code": code, "sum": str(s)})


# ---------------------------------------------------------------------------
# T2: shape of the table functions

def const_origin(t):
    t = cc.strip_casts(t)
    if isinstance(t, tuple) and t[0] == "const" and len(t) > 3:
        return t[3]
    if isinstance(t, tuple) and t[0] == "uneval":
        return t[1]
    return None


def origins_in(t, acc):
    if isinstance(t, tuple) and t:
        o = None
        if t[0] == "const" and len(t) > 3:
            o = t[3]
        elif t[0] == "uneval":
            o = t[1]
        if o:
            acc.add(o)
        for x in t:
            origins_in(x, acc)


def check_table_fns(chk, F, rule="T2.shape"):
    chk.rule(rule, floor=18, doc="read/len/write table functions: own module's constants, own endianness, peek READ_BITS, skip exactly the returned len on the hit path only")
    for code, (mod, fn) in MODS.items():
        for e in ("be", "le"):
            E = e.upper()
            endian_ty = "traits::endianness::BigEndian" if e == "be" else "traits::endianness::LittleEndian"
            allowed_read = {mod + "::READ_BITS", mod + "::READ_LEN_" + E, mod + "::READ_" + E, mod + "::MISSING_VALUE_LEN_" + E}
            for kind in ("read", "len"):
                name = "%s::%s_table_%s" % (mod, kind, e)
                b = F.body(name)
                paths = mir.walk(b)
                probs = []
                hit = miss = 0
                for p in paths:
                    if p.end[0] != "return":
                        continue
                    used = set()
                    for ev in p.events:
                        if ev[0] == "call":
                            for a in ev[2]:
                                origins_in(a, used)
                    origins_in(p.ret, used)
                    for c in p.constraints:
                        origins_in(c[0], used)
                    extra = {u for u in used if u.startswith("codes::") and u not in allowed_read}
                    if extra:
                        probs.append("references %s" % sorted(extra))
                    peeks = [ev for ev in p.calls() if ev[1] == "traits::bits::BitRead::peek_bits"]
                    skips = [ev for ev in p.calls() if ev[1] == "traits::bits::BitRead::skip_bits_after_peek"]
                    others = [ev for ev in p.calls() if ev[1].startswith("traits::bits::") and ev not in peeks and ev not in skips]
                    if len(peeks) != 1 or const_origin(peeks[0][2][1]) != mod + "::READ_BITS":
                        probs.append("does not peek exactly %s::READ_BITS once (%s)" % (mod, [mir.fmt(x[2][1]) for x in peeks]))
                        continue
                    if endian_ty not in peeks[0][7]:
                        probs.append("peeks with endianness %s" % (peeks[0][7],))
                    if others:
                        probs.append("calls %s" % [o[1] for o in others])
                    r = p.ret
                    is_some = isinstance(r, tuple) and r[0] == "agg" and r[3] == "Some"
                    if is_some:
                        hit += 1
                        # the skipped amount and the returned length are the same table element
                        if len(skips) != 1:
                            probs.append("hit path skips %d times" % len(skips))
                            continue
                        sk = cc.strip_casts(skips[0][2][1])
                        okidx = sk[0] == "index" and const_origin(sk[1][1] if sk[1][0] == "deref" else sk[1]) == mod + "::READ_LEN_" + E
                        payload = r[4][0]
                        if kind == "read":
                            if not (payload[0] == "tuple" and len(payload[1]) == 2):
                                probs.append("hit result is %s" % mir.fmt(payload))
                                continue
                            val, ln = cc.strip_casts(payload[1][0]), cc.strip_casts(payload[1][1])
                            okval = val[0] == "index" and const_origin(val[1][1] if val[1][0] == "deref" else val[1]) == mod + "::READ_" + E \
                                and sk[0] == "index" and val[2] == sk[2]
                            if not okval:
                                probs.append("value is %s (index must be the peeked window into READ_%s)" % (mir.fmt(val), E))
                        else:
                            ln = cc.strip_casts(payload)
                        if not okidx or ln != sk:
                            probs.append("skips %s but returns length %s" % (mir.fmt(sk), mir.fmt(ln)))
                        # index is the peeked value
                        if sk[0] == "index":
                            ix = cc.strip_casts(sk[2])
                            frm = ix
                            while isinstance(frm, tuple) and frm[0] == "ret" and frm[2].endswith("::cast"):
                                evs = [x for x in p.calls() if x[3] == frm]
                                frm = cc.strip_casts(evs[0][2][0]) if evs else None
                            want = ("field", ("variant", peeks[0][3], "Ok"), "0")
                            if frm != want and frm != ("okval", peeks[0][3]):
                                probs.append("table index is %s, not the peeked window" % mir.fmt(ix))
                        # sentinel comparison guards the hit
                        guards = [c for c in p.constraints if c[0][0] == "binop" and c[0][1] in ("Ne", "Eq")]
                        okg = any(const_origin(g[0][3]) == mod + "::MISSING_VALUE_LEN_" + E and cc.strip_casts(g[0][2]) == sk for g in guards) or \
                            any(const_origin(g[0][2]) == mod + "::MISSING_VALUE_LEN_" + E and cc.strip_casts(g[0][3]) == sk for g in guards)
                        if not okg:
                            probs.append("hit is not guarded by a comparison of the length with MISSING_VALUE_LEN_%s" % E)
                    else:
                        miss += 1
                        if not (isinstance(r, tuple) and r[0] == "agg" and r[3] == "None"):
                            probs.append("miss path returns %s" % mir.fmt(r))
                        if skips:
                            probs.append("miss/error path skips bits")
                if hit < 1 or miss < 2:
                    probs.append("expected >=1 hit path and >=2 miss paths (sentinel, peek error); found %d/%d" % (hit, miss))
                chk.expect(rule, name, not probs, "%s: %s" % (name, "; ".join(sorted(set(probs)))), sample={"fn": name, "hit_paths": hit, "miss_paths": miss})
            # write tables
            name = "%s::write_table_%s" % (mod, e)
            allowed_w = {mod + "::WRITE_" + E, mod + "::WRITE_LEN_" + E}
            b = F.body(name)
            probs = []
            hits = 0
            for p in mir.walk(b):
                if p.end[0] != "return":
                    continue
                used = set()
                for ev in p.events:
                    if ev[0] == "call":
                        for a in ev[2]:
                            origins_in(a, used)
                extra = {u for u in used if u.startswith("codes::") and u not in allowed_w}
                if extra:
                    probs.append("references %s" % sorted(extra))
                writes = [ev for ev in p.calls() if ev[1] == "traits::bits::BitWrite::write_bits"]
                gets = [ev for ev in p.calls() if ev[1].endswith("::get")]
                r = p.ret
                if writes:
                    hits += 1
                    if len(writes) != 1:
                        probs.append("%d writes on one path" % len(writes))
                        continue
                    if endian_ty not in writes[0][7]:
                        probs.append("writes with endianness %s" % (writes[0][7],))
                    v, ln = cc.strip_casts(writes[0][2][1]), cc.strip_casts(writes[0][2][2])
                    okl = ln[0] == "index" and const_origin(ln[1][1] if ln[1][0] == "deref" else ln[1]) == mod + "::WRITE_LEN_" + E \
                        and mir.mentions(ln[2], lambda t: t[0] == "arg" and t[1] == 2)
                    okg = len(gets) == 1 and const_origin(peel(gets[0][2][0])) == mod + "::WRITE_" + E and \
                        mir.mentions(gets[0][2][1], lambda t: t[0] == "arg" and t[1] == 2)
                    okv = mir.mentions(v, lambda t: gets and t == gets[0][3])
                    if not (okl and okg and okv):
                        probs.append("writes (%s, %s)" % (mir.fmt(v), mir.fmt(ln)))
                    # Ok path returns Some(len) with the same len
                    if isinstance(r, tuple) and r[0] == "agg" and r[3] == "Ok":
                        inner = r[4][0]
                        if not (inner[0] == "agg" and inner[3] == "Some" and cc.strip_casts(inner[4][0]) == ln):
                            probs.append("returns %s, not Some(len written)" % mir.fmt(inner))
                else:
                    if not (isinstance(r, tuple) and r[0] == "agg" and r[3] == "Ok" and r[4][0][0] == "agg" and r[4][0][3] == "None"):
                        probs.append("path without a write returns %s" % mir.fmt(r))
            if hits < 1:
                probs.append("no writing path")
            chk.expect(rule, name, not probs, "%s: %s" % (name, "; ".join(sorted(set(probs)))), sample={"fn": name})


def peel(t):
    while isinstance(t, tuple) and t[0] in ("ref", "deref", "cast", "coerce"):
        t = t[1]
    return t


# ---------------------------------------------------------------------------
# T3: USE_TABLE plumbing

def is_arg_n(t, n):
    while isinstance(t, tuple) and t and t[0] in ("cast", "ref", "deref"):
        t = t[1]
    return isinstance(t, tuple) and t and t[0] == "arg" and t[1] == n


def check_param_plumbing(chk, F, rule="T3.plumbing"):
    plumbing = lambda nm, cb: str(cb.get("vis") or "").startswith("Restricted") and not cb.get("impl_trait") and "::default_" not in nm
    chk.rule(rule, floor=14, doc="*_param methods: table branch only under the const flag, own code + impl endianness, same default_* fallback with the same arguments")
    specs = []
    for code, tr_r, tr_w, tabs in (("gamma", "GammaReadParam", "GammaWriteParam", "gamma_tables"),
                                   ("delta", "DeltaReadParam", "DeltaWriteParam", "delta_tables"),
                                   ("zeta", "ZetaReadParam", "ZetaWriteParam", "zeta_tables")):
        for e, ety in (("be", "traits::endianness::BigEndian"), ("le", "traits::endianness::LittleEndian")):
            rn = {"gamma": "read_gamma_param", "delta": "read_delta_param", "zeta": "read_zeta3_param"}[code]
            wn = {"gamma": "write_gamma_param", "delta": "write_delta_param", "zeta": "write_zeta3_param"}[code]
            flag = {"gamma": "USE_TABLE", "delta": "USE_DELTA_TABLE", "zeta": "USE_TABLE"}[code]
            specs.append((code, e, "read", F.one(name=rn, trait_is=r"codes::%s::%s<%s>" % (code, tr_r, ety)), "codes::%s::read_table_%s" % (tabs, e), flag))
            specs.append((code, e, "write", F.one(name=wn, trait_is=r"codes::%s::%s<%s>" % (code, tr_w, ety)), "codes::%s::write_table_%s" % (tabs, e), flag))
    def api_events(p):
        """the calls of public crate API on a path (stream primitives, table functions, codes): what the method does, however
        its private helpers, closures and combinators are arranged"""
        out = []
        for ev in p.calls():
            nm = ev[1]
            if not nm.startswith(("traits::", "codes::")):
                continue
            bl = F.by_path.get(nm, [])
            if len(bl) == 1 and str(bl[0].get("vis") or "").startswith("Restricted") and not bl[0].get("impl_trait"):
                continue            # a private helper: walked in context, its own events follow
            out.append(ev)
        return out

    def sig(p, evs):
        return (tuple((ev[1], tuple(str(mir.expand(a, p)) for a in ev[8]), tuple(ev[7])) for ev in evs), str(mir.expand(p.ret, p)), p.end[0])

    for code, e, kind, b, tabfn, flag in specs:
        probs = []
        # flag off: the non-table implementation, fully walked (private helpers in context)
        off = {}
        for p in mir.walk_inline(b, F, gen_map={flag: "false"}):
            evs = api_events(p)
            if any("_tables::" in ev[1] for ev in evs):
                probs.append("a table function is called with the flag off")
            off[sig(p, evs)] = True
        n_tab = n_hit = 0
        for p in mir.walk_inline(b, F, gen_map={flag: "true"}):
            evs = api_events(p)
            tcalls = [ev for ev in evs if "_tables::" in ev[1]]
            if not tcalls:
                probs.append("flag on but no table call on a path")
                continue
            n_tab += 1
            ev = tcalls[0]
            if len(tcalls) != 1 or evs.index(ev) != 0:
                probs.append("the table function is not the first and only table call on a path")
                continue
            if ev[1] != tabfn:
                probs.append("calls %s, expected %s" % (ev[1], tabfn))
            if not mir.mentions(ev[2][0], lambda t: t[0] == "arg" and t[1] == 1):
                probs.append("table function not applied to self")
            if kind == "write" and not (len(ev[2]) > 1 and is_arg_n(ev[2][1], 2)):
                probs.append("table writer gets %s instead of the value" % mir.fmt(ev[2][1]))
            rest = [x for x in evs if x is not ev]
            res = ev[3]
            if not rest and p.end[0] == "return" and sig(p, rest) not in off:
                # hit (or, for the writer, a propagated error of the table write): the table's result is the result
                r = p.ret
                if kind == "read":
                    okr = isinstance(r, tuple) and r[0] == "agg" and r[3] == "Ok" and r[4] and \
                        mir.norm_ok(r[4][0]) in (("field", ("okval", res), "0"),)
                else:
                    okr = (isinstance(r, tuple) and r[0] == "agg" and r[3] == "Ok" and r[4] and mir.norm_ok(r[4][0]) in (("okval", ("okval", res)), ("okval", ("try", res)))) \
                        or r == ("from_residual", ("residual", res)) or (isinstance(r, tuple) and r[0] == "agg" and r[3] == "Err" and mir.mentions(r, lambda t: t == res))
                    if isinstance(r, tuple) and r[0] == "agg" and r[3] == "Ok" and not okr:
                        inner = mir.norm_ok(r[4][0]) if r[4] else None
                        okr = isinstance(inner, tuple) and inner[0] == "okval" and mir.mentions(inner, lambda t: t == res)
                if okr:
                    n_hit += 1
                else:
                    probs.append("table hit returns %s" % mir.fmt(p.ret)[:80])
                continue
            # miss: what follows is exactly one of the flag-off behaviours
            if sig(p, rest) not in off:
                probs.append("after a table miss the method does not continue like the non-table implementation: %s" % [x[1].split("::")[-1] for x in rest][:6])
        if not off:
            probs.append("no non-table path")
        if n_tab < 1 or n_hit < 1:
            probs.append("no table path" if n_tab < 1 else "no table-hit path returning the table's result")
        if code == "zeta":
            # the non-table implementation of zeta3 is zeta with k = 3
            ks = set()
            for (evs_, ret_, end_) in off:
                for (nm, args_, ga) in evs_:
                    pass
            for p in mir.walk_inline(b, F, gen_map={flag: "false"}, pred=plumbing):
                for ev in p.calls():
                    bl = F.by_path.get(ev[1], [])
                    if len(bl) == 1 and str(bl[0].get("vis") or "").startswith("Restricted") and "zeta" in ev[1] and ev[2]:
                        kk = cc.const_int(ev[2][-1])
                        if kk is not None:
                            ks.add(kk)
            if ks and ks != {3}:
                probs.append("zeta3 fallback uses k=%s" % sorted(ks))
        chk.expect(rule, "%s.%s.%s" % (code, kind, e), not probs, "%s: %s" % (b["path"], "; ".join(sorted(set(probs)))),
                   sample={"fn": b["path"], "table_fn": tabfn, "non_table_paths": len(off)})
    # length functions: decided on the whole domain by interpretation (table option on = off), whatever the shape of the lookup
    import rules_ivl
    rules_ivl.run_len_tables(chk, F, F.fs, "quick", rule)


def check_default_params(chk, F, rule="K3.defaults"):
    """params.rs: each parameterless trait method calls the *_param method of the same family on self, passing arguments and result through"""
    chk.rule(rule, floor=20, doc="parameterless read/write methods forward to the *_param method of the same code")
    n = 0
    for b in F.bodies:
        if b["kind"] != "AssocFn" or "src/codes/params.rs" not in b["span"]:
            continue
        tr = b.get("impl_trait_def") or ""
        name = b["path"].split("::")[-1]
        own = cc.FAMILY.get(tr + "::" + name)
        if own is None:
            continue
        kind, fam, fixed, has_param = own
        probs = []
        for p in mir.walk(b):
            if p.end[0] != "return":
                continue
            calls = cc.stream_calls(p, lambda t: t[0] == "arg" and t[1] == 1)
            if len(calls) != 1:
                probs.append("%d calls on self" % len(calls))
                continue
            cl = cc.classify_call(calls[0], kind)
            if cl is None:
                probs.append("calls %s" % calls[0][1])
                continue
            cfam, cparam, cval, cstream = cl
            if cfam != fam:
                probs.append("forwards to %s (family %s), expected family %s" % (calls[0][1], cfam, fam))
            if fixed is not None and cparam != fixed and not (cc.FAMILY[calls[0][1]][2] == fixed):
                probs.append("fixed parameter %s but callee gets %s" % (fixed, cparam))
            if has_param and not (isinstance(cparam, tuple) and cparam[0] == "arg"):
                probs.append("parameter argument is %s" % (mir.fmt(cparam) if isinstance(cparam, tuple) else cparam))
            if kind == "write" and not (isinstance(cval, tuple) and cval[0] == "arg" and cval[1] == 2):
                probs.append("value argument is %s" % mir.fmt(cval))
            if p.ret != calls[0][3]:
                probs.append("result not returned unchanged")
        n += 1
        chk.expect(rule, "%s|%s" % (b.get("impl_self"), b["path"].split(" as ")[-1]), not probs,
                   "%s (%s): %s" % (b["path"], b.get("impl_self"), "; ".join(sorted(set(probs)))),
                   sample={"fn": b["path"]} if n < 3 else None)

"""C05 — table-driven coding == bit-by-bit coding: T1 (table data), T2 (table functions), T3 (plumbing)."""
import rules_tables as rt


def run(chk, F, tier):
    rt.check_decode_tables(chk, F)
    rt.check_encode_tables(chk, F)
    rt.check_table_fns(chk, F)
    rt.check_param_plumbing(chk, F)
    rt.check_default_params(chk, F)


def run_all(chk, fsets, tier):
    import facts
    chk.extra["programs"] = 0
    for i, fs in enumerate(fsets):
        F = facts.load(fs)
        if i == 0:
            run(chk, F, tier)
            chk.extra["programs"] = 3 * 2 * 2 + 3 * 3  # decode value+len tables, encode bits+len tables, LEN tables
        else:
            # table data do not depend on features; functions do (cfg) - re-run shape rules only
            rt.check_table_fns(chk, F, rule="T2.shape@" + fs)
            rt.check_param_plumbing(chk, F, rule="T3.plumbing@" + fs)

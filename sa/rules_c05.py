"""C05 — table-driven coding == bit-by-bit coding: T1 (table data), T2 (table functions), T3 (plumbing)."""
import rules_tables as rt


def check_lookahead(chk, F, rule="T4.lookahead"):
    """T4: for every bit reader that advertises a look-ahead A to check_tables(), each decoding table either fits into the
    look-ahead peek_bits can really guarantee (PEEK, derived from peek_bits' own obligations) or is diagnosed (A < READ_BITS)."""
    import mir
    import numabs
    import rules_num as rn
    from numabs import le, const
    chk.rule(rule, floor=30, doc="per reader x word size x table: READ_BITS <= PEEK(impl) or the constructor's check_tables argument is < READ_BITS (diagnostic printed)")
    tables = {c: int(rt.tables_of(F, c)["READ_BITS"]) for c in rt.MODS}
    readers = []
    for b in F.bodies:
        if b["kind"] == "AssocFn" and b["path"].endswith("::new") and (b.get("impl_self") or "").startswith(("impls::buf_bit_reader::BufBitReader<", "impls::bit_reader::BitReader<")):
            readers.append(b)
    specs = {s.key: s for s in rn.reader_specs()}
    for b in readers:
        buffered = "buf_bit_reader" in b["path"]
        widths = rn.READER_W if buffered else [64]
        ps = [p for p in mir.walk(b) if p.end[0] == "return"]
        ct = [e for p in ps for e in p.calls() if e[1] == "traits::bits::check_tables"]
        if len(ct) != 1:
            chk.bad(rule, b["path"] + "|check_tables", "%s does not call check_tables exactly once" % b["path"])
            continue
        for w in widths:
            num = numabs.Num(b, numabs.Cfg(w), F)
            a = num.aff(ct[0][2][0])
            if a is None or not a.is_const():
                chk.bad(rule, "%s@u%d|arg" % (b["path"], w), "check_tables argument %s is not a per-configuration constant" % mir.fmt(ct[0][2][0]))
                continue
            A = int(a.k)
            for e in ("be", "le"):
                key = ("reader.%s.peek_bits" if buffered else "bitreader.%s.peek_bits") % e
                spec = specs[key]
                def capacity(n):
                    s2 = rn.Spec(spec.key, spec.find, [w], spec.inv, pre=rn.both(rn.arg_ge(2, "n_bits", 1), rn.arg_le(2, "n_bits", n)), inline=spec.inline)
                    sites, npaths, summ, bb = rn.analyse(F, s2, w)
                    return all(s["status"] == "discharged" for s in sites.values())
                peek = None
                for n in range(A, 0, -1):
                    if capacity(n):
                        peek = n
                        break
                for code, rb in sorted(tables.items()):
                    ok = (peek is not None and rb <= peek) or A < rb
                    chk.expect(rule, "%s<%s>@u%d|%s" % ("BufBitReader" if buffered else "BitReader", e.upper(), w, code), ok,
                               "%s<%s> over u%d words: peek_bits guarantees %s bits after its single refill, the constructor tells check_tables it can peek %d, "
                               "and the %s decoding table needs %d: table reads are silently wrong (no DANGER diagnostic)"
                               % ("BufBitReader" if buffered else "BitReader", e.upper(), w, peek, A, code, rb),
                               detail={"reader": b["path"], "cfg": "u%d" % w, "PEEK": peek, "advertised": A, "table": code, "READ_BITS": rb},
                               sample={"reader": b["path"].split("::")[2], "cfg": "u%d" % w, "PEEK": peek, "advertised": A, "table": code, "READ_BITS": rb} if w == 32 else None)


def run(chk, F, tier):
    rt.check_decode_tables(chk, F)
    rt.check_encode_tables(chk, F)
    rt.check_table_fns(chk, F)
    rt.check_param_plumbing(chk, F)
    rt.check_default_params(chk, F)
    check_lookahead(chk, F)


def run_all(chk, fsets, tier):
    import facts
    chk.extra["programs"] = 0
    # table decoding peeks past the end of short streams: what it assumes about a failed or zero-extended look-ahead
    import deps
    F0 = facts.load(fsets[0])
    deps.end_of_stream(chk, F0, tier, ("E3.order",), "T5.lookahead", "a failed look-ahead fetch leaves the reader as it was, so the bit-by-bit fallback starts from the same state (C09)")
    deps.backends(chk, F0, tier, ("K.read_word",), "T5.lookahead", "the zero-extended source counts the words it synthesises, so positions agree with the bit-by-bit path (C13)")
    # "same final stream position": the position of a buffered reader is computed from the backend position and the number of buffered
    # bits, which after a table look-ahead can exceed one word
    import rules_effects as re_
    chk.rule("T5.position", floor=60, doc="E4 (C07.S.position): bit_pos() returns W*word_pos - bits_in_buffer for every buffer state (up to 2W - 1 buffered bits, as a look-ahead refill leaves them), and peek + skip_after_peek(len) advance by exactly len [included: table reads are peek + skip]")
    re_.run_reader_effects(chk, F0, fsets[0], "T5.position", groups=(None, "seek"))
    for i, fs in enumerate(fsets):
        F = facts.load(fs)
        if i == 0:
            run(chk, F, tier)
            chk.extra["programs"] = 3 * 2 * 2 + 3 * 3  # decode value+len tables, encode bits+len tables, LEN tables
        else:
            # table data do not depend on features; functions do (cfg) - re-run shape rules only
            rt.check_table_fns(chk, F, rule="T2.shape@" + fs)
            rt.check_param_plumbing(chk, F, rule="T3.plumbing@" + fs)

"""C01 — canonical byte image of bit writers: W1 append-only backend use, W2 endianness pairing,
W3 drop/flush dispatch, W4 numeric safety + invariant (E3), W5 accounting (E4)."""
import mir
import codeclass as cc
import rules_num as rn
from rules_c10 import is_arg, peel_ref

WRITER = "impls::buf_bit_writer::BufBitWriter<"
BE, LE = rn.BE, rn.LE


def writer_bodies(F):
    """(body, endianness or None) for every function that touches a BufBitWriter's backend"""
    out = []
    for b in F.bodies:
        if b["kind"] not in ("AssocFn", "Fn") or "src/impls/buf_bit_writer.rs" not in b["span"]:
            continue
        sf = b.get("impl_self") or ""
        if sf.startswith(WRITER):
            # (module-private helpers such as the flush routines are walked in the context of these callers)
            e = "be" if BE in sf else "le" if LE in sf else None
            tr = b.get("impl_trait_def") or ""
            if tr.startswith("mem_dbg") or tr.startswith("std::fmt"):
                continue
            out.append((b, e))
    return out


def typeid_tests(p):
    """list of (type A, type B, truth) for `TypeId::of::<A>() == TypeId::of::<B>()` tests taken on path p"""
    out = []
    evs = {e[3]: e for e in p.calls()}
    for (t, op, v) in p.constraints:
        e = evs.get(t)
        if e is None or not e[1].endswith("PartialEq::eq"):
            continue
        tys = []
        for a in e[8]:
            a = a[1] if a[0] == "ref" else a
            src = evs.get(a)
            if src is not None and src[1] == "std::any::TypeId::of" and src[7]:
                tys.append(src[7][0])
        if len(tys) == 2:
            truth = (op == "notin" and tuple(v) == (0,)) or (op == "==" and v == 1)
            out.append((tys[0], tys[1], truth))
    return out


def mir_inlined(F, nm):
    """the call event of a helper that the inline walker has walked in context (its own events follow)"""
    bl = F.by_path.get(nm, [])
    return len(bl) == 1 and bl[0]["kind"] in ("Fn", "AssocFn") and not bl[0].get("impl_trait") and \
        (str(bl[0].get("vis") or "").startswith("Restricted") or (bl[0]["kind"] == "Fn" and nm.startswith("impls::buf_bit_writer::")))


def backend_events(F, p):
    """what a path does to the backend and to the bit buffer, in order (used to compare flush routines)"""
    out = []
    for ev in p.calls():
        if mir_inlined(F, ev[1]):
            continue
        if any(mir.mentions(a, lambda x: x[0] == "field" and x[2] in ("backend", "buffer")) for a in ev[8]):
            out.append(ev[1].split("::")[-1])
    return tuple(out)


def backend_derived(t):
    return mir.mentions(t, lambda x: x[0] == "field" and x[2] == "backend")


def run_structural(chk, F):
    bodies = writer_bodies(F)
    chk.rule("W1.append_only", floor=14, doc="only WordWrite::write_word / WordWrite::flush are invoked on the backend (no seek/read/other &mut escape)")
    chk.rule("W2.endianness", floor=8, doc="every word handed to write_word was last transformed by to_be (BE code) / to_le (LE code), or is W::ZERO")
    chk.rule("W3.drop", floor=4, doc="Drop does to the backend and the buffer exactly what BitWrite<E>::flush of the stream endianness does (helpers walked in context); into_inner flushes before moving the backend out and forgets self; every successful path of flush ends with backend.flush()")
    n_ww = 0
    for b, e in bodies:
        bad = []
        wbad = []
        sites = set()
        for p in mir.walk_inline(b, F, unroll=0):
            pe = e
            if pe is None:
                # generic over the endianness (Drop): decided by the TypeId test taken on this path
                tt = typeid_tests(p)
                if len(tt) == 1 and "E" in tt[0][:2]:
                    other = tt[0][1] if tt[0][0] == "E" else tt[0][0]
                    if other in (LE, BE):
                        pe = "le" if ((other == LE) == tt[0][2]) else "be"
            for ev in p.calls():
                if not any(backend_derived(a) for a in ev[8]):
                    continue
                if mir_inlined(F, ev[1]):
                    continue
                nm = ev[1]
                if nm in ("traits::words::WordWrite::write_word", "traits::words::WordWrite::flush"):
                    if nm.endswith("write_word"):
                        sites.add(ev[5])
                        w = mir.expand(ev[8][1], p)
                        okw = False
                        if w[0] == "uneval" and w[1].endswith("::ZERO"):
                            okw = True
                        elif w[0] == "app" and w[1] in ("common_traits::Integer::to_be", "common_traits::Integer::to_le"):
                            conv = "be" if w[1].endswith("to_be") else "le"
                            okw = conv == pe
                        if not okw:
                            wbad.append("write_word(%s)" % mir.fmt(w)[:70])
                    continue
                if nm in ("std::ptr::read",) and b["path"].endswith("::into_inner"):
                    continue
                if nm.startswith("core::fmt") or nm.startswith("std::fmt") or "Debug" in nm:
                    continue
                bad.append(nm)
        n_ww += len(sites)
        key = b["path"] if not b.get("impl_trait") else "%s as %s" % (b["path"].split("::")[-1], b["impl_trait"])
        chk.expect("W1.append_only", key, not bad, "%s uses the backend through %s" % (b["path"], sorted(set(bad))), sample={"fn": b["path"]})
        if sites or wbad:
            chk.expect("W2.endianness", key, not wbad,
                       "%s (%s stream) hands an unconverted or wrongly converted word to the backend: %s" % (b["path"], e, sorted(set(wbad))),
                       sample={"fn": b["path"], "write_word_sites": len(sites)})
    chk.rule("W2.sites", floor=1, doc="number of distinct write_word call sites seen")
    chk.expect("W2.sites", "count", n_ww >= 8, "only %d write_word call sites found in buf_bit_writer.rs (expected >= 8: the rule would be close to vacuous)" % n_ww, sample={"sites": n_ww})
    # W3
    flush = {e: F.one(name="flush", trait_is="traits::bits::BitWrite<%s>" % ety, impl_self=WRITER) for e, ety in (("be", BE), ("le", LE))}
    sigs = {e: {backend_events(F, p) for p in mir.walk_inline(flush[e], F)} for e in flush}
    d = F.one(name="drop", trait_is="std::ops::Drop", impl_self=WRITER)
    okd = True
    why = []
    seen = set()
    for p in mir.walk_inline(d, F):
        tests = typeid_tests(p)
        if len(tests) != 1:
            okd = False
            why.append("path with %d endianness tests" % len(tests))
            continue
        a, bb, truth = tests[0]
        other = bb if a == "E" else a
        if "E" not in (a, bb) or other not in (LE, BE):
            okd = False
            why.append("endianness test between %s and %s" % (a, bb))
            continue
        e = "le" if ((other == LE) == truth) else "be"
        seen.add(e)
        sig = backend_events(F, p)
        if sig not in sigs[e]:
            okd = False
            why.append("E %s %s -> %s, which is not what BitWrite<%s>::flush does (%s)" % ("==" if truth else "!=", other.split("::")[-1], list(sig), e.upper(), sorted(map(list, sigs[e]))[:3]))
    chk.expect("W3.drop", "drop", okd and seen == {"le", "be"}, "Drop for BufBitWriter dispatches wrongly: %s" % why, sample={"paths": sorted(seen)})
    ii = F.body("impls::buf_bit_writer::BufBitWriter::<E, WW, WP>::into_inner")
    oki = True
    NEUTRAL = ("std::mem::forget", "std::mem::ManuallyDrop::<T>::new")      # what takes the writer by value without running its destructor
    for p in mir.walk_inline(ii, F):
        evs = [ev for ev in p.events if ev[0] == "call" and not mir_inlined(F, ev[1])]
        names = [ev[1] for ev in evs]
        okval = isinstance(p.ret, tuple) and p.ret[0] == "agg" and p.ret[3] == "Ok"
        if p.end[0] != "return":
            continue
        reads = [ev for ev in evs if ev[1] == "std::ptr::read"]
        if okval:
            # flushed exactly once and first; the backend read out of the writer; the writer itself handed, whole, to forget/ManuallyDrop
            # (so its destructor, which would flush and drop the backend again, never runs) and never dropped on this path
            neutral = [ev for ev in evs if ev[1] in NEUTRAL and ev[2] and mir.mentions(ev[2][0], lambda x: x == ("arg", 1, "self"))]
            dropped = [ev for ev in p.events if ev[0] == "drop" and mir.mentions(ev[1], lambda x: x == ("arg", 1, "self"))]
            oki = oki and names[:1] == ["traits::bits::BitWrite::flush"] and names.count("traits::bits::BitWrite::flush") == 1 \
                and len(reads) == 1 and backend_derived(reads[0][2][0]) and len(neutral) == 1 and not dropped
        else:
            oki = oki and not reads
    chk.expect("W3.drop", "into_inner", oki, "into_inner does not flush exactly once before moving the backend out / forgetting self")
    # flush of either endianness: every successful path ends by flushing the backend (after the padded word, if any)
    for e in ("be", "le"):
        okf, n = True, 0
        for p in mir.walk_inline(flush[e], F):
            r = p.ret
            if p.end[0] != "return" or not (isinstance(r, tuple) and r[0] == "agg" and r[3] == "Ok"):
                continue
            n += 1
            names = [ev[1] for ev in p.calls() if any(backend_derived(a) for a in ev[8]) and not mir_inlined(F, ev[1])]
            okf = okf and names[-1:] == ["traits::words::WordWrite::flush"]
        chk.expect("W3.drop", "flush_%s.through" % e, okf and n >= 1,
                   "BitWrite<%s>::flush of the buffered writer has a successful path that does not end with backend.flush(): buffered bytes of the sink stay unwritten and its flush errors are lost" % e.upper())


def run_all(chk, fsets, tier):
    import facts
    for i, fs in enumerate(fsets):
        F = facts.load(fs)
        if i == 0:
            run_structural(chk, F)
        specs = [s for s in rn.writer_specs() if s.group is None]
        chk.rule("W4.numeric", floor=250 if i == 0 else 0,
                 doc="E3: every MIR assert, shift range, call precondition, reachable panic and the invariant 1 <= space_left <= W at every return, for W in {8,16,32,64,128}")
        rn.run_specs(chk, F, specs, "W4.numeric", fs)
        import rules_bits
        chk.rule("W4.layout", floor=40 if i == 0 else 0,
                 doc="bit-range domain: every OR that builds the buffer or a delivered word combines provably disjoint bit ranges (the masked/shifted argument occupies exactly the n freed positions whatever its high bits are); the word written by flush has zeros in its padding positions")
        rules_bits.run_writer_layout(chk, F, fs)
        import rules_effects as re_
        re_.run_writer_effects(chk, F, fs)
        import rules_seq
        chk.rule("W6.content", floor=60 if i == 0 else 0,
                 doc="bit-sequence domain: with P the pending bits and F the field appended by the call (write_bits: value[0..n); write_unary: v zeros and a one; flush: zero padding), every word handed to the backend is exactly the next W bits of P ++ F in stream order (BE from the top, LE from the bottom) and the buffer keeps exactly the rest where the next call expects it; W in {8..128}, all paths, loops unrolled (write_bits) or summarised (write_unary)")
        rules_seq.run_parallel(chk, F, fs, [("writer", "W6.content", nm) for nm in ("write_bits", "write_unary", "flush")])
    # what the writer's argument assumes about the word sinks it delivers to (same image "for every backend kind")
    import deps
    F0 = facts.load(fsets[0])
    deps.backends(chk, F0, tier, ("K.write_word",), "W7.sink", "the in-memory sinks store each delivered word at the cursor and advance (C13)")
    deps.adapter(chk, F0, tier, ("A1.counts", "A2.errors", "A3.byteorder"), "W7.sink", "the byte-stream sink transfers every byte of every delivered word, in order (C11)")
    if "checks" not in fsets:
        # quick tier: the `checks` build of the three primitives is still analysed numerically (its argument assertion computes a
        # mask the default build does not have)
        Fc = facts.load("checks")
        specs = [s for s in rn.writer_specs() if s.group is None]
        chk.rule("W4.numeric", floor=0, doc="")
        rn.run_specs(chk, Fc, specs, "W4.numeric", "checks")
    chk.trust("rustc MIR construction and the mirx exporter")
    chk.trust("contract table sa/contracts.py (std / common_traits primitives, crate trait contracts)")
    chk.trust("exact rational simplex sa/lp.py as the entailment procedure")

"""C13 — in-memory word streams behave as an array + cursor.  Decided by interpreting every method on small storages and every
cursor cell against the array-plus-cursor model (sa/rules_c13m.py); the earlier rules matched the syntactic shape of the method
bodies and were dropped because behaviour-preserving rewrites (match instead of unwrap_or, inverted guards, helper functions)
made them fire."""
import rules_c13m

TYPES = rules_c13m.TYPES


def run(chk, F, tier):
    rules_c13m.run(chk, F, tier)
    chk.trust("contract of AsRef/AsMut/Deref on the storage parameter: identity views (std docs); slices and vectors as documented by std")
    chk.trust("the value-partition interpreter sa/ivl.py (MIR semantics of the constructs it accepts; anything else is refused)")


def run_all(chk, fsets, tier):
    import facts
    run(chk, facts.load(fsets[0]), tier)

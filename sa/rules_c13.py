"""C13 — in-memory word streams behave as array + cursor: cursor/store discipline on every path of every method."""
import mir
import codeclass as cc
from rules_c10 import is_arg, peel_ref

SELF = ("deref", ("arg", 1, "self"))
CUR = ("field", SELF, "word_index")
TYPES = {
    "MemWordReader<W, B>": ("impls::mem_word_reader::MemWordReader<W, B>", "inf"),
    "MemWordReader<W, B, false>": ("impls::mem_word_reader::MemWordReader<W, B, false>", "strict"),
    "MemWordWriterSlice<W, B>": ("impls::mem_word_writer::MemWordWriterSlice<W, B>", "slice"),
    "MemWordWriterVec<W, B>": ("impls::mem_word_writer::MemWordWriterVec<W, B>", "vec"),
}


def data_access(ex):
    """does expanded term ex reach through self.data (as_ref/as_mut/deref chain)"""
    return mir.mentions(ex, lambda t: t == ("field", SELF, "data"))


def cursor_stores(p):
    return [(e[1], e[2]) for e in p.events if e[0] == "store" and e[1] == CUR]


def is_ok(r):
    return isinstance(r, tuple) and r[0] == "agg" and r[3] == "Ok"


def is_err(r):
    return isinstance(r, tuple) and ((r[0] == "agg" and r[3] == "Err") or r[0] == "from_residual")


def access_calls(p, names):
    return [e for e in p.calls() if e[1].split("::")[-1] in names and data_access(mir.expand(e[8][0], p))]


def run(chk, F, tier):
    chk.rule("K.read_word", floor=4, doc="read_word: element at the entry cursor, cursor+1 on Ok, untouched on Err; INF yields ZERO beyond the end and still advances")
    chk.rule("K.write_word", floor=2, doc="write_word: stores the argument at the entry cursor (vector: zero-filled growth to cursor+1 first), cursor+1 on Ok, nothing on Err")
    chk.rule("K.word_pos", floor=4, doc="word_pos returns the cursor")
    chk.rule("K.set_word_pos", floor=4, doc="set_word_pos: Ok stores exactly the argument; rejected (x > len) leaves the cursor; INF never fails")
    chk.rule("K.len", floor=2, doc="len() is the length of the storage")
    for tname, (sty, kind) in sorted(TYPES.items()):
        def method(tr, nm):
            l = [b for b in F.bodies if b["kind"] == "AssocFn" and b.get("impl_self") == sty and (b.get("impl_trait_def") or "") == tr
                 and b["path"].endswith("::" + nm)]
            return l[0] if len(l) == 1 else None
        # ---- read_word
        b = method("traits::words::WordRead", "read_word")
        if b is None:
            chk.bad("K.read_word", tname, "read_word of %s not found" % tname)
        else:
            probs = []
            nok = nerr = 0
            for p in mir.walk(b):
                if p.end[0] != "return":
                    probs.append("path ends with %s" % (p.end,))
                    continue
                st = cursor_stores(p)
                gets = access_calls(p, ("get",))
                if len(gets) != 1 or gets[0][2][1] != CUR:
                    probs.append("element access is %s (expected one get(entry cursor))" % [mir.fmt(g[2][1]) for g in gets])
                    continue
                if is_ok(p.ret):
                    nok += 1
                    if st != [(CUR, ("binop", "Add", CUR, ("const", 1, "usize")))]:
                        probs.append("Ok path: cursor stores %s (expected one cursor+1)" % [mir.fmt(v) for k, v in st])
                    ex = mir.expand(p.ret[4][0], p)
                    from_get = mir.mentions(ex, lambda t: t[0] == "app" and t[1].endswith("::get"))
                    is_zero = lambda z: isinstance(z, tuple) and z[0] == "uneval" and z[1].endswith("::ZERO")
                    none_arm = any(t == ("discr", gets[0][3]) and ((op == "==" and v == 0)) for (t, op, v) in p.constraints)
                    if kind == "inf":
                        if ex[0] == "app" and ex[1].endswith("unwrap_or"):
                            # unwrap_or(copied(get(..)), ZERO)
                            if not (from_get and is_zero(ex[2][1])):
                                probs.append("beyond-the-end value is %s, not W::ZERO" % mir.fmt(ex[2][1])[:60])
                        elif none_arm:
                            if not is_zero(cc.strip_casts(ex)):
                                probs.append("beyond-the-end value is %s, not W::ZERO" % mir.fmt(p.ret[4][0])[:60])
                        elif not from_get:
                            probs.append("Ok value does not come from the element access")
                    elif not from_get:
                        probs.append("Ok value does not come from the element access")
                elif is_err(p.ret):
                    nerr += 1
                    if st:
                        probs.append("Err path moves the cursor")
                    if kind == "inf":
                        probs.append("zero-extended reader has an error path")
                else:
                    probs.append("returns %s" % mir.fmt(p.ret)[:60])
            if nok < 1 or (kind != "inf" and nerr < 1):
                probs.append("expected Ok and Err paths, found %d/%d" % (nok, nerr))
            chk.expect("K.read_word", tname, not probs, "%s::read_word: %s" % (tname, "; ".join(sorted(set(probs)))), sample={"type": tname, "ok_paths": nok, "err_paths": nerr})
        # ---- write_word
        b = method("traits::words::WordWrite", "write_word")
        if kind in ("slice", "vec"):
            probs = []
            if b is None:
                probs.append("not found")
            else:
                nok = 0
                for p in mir.walk(b):
                    if p.end[0] != "return":
                        continue
                    st = cursor_stores(p)
                    stores = [(e[1], e[2]) for e in p.events if e[0] == "store" and e[1] != CUR]
                    if is_ok(p.ret):
                        nok += 1
                        if st != [(CUR, ("binop", "Add", CUR, ("const", 1, "usize")))]:
                            probs.append("Ok path: cursor stores %s" % [mir.fmt(v) for k, v in st])
                        acc = access_calls(p, ("get_mut", "index_mut"))
                        if len(acc) != 1 or acc[0][2][1] != CUR:
                            probs.append("element access %s is not at the entry cursor" % [mir.fmt(a[2][1]) for a in acc])
                            continue
                        elem = [(k, v) for k, v in stores if mir.mentions(k, lambda t: t == acc[0][3])]
                        if len(elem) != 1 or not is_arg(elem[0][1], 2):
                            probs.append("stored element is %s, not the word argument" % [mir.fmt(v) for k, v in elem])
                        if kind == "vec":
                            grew = [c for c in p.constraints if c[0][0] == "binop" and c[0][1] in ("Ge", "Gt", "Lt", "Le")]
                            rs = [e for e in p.calls() if e[1].endswith("::resize")]
                            taken = any((op == "notin" and v == (0,)) or (op == "==" and v == 1) for (t, op, v) in grew)
                            if grew and grew[0][0] != ("binop", "Ge", CUR, grew[0][0][3]):
                                probs.append("growth test is %s" % mir.fmt(grew[0][0]))
                            if taken:
                                okr = len(rs) == 1 and rs[0][2][1] == ("binop", "Add", CUR, ("const", 1, "usize")) and \
                                    rs[0][2][2][0] == "uneval" and rs[0][2][2][1].endswith("::ZERO") and \
                                    p.events.index(rs[0]) < p.events.index(acc[0])
                                if not okr:
                                    probs.append("growth is not resize(cursor+1, W::ZERO) before the store: %s" % [[mir.fmt(a) for a in r[2][1:]] for r in rs])
                            elif rs:
                                probs.append("resizes although the cursor is inside the vector")
                    elif is_err(p.ret):
                        if st or stores:
                            probs.append("Err path stores")
                        if kind == "vec":
                            probs.append("vector writer has an error path")
                if nok < 1:
                    probs.append("no Ok path")
            chk.expect("K.write_word", tname, not probs, "%s::write_word: %s" % (tname, "; ".join(sorted(set(probs)))), sample={"type": tname})
        # ---- word_pos
        b = method("traits::words::WordSeek", "word_pos")
        ps = [p for p in mir.walk(b) if p.end[0] == "return"] if b else []
        okp = len(ps) == 1 and is_ok(ps[0].ret) and cc.strip_casts(ps[0].ret[4][0]) == CUR and not ps[0].events
        chk.expect("K.word_pos", tname, okp, "%s::word_pos does not return the cursor" % tname)
        # ---- set_word_pos
        b = method("traits::words::WordSeek", "set_word_pos")
        probs = []
        nok = nrej = 0
        for p in (mir.walk(b) if b else []):
            if p.end[0] != "return":
                continue
            st = cursor_stores(p)
            if is_ok(p.ret):
                nok += 1
                if len(st) != 1:
                    probs.append("Ok path stores the cursor %d times" % len(st))
                    continue
                v = cc.strip_casts(mir.expand(st[0][1], p))
                if kind == "inf":
                    okv = v[0] == "app" and v[1].endswith("::min") and is_arg(v[2][0], 2) and cc.const_int(v[2][1]) == (1 << 64) - 1
                else:
                    okv = is_arg(v, 2)
                if not okv:
                    probs.append("stores %s, not the requested position" % mir.fmt(st[0][1])[:60])
            elif is_err(p.ret):
                nrej += 1
                if st:
                    probs.append("rejected set_word_pos moves the cursor")
            # guard
            for (t, op, val) in p.constraints:
                if t[0] == "binop" and t[1] in ("Gt", "Ge", "Lt", "Le", "Eq", "Ne"):
                    ex = mir.expand(t, p)
                    a, bb = cc.strip_casts(ex[2]), cc.strip_casts(ex[3])
                    oklen = lambda z: z[0] == "app" and z[1].endswith("::len") and data_access(z)
                    if not ((t[1] == "Gt" and is_arg(a, 2) and oklen(bb)) or (t[1] == "Lt" and oklen(a) and is_arg(bb, 2))):
                        probs.append("rejection guard is %s (expected position > len(data))" % mir.fmt(t)[:70])
        if kind == "inf" and nrej:
            probs.append("zero-extended reader rejects a position")
        if kind != "inf" and (nok < 1 or nrej < 1):
            probs.append("expected accepting and rejecting paths (%d/%d)" % (nok, nrej))
        chk.expect("K.set_word_pos", tname, not probs, "%s::set_word_pos: %s" % (tname, "; ".join(sorted(set(probs)))), sample={"type": tname})
    for ty in ("impls::mem_word_writer::MemWordWriterSlice::<W, B>::len", "impls::mem_word_writer::MemWordWriterVec::<W, B>::len"):
        ps = [p for p in mir.walk(F.body(ty)) if p.end[0] == "return"]
        ex = mir.expand(ps[0].ret, ps[0]) if len(ps) == 1 else None
        chk.expect("K.len", ty, ex is not None and ex[0] == "app" and ex[1].endswith("::len") and data_access(ex), "%s is not data.len()" % ty)


def run_all(chk, fsets, tier):
    import facts
    run(chk, facts.load(fsets[0]), tier)

"""C02 — bit readers: R1 endianness pairing of fetched words, R2 numeric safety + invariant (E3),
R3 position accounting (E4), R4 Clone copies every field."""
import mir
import rules_num as rn
import rules_effects as re_

READERS = ("impls::buf_bit_reader::BufBitReader<", "impls::bit_reader::BitReader<")
BE, LE = rn.BE, rn.LE


def reader_bodies(F):
    out = []
    for b in F.bodies:
        if b["kind"] != "AssocFn":
            continue
        sf = b.get("impl_self") or ""
        if not any(sf.startswith(r) for r in READERS):
            continue
        tr = b.get("impl_trait_def") or ""
        if tr.startswith("mem_dbg") or tr.startswith("std::fmt") or tr.startswith("core::fmt"):
            continue
        e = "be" if BE in sf else "le" if LE in sf else None
        out.append((b, e))
    return out


def first_uses(p, res):
    """call events that consume (okval of / the value of) call result `res` directly"""
    uses = []
    def is_val(t):
        return t == ("okval", res) or t == ("field", ("variant", res, "Ok"), "0") or t == res
    for e in p.calls():
        if e[3] == res:
            continue
        if any(is_val(a) or (a[0] == "ref" and is_val(a[1])) for a in e[8]):
            uses.append(e)
    return uses


def run_structural(chk, F):
    chk.rule("R1.endianness", floor=10, doc="every word fetched with read_word in BE code is first passed through to_be (LE: to_le), or discarded")
    chk.rule("R1.sites", floor=1, doc="read_word call sites seen in the bit readers")
    sites_total = set()
    for b, e in reader_bodies(F):
        probs = []
        sites = set()
        for p in mir.Walker(b, unroll=0).run():
            for ev in p.calls():
                if ev[1] != "traits::words::WordRead::read_word":
                    continue
                sites.add(ev[5])
                # only paths on which the fetch succeeded and execution went on
                went_on = any(t == ("discr", ("try", ev[3])) and op == "==" and v == 0 for (t, op, v) in p.constraints) or \
                    any(c[0] == "call" and c[1].endswith("map_err") and c[8] and c[8][0] == ev[3] for c in p.events)
                if not went_on:
                    continue
                res = ev[3]
                # map_err(...)? wraps the result
                for c in p.calls():
                    if c[1].endswith("map_err") and c[8] and c[8][0] == ev[3]:
                        res = c[3]
                uses = first_uses(p, res)
                conv = [u for u in uses if u[1].endswith("::to_be") or u[1].endswith("::to_le")]
                other = [u for u in uses if u not in conv]
                if other:
                    probs.append("fetched word flows into %s before any byte-order conversion" % sorted({mir.short(u[1]) for u in other}))
                for u in conv:
                    c = "be" if u[1].endswith("to_be") else "le"
                    if e is not None and c != e:
                        probs.append("%s stream converts a fetched word with to_%s" % (e.upper(), c))
                if not uses:
                    # discarded (skip paths): fine, but it must not reach the buffer - nothing to check
                    pass
        sites_total |= {(b["path"], s) for s in sites}
        if sites:
            key = "%s|%s" % (b.get("impl_self", "")[:40], b["path"].split(" as ")[-1][-60:])
            chk.expect("R1.endianness", key, not probs, "%s: %s" % (b["path"], "; ".join(sorted(set(probs)))), sample={"fn": b["path"], "read_word_sites": len(sites)})
    chk.expect("R1.sites", "count", len(sites_total) >= 12, "only %d read_word call sites found in the bit readers (expected >= 12: the rule would be close to vacuous)" % len(sites_total),
               sample={"sites": len(sites_total)})
    # R4 clone
    chk.rule("R4.clone", floor=4, doc="Clone for BufBitReader initialises every field of the struct from the same field of self")
    adt = F.adts["impls::buf_bit_reader::BufBitReader"]
    fields = [f["name"] for f in adt["variants"][0]["fields"]]
    b = F.one(name="clone", trait_is="std::clone::Clone", impl_self="impls::buf_bit_reader::BufBitReader<")
    ps = [p for p in mir.walk(b) if p.end[0] == "return"]
    r = ps[0].ret if len(ps) == 1 else None
    S = ("deref", ("arg", 1, "self"))
    for f in fields:
        ok = False
        if r and r[0] == "agg" and f in r[5]:
            v = r[4][r[5].index(f)]
            ex = mir.expand(v, ps[0])
            if f.startswith("_marker"):
                ok = True
            elif v == ("field", S, f):
                ok = True
            elif ex[0] == "app" and ex[1].endswith("Clone::clone") and ex[2][0] == ("ref", ("field", S, f)):
                ok = True
        chk.expect("R4.clone", f, ok, "Clone for BufBitReader does not copy field %s from self.%s" % (f, f))
    # BitReader derives Clone
    der = [i for i in F.impls if i.get("trait_def") == "std::clone::Clone" and i["self_ty"].startswith("impls::bit_reader::BitReader<")]
    chk.expect("R4.clone", "BitReader:derive", len(der) == 1 and (der[0].get("expn") or "").find("Clone") >= 0,
               "BitReader no longer derives Clone (field-wise copy)")


def run_all(chk, fsets, tier):
    import facts
    for i, fs in enumerate(fsets):
        F = facts.load(fs)
        if i == 0:
            run_structural(chk, F)
        specs = [s for s in rn.reader_specs() if s.group is None]
        chk.rule("R2.numeric", floor=300 if i == 0 else 0,
                 doc="E3: asserts, shift ranges, call preconditions, reachable panics and 0 <= bits_in_buffer < 2W at every return; W in {8,16,32,64}; unbuffered reader over u64")
        rn.run_specs(chk, F, specs, "R2.numeric", fs)
        chk.rule("R3.position", floor=50 if i == 0 else 0,
                 doc="E4: ghost pos = W*word_pos - bits_in_buffer (unbuffered: bit_index): read/skip advance by exactly n, peek by 0, read_unary by result+1, on every successful path")
        re_.run_reader_effects(chk, F, fs, "R3.position", groups=(None,))
        import rules_bits
        chk.rule("R2.clean", floor=80 if i == 0 else 0,
                 doc="bit-range domain: after every successful refill/peek/skip/read/read_unary the buffer has no set bit outside its valid window (BE: low 2W-bits positions, LE: positions >= bits), and every OR that builds the buffer combines disjoint ranges")
        rules_bits.run_reader_cleanliness(chk, F, fs, "R2.clean", groups=(None,))
        import rules_seq
        chk.rule("R7.content", floor=60 if i == 0 else 0,
                 doc="bit-sequence domain: with Bf the buffered bits and w_0, w_1, ... the words fetched by the call, the upcoming stream is U = Bf ++ w_0 ++ ...; read_bits/peek_bits return exactly the first n bits of U zero-extended (BE: first bit most significant, LE: least), and after read/peek/skip/skip_after_peek/read_unary the buffer holds exactly the rest of U in its valid window and zeros elsewhere; W in {8,16,32,64}, all paths (loops unrolled; read_unary summarised); unbuffered BitReader: read_bits/peek_bits seek to word bit_index/64 and return exactly the n bits at offset bit_index%64 of the fetched words")
        rules_seq.run_parallel(chk, F, fs, [("reader", "R7.content", nm) for nm in ("read_bits", "peek_bits", "skip_bits", "skip_bits_after_peek")] + [("unary", "R7.content", "read_unary"), ("bitreader", "R7.content", "bitreader")])
    # read_unary by interpretation: the value returned, the bits left, the position
    import rules_c02u
    rules_c02u.run_unbuffered(chk, facts.load(fsets[0]), tier)
    rules_c02u.run_buffered(chk, facts.load(fsets[0]), tier)
    # what the readers' argument assumes about the word sources and about failed look-ahead
    import deps
    F0 = facts.load(fsets[0])
    deps.backends(chk, F0, tier, ("K.read_word",), "R8.source", "the in-memory sources return the word under the cursor and advance, zeros beyond the end of a zero-extended one (C13)")
    deps.end_of_stream(chk, F0, tier, ("E3.order",), "R8.source", "a failed look-ahead fetch leaves the reader as it was, so the history continues from the same position (C09)")
    chk.trust("rustc MIR construction and the mirx exporter")
    chk.trust("contract table sa/contracts.py; ghost updates of sa/rules_effects.py (read_word advances the backend by one word)")
    chk.trust("exact rational simplex sa/lp.py")

"""CFG utilities and the path walker (decision trees + def-use term resolution).

The walker enumerates CFG paths of one exported MIR body and resolves every
operand, through reaching definitions on that path, to a *term* over the
function's parameters, constants and call results.  It never evaluates library
code: calls are opaque events.  It is used for structural rules (which call is
made under which match-arm constraints, with which argument provenance; which
stores happen before which calls; what is returned).
"""
import re

ADAPTER_RE = re.compile(r"(?:std|core)::(?:(result::Result::<T, E>|option::Option::<T>)::(map|and_then|map_or_else|map_or|unwrap_or_else|unwrap_or|ok_or_else|ok_or|ok)"
                        r"|bool::<impl bool>::(then|then_some))$")
CLOSURE_CALLS = ("std::ops::FnMut::call_mut", "std::ops::FnOnce::call_once", "std::ops::Fn::call")
TRANSPARENT_TRY = "std::ops::Try::branch"
FROM_RESIDUAL = "std::ops::FromResidual::from_residual"


class PathLimit(Exception):
    pass


def callee_name(func):
    """(name, resolved_name_or_None) of a call's func operand."""
    if func.get("k") == "const" and "fn" in func:
        r = func.get("resolved")
        return func["fn"], (r["fn"] if r else None)
    return None, None


def short(name):
    """last two path segments, e.g. GammaRead::read_gamma"""
    if name is None:
        return None
    parts = name.split("::")
    return "::".join(parts[-2:]) if len(parts) >= 2 else name


class Body:
    def __init__(self, b):
        self.b = b
        self.path = b["path"]
        self.blocks = {blk["id"]: blk for blk in b["blocks"]}
        self.locals = b["locals"]
        self.arg_count = b["arg_count"]

    def local_name(self, l):
        return self.locals[l]["name"]

    def local_ty(self, l):
        return self.locals[l]["ty"]

    def succs(self, bid):
        t = self.blocks[bid]["term"]
        k = t["k"]
        if k in ("goto", "drop", "assert"):
            return [t["target"]]
        if k == "call":
            return [t["target"]] if t["target"] is not None else []
        if k == "switch":
            return [x for _, x in t["targets"]] + [t["otherwise"]]
        return []

    def calls(self):
        """all call terminators (non-cleanup blocks) as (block id, term)"""
        out = []
        for bid, blk in self.blocks.items():
            if blk["cleanup"]:
                continue
            if blk["term"]["k"] == "call":
                out.append((bid, blk["term"]))
        return out

    def reachable(self, start=0):
        seen = set()
        st = [start]
        while st:
            x = st.pop()
            if x in seen:
                continue
            seen.add(x)
            st.extend(self.succs(x))
        return seen


# ---------------------------------------------------------------------------
# terms
#
# ('arg', i, name)            i-th parameter (1-based local index)
# ('const', value, ty)        integer / bool / str constant
# ('cparam', name)            const generic parameter
# ('uneval', path, args)      unevaluated (generic) associated constant
# ('fnitem', path)            function item / closure value
# ('unit',)
# ('ref', t) ('deref', t) ('field', t, name) ('variant', t, name) ('index', t, i)
# ('discr', t)
# ('ret', n, callee)          result of the n-th call event on the path
# ('okval', t) ('residual', t) ('from_residual', t)   Try desugaring
# ('cast', t, ty) ('binop', op, a, b) ('unop', op, a)
# ('agg', kind, name, variant, (fields...), (names...))
# ('tuple', (..))             also for *WithOverflow results
# ('unknown', why)


def is_const(t):
    return isinstance(t, tuple) and t and t[0] == "const"


class Path:
    __slots__ = ("constraints", "events", "ret", "end", "blocks", "env", "mem", "log", "state")

    def __init__(self):
        self.constraints = []
        self.events = []
        self.ret = None
        self.end = None
        self.blocks = []

    def calls(self, name_contains=None):
        out = []
        for e in self.events:
            if e[0] == "call" and (name_contains is None or (e[1] and name_contains in e[1])):
                out.append(e)
        return out


class Walker:
    def __init__(self, body, max_paths=20000, unroll=1, on_call=None, init_env=None):
        self.body = body if isinstance(body, Body) else Body(body)
        self.max_paths = max_paths
        self.unroll = unroll
        self.paths = []
        self.on_call = on_call
        self.init_env = init_env or {}

    # -- operands -----------------------------------------------------------
    def const_term(self, o):
        if "fn" in o:
            return ("fnitem", o["fn"], tuple(o.get("fn_args", [])), (o.get("resolved") or {}).get("fn"))
        if "closure" in o:
            return ("fnitem", o["closure"], (), None)
        if "param" in o:
            m = getattr(self, "gen_map", {}).get(o["param"], o["param"])
            # (a helper walked in its caller's context sees the caller's generic arguments)
            if m in ("true", "false"):
                return ("const", m == "true", "bool")
            if isinstance(m, str) and m.isdigit():
                return ("const", int(m), o.get("ty", "usize"))
            return ("cparam", m)
        if "value" in o:
            if "uneval" in o:
                # evaluated named constant: keep its identity as a 4th component
                return ("const", o["value"], o["ty"], o["uneval"])
            return ("const", o["value"], o["ty"])
        if "uneval" in o:
            return ("uneval", o["uneval"], tuple(o.get("uneval_args", [])), o.get("promoted"))
        if "str" in o:
            return ("const", o["str"], "&str")
        if "bytes" in o:
            return ("const", tuple(o["bytes"]), "&[u8]")
        if o.get("ty") == "()" or o.get("zst"):
            return ("unit",)
        return ("unknown", "const:" + str(o.get("text")) + ":" + o.get("ty", ""))

    def local_term(self, st, l):
        env = st["env"]
        if l in env:
            return env[l]
        if 1 <= l <= self.body.arg_count and l not in self.init_env:
            return ("arg", l, argname(l, self.body.local_name(l)))
        return ("local", l, self.body.path)

    def place_term(self, st, p, read=True):
        env, mem = st["env"], st["mem"]
        l = p["l"]
        t = self.local_term(st, l)
        for e in p["proj"]:
            if e == "deref":
                if t[0] == "ref":
                    t = t[1]
                    if t[0] == "local" and len(t) > 2 and t[2] == self.body.path and read:
                        t = self.local_term(st, t[1])
                else:
                    t = ("deref", t)
            elif isinstance(e, dict) and "field" in e:
                idx = int(e["field"])
                name = e["name"] if e["name"] is not None else str(idx)
                if t[0] == "agg":
                    t = t[4][idx] if idx < len(t[4]) else ("unknown", "aggfield")
                    continue
                if t[0] == "tuple":
                    t = t[1][idx] if idx < len(t[1]) else ("unknown", "tuplefield")
                    continue
                if t[0] == "variant" and t[1][0] == "try":
                    # (Try::branch(x) as Continue).0 / (.. as Break).0
                    x = t[1][1]
                    while x[0] == "maperr" and t[2] == "Continue":
                        x = x[1]
                    if t[2] == "Continue" and x[0] == "agg" and x[1] == "adt" and x[3] in ("Ok", "Some") and x[4]:
                        t = x[4][0]
                    elif t[2] == "Break" and x[0] == "from_residual":
                        t = x[1]
                    else:
                        t = ("okval", x) if t[2] == "Continue" else ("residual", x)
                    continue
                if t[0] == "variant" and t[2] in ("Ok", "Some") and idx == 0 and isinstance(t[1], tuple) and t[1] and t[1][0] in ("ret", "maperr"):
                    # `match r { Ok(v) => .. }` names the payload that `r?` names
                    x = t[1]
                    while x[0] == "maperr":
                        x = x[1]
                    t = ("okval", x)
                    continue
                t = ("field", t, name)
            elif isinstance(e, dict) and "downcast" in e:
                if not (t[0] == "agg" and t[1] == "adt" and t[3] == e["variant"]):      # (a value built as that variant is itself)
                    t = ("variant", t, e["variant"])
                continue
            elif isinstance(e, dict) and "index" in e:
                it = self.local_term(st, e["index"])
                t = ("index", t, it)
            elif isinstance(e, dict) and "cindex" in e:
                t = ("index", t, ("const", int(e["cindex"]), "usize"))
            else:
                t = ("proj", t, str(e))
            if read and t in mem:
                t = mem[t]
            elif read and st.get("x_dirty"):
                for base, res in st["x_dirty"]:
                    if _mentions(t, base) and t[0] == "field":
                        t = ("after", res, t)
                        break
        return t

    def operand(self, st, o):
        k = o.get("k")
        if k in ("copy", "move"):
            return self.place_term(st, o["place"])
        if k == "const":
            return self.const_term(o)
        return ("unknown", "operand")

    def rvalue(self, st, rv):
        k = rv["k"]
        if k == "use":
            return self.operand(st, rv["op"])
        if k == "ref" or k == "rawptr":
            pl = rv["place"]
            if not pl["proj"] and pl["l"] in st["env"] and st["env"][pl["l"]][0] not in ("ref",):
                # address of a local that holds a value: keep the local's identity
                r = ("ref", ("local", pl["l"], self.body.path))
            else:
                r = ("ref", self.place_term(st, pl, read=False))
            if rv.get("mut"):
                st["mutrefs"].add(r)
            return r
        if k == "cast":
            t = self.operand(st, rv["op"])
            if rv["kind"].startswith("PointerCoercion"):
                return ("coerce", t, rv["kind"])
            if is_const(t) and isinstance(t[1], int) and rv["kind"] == "IntToInt":
                return ("const", t[1], rv["ty"])
            return ("cast", t, rv["ty"])
        if k == "binop":
            a = self.operand(st, rv["a"])
            b = self.operand(st, rv["b"])
            op = rv["op"]
            if op.endswith("WithOverflow"):
                return ("tuple", (("binop", op[:-12], a, b), ("ovf", op[:-12], a, b)))
            return ("binop", op, a, b)
        if k == "unop":
            return ("unop", rv["op"], self.operand(st, rv["a"]))
        if k == "discr":
            t = self.place_term(st, rv["place"])
            return ("discr", t)
        if k == "aggregate":
            ops = tuple(self.operand(st, o) for o in rv["ops"])
            agg = rv.get("agg")
            if agg == "tuple":
                return ("tuple", ops)
            if agg == "adt":
                return ("agg", "adt", rv["adt"], rv["variant"], ops, tuple(rv["fields"]))
            if agg == "closure":
                return ("agg", "closure", rv["closure"], None, ops, ())
            if agg == "array":
                return ("agg", "array", rv.get("elem_ty"), None, ops, ())
            return ("agg", str(agg), None, None, ops, ())
        if k == "repeat":
            return ("repeat", self.operand(st, rv["op"]), rv["n"])
        return ("unknown", "rvalue:" + k)

    # -- walking ------------------------------------------------------------
    def run(self, start=0, state=None):
        st = state if state is not None else {"env": dict(self.init_env), "mem": {}, "cons": [], "events": [], "visits": {}, "blocks": [], "ncall": 0, "mutrefs": set(), "log": []}
        stack = [(start, st)]
        first = state is not None
        while stack:
            bid, st = stack.pop()
            self.step(bid, st, stack, first=first)
            first = False
            if len(self.paths) > self.max_paths:
                raise PathLimit(self.body.path)
        return self.paths

    def finish(self, st, end, ret=None):
        p = Path()
        p.constraints = st["cons"]
        p.events = st["events"]
        p.ret = ret
        p.end = end
        p.blocks = st["blocks"]
        p.env = st["env"]
        p.mem = st["mem"]
        p.log = st["log"]
        p.state = st
        self.paths.append(p)

    @staticmethod
    def fork(st):
        return {"env": dict(st["env"]), "mem": dict(st["mem"]), "cons": list(st["cons"]),
                "events": list(st["events"]), "visits": dict(st["visits"]), "blocks": list(st["blocks"]),
                "ncall": st["ncall"], "mutrefs": set(st["mutrefs"]), "log": list(st["log"]),
                **{k: (dict(v) if isinstance(v, dict) else list(v) if isinstance(v, list) else v) for k, v in st.items() if k.startswith("x_")}}

    def known(self, st, d):
        """value forced for discriminant term d by earlier constraints, and excluded values"""
        eq = None
        ne = set()
        for (t, op, v) in st["cons"]:
            if t == d:
                if op == "==":
                    eq = v
                else:
                    ne.update(v)
        return eq, ne

    # -- hooks (overridden by the numeric interpreter) -------------------------
    region = None          # set of block ids the walk is restricted to (loop bodies)
    region_head = None

    def head_hook(self, bid, st, stack):
        return False

    def call_hook(self, st, t, fname, resolved, args):
        return None

    def add_event(self, st, ev):
        st["events"].append(ev)
        st["log"].append(("ev", ev))

    def add_cons(self, st, c):
        st["cons"].append(c)
        st["log"].append(("cons", c))

    def leave(self, st, nxt):
        """region bookkeeping when control moves to block nxt; returns True if the walk of this state ends here"""
        if self.region is not None:
            if nxt == self.region_head:
                self.finish(st, ("back", nxt))
                return True
            if nxt not in self.region:
                self.finish(st, ("exit", nxt))
                return True
        return False

    def step(self, bid, st, stack, first=False):
        while True:
            if not first and self.head_hook(bid, st, stack):
                return
            first = False
            n = st["visits"].get(bid, 0)
            if n > self.unroll:
                self.finish(st, ("cut", bid))
                return
            st["visits"][bid] = n + 1
            st["blocks"].append(bid)
            blk = self.body.blocks[bid]
            for s in blk["stmts"]:
                if s["k"] != "assign":
                    continue
                val = self.rvalue(st, s["rv"])
                p = s["place"]
                if not p["proj"]:
                    st["env"][p["l"]] = val
                else:
                    key = self.place_term(st, p, read=False)
                    if key[0] == "local" and len(key) > 2 and key[2] == self.body.path:
                        st["env"][key[1]] = val
                    else:
                        st["mem"][key] = val
                        self.add_event(st, ("store", key, val, s.get("line")))
            t = blk["term"]
            k = t["k"]
            if k == "goto":
                if self.leave(st, t["target"]):
                    return
                bid = t["target"]
                continue
            if k == "drop":
                self.add_event(st, ("drop", self.place_term(st, t["place"], read=False)))
                if self.leave(st, t["target"]):
                    return
                bid = t["target"]
                continue
            if k == "assert":
                self.add_event(st, ("assert", t["msg"].get("k"), self.operand(st, t["cond"]), t["expected"], t["msg"], t.get("line")))
                if self.leave(st, t["target"]):
                    return
                bid = t["target"]
                continue
            if k == "return":
                ret = self.local_term(st, 0)
                self.finish(st, ("return",), ret)
                return
            if k == "unreachable":
                return
            if k in ("resume", "terminate", "other"):
                self.finish(st, (k,))
                return
            if k == "call":
                fname, resolved = callee_name(t["func"])
                args = tuple(self.operand(st, a) for a in t["args"])
                fn_args = tuple(t["func"].get("fn_args", []))
                if fname is None:
                    fterm = self.operand(st, t["func"])
                    fname = "<indirect>"
                    ft = self.resolve_locals(st, fterm)
                    while isinstance(ft, tuple) and ft and ft[0] == "coerce":
                        ft = ft[1]
                    if isinstance(ft, tuple) and ft and ft[0] == "fnitem" and self.is_closure_path(ft[1]):
                        ft = ("agg", "closure", ft[1], None, (), ())
                    if isinstance(ft, tuple) and ft and ft[0] == "fnitem":
                        # a call through a function pointer whose value is a known function item is a call of that function
                        fname = resolved = ft[1]
                        fn_args = tuple(ft[2]) if len(ft) > 2 and ft[2] else ()
                    elif isinstance(ft, tuple) and ft and ft[0] == "agg" and ft[1] == "closure":
                        # a non-capturing closure coerced to a function pointer: the call is a call of the closure
                        fname, resolved = "std::ops::Fn::call", None
                        args = (("ref", ft), ("tuple", args))
                else:
                    fterm = None
                if fname in CLOSURE_CALLS and len(args) == 2 and isinstance(args[1], tuple) and args[1] and args[1][0] == "tuple":
                    v = self.callable_value(st, args[0])
                    if isinstance(v, tuple) and v and v[0] == "fnitem" and not self.is_closure_path(v[1]):
                        # calling a function item through the Fn* traits is calling the function
                        fname = resolved = v[1]
                        fn_args = tuple(v[2]) if len(v) > 2 and v[2] else ()
                        args = tuple(args[1][1])
                self._cur_fn_args = fn_args
                dest = t["dest"]
                forks = None
                if fname == TRANSPARENT_TRY and len(args) == 1:
                    a0 = args[0]
                    while isinstance(a0, tuple) and a0 and a0[0] == "maperr":
                        a0 = a0[1]          # map_err keeps Ok-ness: branch on the underlying result
                    res = ("try", a0)
                elif fname == FROM_RESIDUAL and len(args) == 1:
                    res = ("from_residual", args[0])
                else:
                    st["ncall"] += 1
                    res = ("ret", st["ncall"], fname)
                    rargs = tuple(self.resolve_locals(st, a) for a in args)
                    ev = ("call", fname, args, res, resolved, t.get("line"), fterm, fn_args, rargs,
                          self.body.local_ty(dest["l"]) if not dest["proj"] else None)
                    self.add_event(st, ev)
                    forks = self.call_hook(st, t, fname, resolved, args)
                    if forks is None:
                        # &mut arguments: the callee may change what they point to
                        for a in args:
                            if a[0] == "ref" and a in st["mutrefs"]:
                                for key in [kk for kk in st["mem"] if _mentions(kk, a[1])]:
                                    st["mem"][key] = ("after", res, st["mem"][key])
                                if a[1][0] != "local":
                                    st.setdefault("x_dirty", []).append((a[1], res))
                                if a[1][0] == "local" and len(a[1]) > 2 and a[1][2] == self.body.path and a[1][1] in st["env"]:
                                    st["env"][a[1][1]] = ("after", res, st["env"][a[1][1]])
                if forks is None:
                    forks = [{"cons": [], "res": res, "env": {}}]
                conts = []
                for i, fk in enumerate(forks):
                    if "state" in fk:
                        s2 = fk["state"]
                    else:
                        s2 = st if i == len(forks) - 1 else self.fork(st)
                    for c in fk.get("cons", []):
                        self.add_cons(s2, c)
                    if fk.get("cons") and not self.state_feasible(s2):
                        continue
                    for l, v in fk.get("env", {}).items():
                        s2["env"][l] = v
                    for kx, v in fk.get("mem", {}).items():
                        s2["mem"][kx] = v
                    r2 = fk.get("res", res)
                    if not dest["proj"]:
                        s2["env"][dest["l"]] = r2
                    else:
                        key = self.place_term(s2, dest, read=False)
                        s2["mem"][key] = r2
                        self.add_event(s2, ("store", key, r2, t.get("line")))
                    conts.append(s2)
                if t["target"] is None:
                    for s2 in conts:
                        self.finish(s2, ("diverge", fname, args))
                    return
                if not conts:
                    return
                for s2 in conts[:-1]:
                    if not self.leave(s2, t["target"]):
                        stack.append((t["target"], s2))
                st = conts[-1]
                if self.leave(st, t["target"]):
                    return
                bid = t["target"]
                continue
            if k == "switch":
                d = self.operand(st, t["discr"])
                targets = [(int(v), x) for v, x in t["targets"]]
                # constant / structurally known discriminants
                kv = None
                if is_const(d):
                    kv = int(d[1]) if not isinstance(d[1], bool) else (1 if d[1] else 0)
                elif d[0] == "discr" and d[1][0] == "agg" and d[1][1] == "adt":
                    kv = self.variant_index(d[1])
                elif d[0] == "discr" and d[1][0] == "try":
                    y = d[1][1]
                    if y[0] == "from_residual":
                        kv = 1          # an error built by `?` is Break
                    elif y[0] == "agg" and y[1] == "adt":
                        vi = self.variant_index(y)
                        if vi is not None and y[3] in ("Ok", "Err", "Some", "None"):
                            kv = 0 if y[3] in ("Ok", "Some") else 1
                if isinstance(kv, int):
                    nxt = t["otherwise"]
                    for v, x in targets:
                        if v == kv:
                            nxt = x
                    if self.leave(st, nxt):
                        return
                    bid = nxt
                    continue
                if d[0] == "discr" and d[1][0] == "try":
                    # Try::branch: 0 = Continue, 1 = Break
                    d = ("discr", d[1])
                eq, ne = self.known(st, d)
                branches = []
                for v, x in targets:
                    if eq is not None and eq != v:
                        continue
                    if v in ne:
                        continue
                    branches.append((("==", v), x))
                vals = [v for v, _ in targets]
                if eq is None or eq not in vals:
                    branches.append((("notin", tuple(vals)), t["otherwise"]))
                todo = []
                for (op, v), x in branches:
                    if self.body.blocks[x]["term"]["k"] == "unreachable" and not self.body.blocks[x]["stmts"]:
                        continue
                    if not self.branch_feasible(st, d, op, v):
                        continue
                    todo.append(((op, v), x))
                if not todo:
                    return
                for (op, v), x in todo[1:]:
                    s2 = self.fork(st)
                    self.add_cons(s2, (d, op, v))
                    if not self.leave(s2, x):
                        stack.append((x, s2))
                (op, v), x = todo[0]
                self.add_cons(st, (d, op, v))
                if self.leave(st, x):
                    return
                bid = x
                continue
            raise AssertionError("unknown terminator " + k)

    def resolve_locals(self, st, t, depth=0):
        """replace addresses of this body's value-holding locals by the values they hold (for provenance tracing)"""
        if not isinstance(t, tuple) or not t or depth > 6:
            return t
        if t[0] == "local" and len(t) > 2 and t[2] == self.body.path and t[1] in st["env"]:
            return self.resolve_locals(st, st["env"][t[1]], depth + 1)
        if t[0] in ("ref", "deref", "coerce", "cast"):
            return (t[0], self.resolve_locals(st, t[1], depth + 1)) + t[2:]
        return t

    def callable_value(self, st, a):
        v = self.resolve_locals(st, a)
        for _ in range(6):
            if isinstance(v, tuple) and v and v[0] in ("ref", "deref", "coerce"):
                v = v[1]
            elif isinstance(v, tuple) and v and v[0] == "local" and v in st["mem"]:
                v = st["mem"][v]
            else:
                break
        return v

    def is_closure_path(self, nm):
        facts = getattr(self, "facts", None)
        bl = facts.by_path.get(nm, []) if facts is not None else []
        return len(bl) == 1 and bl[0]["kind"] == "Closure"

    def closure_target(self, st, fname, args):
        """(closure body, arguments) when this is a call of a closure whose value is known on the path (the closure was built in
        a caller that is being walked in context): Fn*/call* with a receiver that evaluates to a closure aggregate"""
        facts = getattr(self, "facts", None)
        if facts is None or fname not in CLOSURE_CALLS or len(args) != 2:
            return None
        v = self.callable_value(st, args[0])
        if isinstance(v, tuple) and v and v[0] == "fnitem" and self.is_closure_path(v[1]):
            v = ("agg", "closure", v[1], None, (), ())          # a closure constant: no captures
        if not (isinstance(v, tuple) and v and v[0] == "agg" and v[1] == "closure"):
            return None
        bl = facts.by_path.get(v[2], [])
        tup = args[1]
        if len(bl) != 1 or not bl[0].get("blocks") or not (isinstance(tup, tuple) and tup and tup[0] == "tuple"):
            return None
        # captured references to this body's locals are read through: the closure body sees the values they hold now
        v = v[:4] + (tuple(self.resolve_locals(st, c) for c in v[4]),) + v[5:]
        l1 = bl[0]["locals"][1]["ty"] if len(bl[0].get("locals", [])) > 1 else ""
        a0 = ("ref", v) if str(l1).startswith("&") else v          # (call_once of an Fn/FnMut closure goes through a by-reference shim)
        return bl[0], (a0,) + tuple(tup[1])

    def apply_callable(self, st, f, cargs):
        """forks [{"state", "res"}] of calling the function value f (closure, function item or enum constructor) on cargs in
        state st, or None when f is not known"""
        v = self.callable_value(st, f)
        if isinstance(v, tuple) and v and v[0] == "fnitem":
            m = re.match(r"(?:std|core)::(.*)::(Ok|Err|Some)$", v[1])
            if m:
                adt = "std::result::Result" if m.group(2) in ("Ok", "Err") else "std::option::Option"
                return [{"state": st, "res": ("agg", "adt", adt, m.group(2), tuple(cargs), ("0",))}]
            bl = self.facts.by_path.get(v[1], []) if getattr(self, "facts", None) is not None else []
            if len(bl) == 1 and bl[0].get("blocks") and bl[0]["kind"] in ("Fn", "AssocFn") and not self.is_closure_path(v[1]):
                self._cur_fn_args = tuple(v[2]) if len(v) > 2 and v[2] else ()
                return self.inline_call(st, bl[0], tuple(cargs))
        ct = self.closure_target(st, "std::ops::FnOnce::call_once", (f, ("tuple", tuple(cargs))))
        if ct is None:
            return None
        return self.inline_call(st, ct[0], ct[1])

    def adapter_forks(self, st, fname, args):
        """the combinators of Result / Option / bool with function values that are known on the path (std docs): the function is
        walked on the payload of the variant it applies to, the other variant passes through or takes the default"""
        if fname.endswith("Option<T>>::flatten") and len(args) == 1 and isinstance(args[0], tuple) and args[0]:
            r = args[0]
            none = ("agg", "adt", "std::option::Option", "None", (), ())
            if r[0] == "agg" and r[1] == "adt":
                return [{"state": st, "res": (r[4][0] if r[3] == "Some" and r[4] else none)}]
            s1, s0 = self.fork(st), self.fork(st)
            self.add_cons(s1, (("discr", r), "==", 1))
            self.add_cons(s0, (("discr", r), "==", 0))
            return [{"state": s1, "res": ("okval", r)}, {"state": s0, "res": none}]
        m = ADAPTER_RE.match(fname)
        if m is None or not hasattr(self, "inline_call") or not args:
            return None
        kind, fn = ("bool", m.group(3)) if m.group(3) else (("Result" if "result" in m.group(1) else "Option"), m.group(2))
        r = args[0]
        if not isinstance(r, tuple) or not r:
            return None
        if kind == "bool":
            good_v, bad_v, adt = "true", "false", None
            cgood, cbad = (r, "notin", (0,)), (r, "==", 0)
            known = ("true" if r[1] else "false") if (r[0] == "const" and isinstance(r[1], bool)) else None
            payload_good, payload_bad = None, None
        else:
            adt = "std::result::Result" if kind == "Result" else "std::option::Option"
            good_v, bad_v = ("Ok", "Err") if kind == "Result" else ("Some", "None")
            ig, ib = (0, 1) if kind == "Result" else (1, 0)
            cgood, cbad = (("discr", r), "==", ig), (("discr", r), "==", ib)
            known = r[3] if (r[0] == "agg" and r[1] == "adt") else None
            payload_good = r[4][0] if (known == good_v and r[4]) else ("okval", r)
            payload_bad = (r[4][0] if (known == bad_v and r[4]) else ("field", ("variant", r, "Err"), "0")) if kind == "Result" else None
        opt = lambda v, x=None: ("agg", "adt", "std::option::Option", v, ((x,) if v == "Some" else ()), (("0",) if v == "Some" else ()))
        res_ = lambda v, x: ("agg", "adt", "std::result::Result", v, (x,), ("0",))
        same_bad = r if known == bad_v else (res_("Err", payload_bad) if kind == "Result" else opt("None"))
        badargs = [payload_bad] if kind == "Result" else []
        # (variant) -> ("call", function value, arguments, wrap) | ("value", term)
        spec = {
            "map": (("call", 1, [payload_good], lambda x: (res_("Ok", x) if kind == "Result" else opt("Some", x))), ("value", same_bad)),
            "and_then": (("call", 1, [payload_good], None), ("value", same_bad)),
            "map_or_else": (("call", 2, [payload_good], None), ("call", 1, badargs, None)),
            "map_or": (("call", 2, [payload_good], None), ("value", args[1] if len(args) > 1 else None)),
            "unwrap_or_else": (("value", payload_good), ("call", 1, badargs, None)),
            "unwrap_or": (("value", payload_good), ("value", args[1] if len(args) > 1 else None)),
            "unwrap_or_default": None,
            "ok_or_else": (("value", res_("Ok", payload_good)), ("call", 1, [], lambda x: res_("Err", x))),
            "ok_or": (("value", res_("Ok", payload_good)), ("value", res_("Err", args[1]) if len(args) > 1 else None)),
            "ok": (("value", opt("Some", payload_good)), ("value", opt("None"))),
            "then": (("call", 1, [], lambda x: opt("Some", x)), ("value", opt("None"))),
            "then_some": (("value", opt("Some", args[1]) if len(args) > 1 else None), ("value", opt("None"))),
        }.get(fn)
        if spec is None or (kind == "Result" and fn in ("ok_or", "ok_or_else")) or (kind == "Option" and fn == "ok"):
            return None
        out = []
        for which, (cons, act) in (("good", (cgood, spec[0])), ("bad", (cbad, spec[1]))):
            if known is not None and known != (good_v if which == "good" else bad_v):
                continue
            s2 = self.fork(st)
            if known is None:
                self.add_cons(s2, cons)
                if not self.state_feasible(s2):
                    continue
            if act[0] == "value":
                if act[1] is None:
                    return None
                out.append({"state": s2, "res": act[1]})
                continue
            _, ai, cargs, wrap = act
            if ai >= len(args):
                return None
            fks = self.apply_callable(s2, args[ai], cargs)
            if fks is None:
                return None
            for fk in fks:
                fk = dict(fk)
                if wrap is not None:
                    fk["res"] = wrap(fk.get("res"))
                out.append(fk)
        return out

    def branch_feasible(self, st, d, op, v):
        return True

    def state_feasible(self, st):
        return True

    def variant_index(self, agg):
        """variant index of an ADT aggregate term when it can be told from the name (Option/Result)"""
        name, var = agg[2], agg[3]
        if name in ("std::option::Option", "core::option::Option"):
            return {"None": 0, "Some": 1}.get(var)
        if name in ("std::result::Result", "core::result::Result"):
            return {"Ok": 0, "Err": 1}.get(var)
        if name in ("std::ops::ControlFlow", "core::ops::ControlFlow"):
            return {"Continue": 0, "Break": 1}.get(var)
        return None


def _mentions(t, sub):
    if t == sub:
        return True
    if isinstance(t, tuple):
        return any(_mentions(x, sub) for x in t if isinstance(x, tuple))
    return False


def mentions(t, pred):
    """does any sub-term satisfy pred"""
    if not isinstance(t, tuple) or not t:
        return False
    if isinstance(t[0], str) and pred(t):
        return True
    return any(mentions(x, pred) for x in t if isinstance(x, tuple))


def walk(body, **kw):
    w = Walker(body, **kw)
    return w.run()


def strip(t):
    """peel casts / refs / derefs / copies that do not change the value identity"""
    while isinstance(t, tuple) and t and t[0] in ("cast", "coerce"):
        t = t[1]
    return t


def argname(l, name):
    """arguments are identified by position (renaming a parameter changes nothing); `self` keeps its name"""
    return "self" if name == "self" else "arg%d" % l


def fmt(t, depth=0):
    if not isinstance(t, tuple) or not t:
        return repr(t)
    k = t[0]
    if k == "arg":
        return str(t[2] or "arg%d" % t[1])
    if k == "const":
        return "%r" % (t[1],)
    if k == "cparam":
        return t[1]
    if k == "uneval":
        return "%s<%s>" % (t[1].split("::")[-1], ",".join(t[2]))
    if k == "fnitem":
        return "fn " + t[1]
    if k == "unit":
        return "()"
    if k in ("ref",):
        return "&" + fmt(t[1])
    if k == "deref":
        return "*" + fmt(t[1])
    if k == "field":
        return "%s.%s" % (fmt(t[1]), t[2])
    if k == "variant":
        return "(%s as %s)" % (fmt(t[1]), t[2])
    if k == "index":
        return "%s[%s]" % (fmt(t[1]), fmt(t[2]))
    if k == "discr":
        return "discr(%s)" % fmt(t[1])
    if k == "ret":
        return "ret%d:%s" % (t[1], short(t[2]))
    if k in ("okval", "residual", "from_residual", "try"):
        return "%s(%s)" % (k, fmt(t[1]))
    if k == "cast":
        return "(%s as %s)" % (fmt(t[1]), t[2])
    if k == "coerce":
        return "coerce(%s)" % fmt(t[1])
    if k == "binop":
        return "%s(%s, %s)" % (t[1], fmt(t[2]), fmt(t[3]))
    if k == "unop":
        return "%s(%s)" % (t[1], fmt(t[2]))
    if k == "agg":
        nm = t[2] if t[3] is None else "%s::%s" % (t[2].split("::")[-1], t[3])
        return "%s{%s}" % (nm, ", ".join(fmt(x) for x in t[4]))
    if k == "tuple":
        return "(%s)" % ", ".join(fmt(x) for x in t[1])
    if k == "after":
        return "after(%s)" % fmt(t[1])
    if k == "lin":
        return "(%s %+d*trip)" % (fmt(t[1]), int(t[2])) if t[2] == int(t[2]) else "(%s + %s*trip)" % (fmt(t[1]), t[2])
    if k == "havoc":
        return "~%s" % (t[4] if len(t) > 4 and t[4] else t[2])
    if k == "trip":
        return "trip"
    if k == "slen":
        return "len(%s)" % fmt(t[1])
    if k == "local":
        return "_%s" % t[1]
    if k == "app":
        return "%s(%s)" % (short(t[1]), ", ".join(fmt(x) for x in t[2]))
    return str(t)


IMPURE = ("read_word", "read_bits", "read_unary", "peek_bits", "next", "write_word", "write_bits", "write_unary", "read_exact", "read", "write")


def expand(t, path, depth=0):
    """replace call-result terms by the call expression ('app', callee, args) so that terms from different paths compare
    structurally (call ordinals differ between paths)"""
    if not isinstance(t, tuple) or not t or depth > 40:
        return t
    if t[0] == "after":
        return expand(t[2], path, depth + 1)
    if t[0] == "ret":
        for e in path.events:
            if e[0] == "call" and e[3] == t:
                args = tuple(expand(a, path, depth + 1) for a in e[8])
                # calls that take a mutable reference are not pure: distinguish the n-th identical call
                if any(isinstance(a, tuple) and a and a[0] == "ref" for a in e[2]) and e[1].split("::")[-1] in IMPURE:
                    n = 0
                    for e2 in path.events:
                        if e2 is e:
                            break
                        if e2[0] == "call" and e2[1] == e[1]:
                            n += 1
                    return ("app", e[1], args, n)
                return ("app", e[1], args)
        return ("app", t[2], ())
    return tuple(expand(x, path, depth + 1) if isinstance(x, tuple) else x for x in t)


# ---------------------------------------------------------------------------------------------------------------------------
class InlineWalker(Walker):
    """path walker that walks crate-private helpers (module-private functions, functions nested in a function body) in the
    caller's context, so that extracting code into such a helper does not hide it from a structural rule.  `facts` gives the
    bodies; `pred(name, body)` says which callees to inline (default: not `pub`, or nested inside the function under analysis)."""

    def __init__(self, body, facts, pred=None, depth=0, **kw):
        super().__init__(body, **kw)
        self.facts = facts
        self.depth = depth
        self.root = getattr(self.body, "path", None)
        self.pred = pred

    def inlinable(self, nm):
        bl = self.facts.by_path.get(nm, [])
        if len(bl) != 1 or bl[0]["kind"] not in ("Fn", "AssocFn") or not bl[0].get("blocks"):
            return None
        b = bl[0]
        if self.pred is not None:
            return b if self.pred(nm, b) else None
        private = str(b.get("vis") or "").startswith("Restricted")
        nested = self.root is not None and nm.startswith(self.root + "::")
        if (private or nested) and not b.get("impl_trait"):
            return b
        # a helper that was made `pub` is still a helper: a free function of the module of the function under analysis
        if b["kind"] == "Fn" and not b.get("impl_trait") and getattr(self, "same_module_helpers", True):
            rf = getattr(self, "root_file", None) or span_file(self.body.b.get("span") if hasattr(self.body, "b") else None)
            if rf and span_file(b.get("span")) == rf:
                return b
        return None

    def call_hook(self, st, t, fname, resolved, args):
        if self.depth >= 4:
            return None
        ct = self.closure_target(st, fname, args)
        if ct is not None:
            return self.inline_call(st, ct[0], ct[1])
        af = self.adapter_forks(st, fname, args) if getattr(self, "adapters", True) else None
        if af is not None:
            return af
        for nm in (resolved, fname):
            if not nm:
                continue
            cb = self.inlinable(nm)
            if cb is not None:
                return self.inline_call(st, cb, args)
        return None

    def place_term(self, st, p, read=True):
        t = super().place_term(st, p, read)
        return self.outer(st, t) if read else t

    def outer(self, st, t, depth=0):
        """value of a place inside a caller's local whose address was passed down (`&mut best` -> `(*best).1`)"""
        if not isinstance(t, tuple) or not t or depth > 6:
            return t
        if t[0] == "local" and len(t) > 2 and t[2] != self.body.path:
            return st["mem"].get(t, t)
        if t[0] == "field" and isinstance(t[1], tuple) and t[1] and t[1][0] in ("local", "field"):
            base = self.outer(st, t[1], depth + 1)
            if base is not t[1] and isinstance(base, tuple) and base:
                try:
                    i = int(t[2])
                except (TypeError, ValueError):
                    i = None
                if base[0] == "tuple" and i is not None and i < len(base[1]):
                    return base[1][i]
                if base[0] == "agg" and i is not None and i < len(base[4]):
                    return base[4][i]
                return ("field", base, t[2])
        return t

    def inline_call(self, st, callee, args):
        w = InlineWalker(callee, self.facts, self.pred, depth=self.depth + 1, max_paths=self.max_paths, unroll=self.unroll)
        w.root = self.root
        w.root_file = getattr(self, "root_file", None) or span_file(self.body.b.get("span") if hasattr(self.body, "b") else None)
        w.adapters = getattr(self, "adapters", True)
        w.gen_map = generic_map(self, callee)
        s2 = self.fork(st)
        caller_env, caller_visits, caller_blocks = s2["env"], s2["visits"], s2["blocks"]
        # locals of the caller whose address is handed to the callee: their current values travel in `mem`
        passed = []

        def addr(t, depth=0):
            if isinstance(t, tuple) and t and depth < 8:
                if t[0] == "local" and len(t) > 2 and t[2] == self.body.path and t[1] in caller_env:
                    passed.append(t)
                for x in t:
                    addr(x, depth + 1)
        for a in args:
            addr(a)
        for t in passed:
            s2["mem"][t] = caller_env[t[1]]
        s2["env"] = {i + 1: a for i, a in enumerate(args)}
        s2["visits"], s2["blocks"] = {}, []
        w.init_env = dict(s2["env"])
        paths = w.run(start=0, state=s2)
        forks = []
        for p in paths:
            if p.end[0] == "return":
                ns = p.state
                ns["env"] = dict(caller_env)
                for t in passed:                      # what the callee stored through the reference becomes the local's value
                    if t in ns["mem"]:
                        ns["env"][t[1]] = ns["mem"].pop(t)
                ns["visits"], ns["blocks"] = dict(caller_visits), list(caller_blocks)
                forks.append({"state": ns, "res": p.ret})
            else:
                self.paths.append(p)
        return forks


def span_file(span):
    """source file of a span string (`src/impls/x.rs:10:5: 12:6 (#0)`)"""
    return str(span).split(":")[0] if span else None


def generic_map(caller, callee):
    """generic parameter of the callee -> the caller's argument for it at the call being walked"""
    fa = getattr(caller, "_cur_fn_args", ()) or ()
    gens = (callee.get("generics") if isinstance(callee, dict) else None) or []
    cm = getattr(caller, "gen_map", {})
    if len(gens) != len(fa):
        return dict(cm) if callee.get("kind") == "Closure" else {}
    return {g: cm.get(a, a) for g, a in zip(gens, fa)}


def walk_inline(body, facts, gen_map=None, adapters=True, **kw):
    w = InlineWalker(body, facts, **kw)
    w.adapters = adapters               # False: Result/Option combinators stay opaque calls (rules that classify those calls)
    if gen_map:
        w.gen_map = dict(gen_map)       # const generic arguments fixed for this analysis (e.g. the table flags off)
    return w.run()


def norm_ok(t, depth=0):
    """`match r { Ok(v) => .. }` and `r?` name the same payload: ('field', ('variant', r, 'Ok'|'Some'), '0') -> ('okval', r)"""
    if not isinstance(t, tuple) or not t or depth > 40:
        return t
    if t[0] == "field" and len(t) == 3 and isinstance(t[1], tuple) and t[1] and t[1][0] == "variant" and t[1][2] in ("Ok", "Some") and str(t[2]) == "0":
        return ("okval", norm_ok(t[1][1], depth + 1))
    return tuple(norm_ok(x, depth + 1) for x in t)

"""C10 — every dispatch mechanism performs exactly the code it names.

D1 arm tables, D2 sibling agreement, D3 forwarding wrappers.  All structural:
decision trees of the dispatcher bodies (match arms in MIR) + def-use resolution
of the arguments of the single stream-consuming call in each arm.
"""
import mir
import codeclass as cc
from facts import FactsError

CODES_ADT = "dispatch::codes::Codes"


def is_arg(t, i):
    return isinstance(t, tuple) and len(t) > 1 and t[0] == "arg" and t[1] == i


def peel_ref(t):
    """&*x -> x ; &mut *x -> x"""
    while isinstance(t, tuple) and t[0] == "ref" and t[1][0] == "deref":
        t = t[1][1]
    return t


def variants(F):
    adt = F.adts.get(CODES_ADT)
    if adt is None:
        raise FactsError("ADT %s not found" % CODES_ADT)
    return {int(v["idx"]): v for v in adt["variants"]}


def codes_key(F, path, subject):
    """Arm key of a path through a match on a `Codes` value `subject`.

    returns ('arm', variant, ('const', c)|('any', excluded)|None) or ('default',)"""
    vs = variants(F)
    var = None
    pspec = None
    default = False
    for (t, op, v) in path.constraints:
        if t == ("discr", subject):
            if op == "==":
                var = vs[v]["name"]
            else:
                default = True
        elif t[0] == "field" and t[1][0] == "variant" and t[1][1] == subject:
            if op == "==":
                pspec = ("const", v)
            elif not (pspec and pspec[0] == "const"):
                pspec = ("any", tuple(sorted(set(v) | set(pspec[1] if pspec else ()))))
        elif t[0] == "binop" and t[1] in ("Eq", "Ne") and len(t) == 4:
            # `if k == 3 { .. } else { .. }` pins / excludes the parameter like a match arm does
            for fld, cst in ((t[2], t[3]), (t[3], t[2])):
                fld = cc.strip_casts(fld)
                cv = cc.const_int(cst)
                if isinstance(fld, tuple) and fld[0] == "field" and fld[1][0] == "variant" and fld[1][1] == subject and cv is not None:
                    truth = (op == "==" and v == 1) or (op == "notin" and tuple(v) == (0,))
                    if truth == (t[1] == "Eq"):
                        pspec = ("const", cv)
                    elif not (pspec and pspec[0] == "const"):
                        pspec = ("any", tuple(sorted(set(pspec[1] if pspec else ()) | {cv})))
                    break
    if default or var is None:
        return ("default",)
    return ("arm", var, pspec)


def key_class(key, for_len):
    fam, field = cc.VARIANT[key[1]]
    if field is None:
        return cc.canon(fam, None, for_len)
    if key[2] is not None and key[2][0] == "const":
        return cc.canon(fam, key[2][1], for_len)
    return (fam, "P")


def leaf_from_events(path, kind, stream_i, value_i, field_term=None):
    """classify the leaf of a direct dispatcher arm.

    stream_i/value_i: parameter indices of the stream / the value in this body."""
    def uses_stream(t):
        return is_arg(t, stream_i) if stream_i else False

    def uses_value(t):
        return is_arg(t, value_i) if value_i else False

    pred = uses_stream if kind != "len" else uses_value
    calls = cc.stream_calls(path, pred)
    if kind == "len" and not calls:
        # inline unary length: value as usize + 1
        r = path.ret
        v = cc.is_unary_len(r)
        if v is not None and is_arg(v, value_i):
            return {"kind": "code", "fam": "unary", "param": None, "args_ok": True, "call": "value+1"}
        return {"kind": "unknown", "why": "no call takes the value and the result is not value+1: %s" % mir.fmt(r)}
    if len(calls) != 1:
        return {"kind": "unknown", "why": "%d calls receive the %s (expected exactly one): %s"
                % (len(calls), "value" if kind == "len" else "stream", [mir.short(c[1]) for c in calls])}
    ev = calls[0]
    cl = cc.classify_call(ev, kind)
    if cl is None:
        return {"kind": "unknown", "why": "call %s is not a known %s operation" % (ev[1], kind)}
    fam, param, value, stream = cl
    args_ok = True
    why = []
    if kind in ("read", "write"):
        if not is_arg(peel_ref(stream), stream_i):
            args_ok = False
            why.append("stream argument is %s" % mir.fmt(stream))
    if kind in ("write", "len"):
        if not is_arg(cc.strip_casts(value), value_i):
            args_ok = False
            why.append("value argument is %s, not the dispatcher's value" % mir.fmt(value))
    return {"kind": "code", "fam": fam, "param": param, "args_ok": args_ok, "why": why, "call": mir.short(ev[1]),
            "ret": ev[3]}


def ret_forwards(path, res):
    """does the path return the call result `res` unchanged (directly, via Ok(x?) or via `?` error)"""
    r = path.ret
    if r == res:
        return True
    if isinstance(r, tuple) and r[0] == "agg" and r[3] == "Ok" and r[4] and r[4][0] == ("okval", res):
        return True
    if r == ("from_residual", ("residual", res)):
        return True
    return False


def check_arm(chk, rule, dname, key, leaf, kind, field_term):
    for_len = kind == "len"
    kname = "%s:%s" % (dname, fmt_key(key))
    if leaf["kind"] != "code" and for_len and leaf.get("body") is not None:
        kc = key_class(key, for_len)
        if kc[1] != "P":
            import rules_ivl
            okv, why = rules_ivl.semantic_len(leaf["facts"], leaf["body"], leaf["is_closure"], kc[0], kc[1])
            if okv is not None:
                chk.expect(rule, kname, okv, "dispatcher %s, arm %s: the length expression is not the length of %s: %s" % (dname, fmt_key(key), kc, why),
                           detail={"dispatcher": dname, "arm": fmt_key(key), "expected_class": kc, "why": why},
                           sample={"arm": fmt_key(key), "class": kc, "call": "whole-domain comparison: " + why})
                return kc if okv else None
    if leaf["kind"] != "code":
        chk.bad(rule, kname, "dispatcher %s arm %s: %s" % (dname, fmt_key(key), leaf.get("why")), {k: v for k, v in leaf.items() if k not in ("body", "facts")})
        return None
    kc = key_class(key, for_len)
    lp = leaf["param"]
    if kc[1] == "P":
        # variable-parameter arm: same family, parameter = the pattern binding
        ok = leaf["fam"] == kc[0] and lp == field_term
        lc = (leaf["fam"], "P" if lp == field_term else mir.fmt(lp))
    else:
        if not isinstance(lp, int) and lp is not None:
            # constant arm calling with the binding: substitute the arm's constant
            if lp == field_term and key[2] and key[2][0] == "const":
                lp = key[2][1]
        lc = cc.canon(leaf["fam"], lp, for_len) if (lp is None or isinstance(lp, int)) else (leaf["fam"], mir.fmt(lp))
        ok = lc == kc
    ok = ok and leaf["args_ok"]
    chk.expect(rule, kname, ok,
               "dispatcher %s, arm %s: names class %s but performs %s via %s%s"
               % (dname, fmt_key(key), kc, lc, leaf.get("call"), ("; " + "; ".join(leaf.get("why", []))) if leaf.get("why") else ""),
               detail={"dispatcher": dname, "arm": fmt_key(key), "expected_class": kc, "actual_class": lc, "call": leaf.get("call")},
               sample={"arm": fmt_key(key), "class": kc, "call": leaf.get("call")})
    return lc


def fmt_key(key):
    if key[0] == "default":
        return "_"
    if key[0] == "id":
        return "id=%s(%s)" % (key[1], "/".join(key[2]))
    if key[2] is None:
        return key[1]
    if key[2][0] == "const":
        return "%s{%s}" % (key[1], key[2][1])
    return "%s{_}" % key[1]


# ---------------------------------------------------------------------------

def table_codes_direct(F, chk, body, kind, dname, rule):
    """Codes as DynamicCodeRead/Write/CodeLen"""
    subject = ("deref", ("arg", 1, "self"))
    paths = mir.walk(body)
    table = {}
    stream_i, value_i = (2, None) if kind == "read" else (2, 3) if kind == "write" else (None, 2)
    for p in paths:
        if p.end[0] == "cut":
            chk.bad(rule, dname + ":loop", "unexpected loop in dispatcher %s" % dname)
            continue
        key = codes_key(F, p, subject)
        if key[0] == "default":
            continue
        # Ok/Err paths of `?` share the arm; check both
        fam, field = cc.VARIANT[key[1]]
        field_term = ("field", ("variant", subject, key[1]), field) if field else None
        leaf = leaf_from_events(p, kind, stream_i, value_i, field_term)
        if p.end[0] != "return":
            chk.bad(rule, "%s:%s" % (dname, fmt_key(key)), "arm does not return (ends with %s)" % (p.end,))
            continue
        if leaf["kind"] == "code" and leaf.get("ret") is not None and not ret_forwards(p, leaf["ret"]):
            leaf = dict(leaf, args_ok=False, why=leaf.get("why", []) + ["result %s is not the operation's result" % mir.fmt(p.ret)])
        lc = check_arm(chk, rule, dname, key, leaf, kind, field_term)
        table.setdefault(key, set()).add(lc)
    return table


VALUE_TOKEN = 424242
RESULT_TOKEN = 7000001


def op_handlers(kind, log):
    """interpreter handlers for every code operation of `kind`: record (family, parameter, value argument, stream argument) and
    answer with a recognisable token, so that a dispatcher can be interpreted without interpreting the codes themselves"""
    import ivl
    from ivl import AI, Opaque, mk_variant

    def mk(path, ent):
        k, fam, fixed, has_param = ent

        def h(it, name, args, fargs, fr, t):
            a = list(args)
            stream = a.pop(0) if k in ("read", "write") else None
            value = a.pop(0) if k in ("write", "len") else None
            param = a.pop(0) if (has_param and a) else None
            tok = RESULT_TOKEN + len(log)
            log.append({"fam": fam, "fixed": fixed, "has_param": has_param, "param": param, "value": value, "stream": stream, "token": tok, "call": path})
            r = AI("u64" if k == "read" else "usize", tok, tok)
            return mk_variant("std::result::Result", "Ok", [r]) if k in ("read", "write") else r
        return h
    return {path: mk(path, ent) for path, ent in cc.FAMILY.items() if ent[0] == kind}


def semantic_dispatch(F, body, kind, make_self, env, y0, y1):
    """interpret one dispatcher method on the parameter cell [y0, y1] -> list of cells (y0, y1, status, leaf | None, why)"""
    import ivl
    from ivl import AI, Agg, Ref, Frame, Opaque
    out = []

    def run(it):
        log = []
        it.handlers = op_handlers(kind, log)
        it._log = log
        sh = Frame({"path": "stream"}, {})
        sh.locals[0] = Opaque("the stream")
        args = [make_self(it)]
        if kind in ("read", "write"):
            args.append(Ref(sh, 0, ()))
        if kind in ("write", "len"):
            args.append(AI("u64", VALUE_TOKEN, VALUE_TOKEN))
        return it.call_body(body, args, dict(env), 0), log
    for c in ivl.partition(F, run, y0, y1, max_cells=400):
        out.append(c)
    return out


def leaf_of_cell(c, kind):
    """(leaf dict in the format of leaf_from_events, is the parameter the cell variable?) of an interpreted cell"""
    from ivl import AI, Agg, Ref, Opaque
    r, log = c.ret
    if len(log) != 1:
        if kind == "len" and not log and isinstance(r, AI) and r.const() == VALUE_TOKEN + 1:
            return {"kind": "code", "fam": "unary", "param": None, "args_ok": True, "call": "value+1"}, False
        return {"kind": "unknown", "why": "%d code operations on this cell (expected exactly one): %s" % (len(log), [e["call"].split("::")[-1] for e in log])}, False
    e = log[0]
    why = []
    res = r.fields[0] if (isinstance(r, Agg) and r.variant == "Ok" and kind != "len") else r
    if not (isinstance(res, AI) and res.const() == e["token"]):
        why.append("the result is not the operation's result")
    if kind in ("write", "len") and not (isinstance(e["value"], AI) and e["value"].const() == VALUE_TOKEN):
        why.append("the operation does not receive the dispatcher's value")
    if kind in ("read", "write"):
        st = e["stream"]
        for _ in range(3):
            if isinstance(st, Ref):
                st = st.frame.locals.get(st.local) if not st.proj else None
        if not (isinstance(st, Opaque) and st.what == "the stream"):
            why.append("the operation is not applied to the dispatcher's stream")
    is_var = False
    param = e["fixed"]
    if e["has_param"]:
        p = e["param"]
        if not isinstance(p, AI):
            return {"kind": "unknown", "why": "parameter of %s is not an integer" % e["call"]}, False
        if p.const() is not None:
            param = p.const()
        elif p.aff == (1, 0) and p.dir is not None:
            param, is_var = "P", True
        else:
            return {"kind": "unknown", "why": "parameter of %s is %r, neither a constant nor the code's own parameter" % (e["call"], p)}, False
    return {"kind": "code", "fam": e["fam"], "param": param, "args_ok": not why, "why": why, "call": mir.short(e["call"])}, is_var


def table_codes_semantic(F, chk, body, kind, dname, rule):
    """Codes as DynamicCodeRead/Write/CodeLen, by interpretation of the method on every variant and parameter cell"""
    import ivl
    from ivl import AI, Agg, Ref, Frame
    import rules_c16
    vs = rules_c16.variants(F)
    table = {}
    pending = []
    try:
        for idx, v in sorted(vs.items()):
            fam, field = cc.VARIANT[v["name"]]

            def make_self(it, v=v, idx=idx):
                h = Frame({"path": "code"}, {})
                h.locals[0] = Agg("adt", rules_c16.CODES_ADT, v["name"], idx, [it.input(f["ty"] if f["ty"] in ivl.TY else "usize") for f in v["fields"]])
                return Ref(h, 0, ())
            env = {g: g for g in (body.get("generics") or [])}
            ranges = [(0, 0)] if not field else [(p, p) for p in range(0, 13)] + [(13, (1 << 64) - 1)]
            for (y0, y1) in ranges:
                for c in semantic_dispatch(F, body, kind, make_self, env, y0, y1):
                    if c.status != "ok":
                        # a panicking arm (e.g. zeta with k = 0 inside the code itself cannot happen here: codes are stubbed)
                        pending.append((v["name"], c.y0, c.y1, None, "panics: %s" % c.why))
                        continue
                    leaf, is_var = leaf_of_cell(c, kind)
                    pending.append((v["name"], c.y0, c.y1, leaf, is_var))
    except (ivl.Unsupported, ivl.Undecided, KeyError, AttributeError, IndexError, TypeError):
        return None
    for var, y0, y1, leaf, is_var in pending:
        fam, field = cc.VARIANT[var]
        if leaf is None:
            chk.bad(rule, "%s:%s[%d..%d]" % (dname, var, y0, y1), "dispatcher %s, %s with parameter in %d..=%d: %s" % (dname, var, y0, y1, is_var))
            continue
        if not field:
            key = ("arm", var, None)
        elif y0 == y1 and not is_var:
            key = ("arm", var, ("const", y0))
        else:
            key = ("arm", var, ("any", ()))
        if field and y0 != y1 and leaf["kind"] == "code" and leaf["param"] != "P" and leaf["fam"] in cc.PARAMETRIC:
            chk.bad(rule, "%s:%s[%d..%d]" % (dname, var, y0, y1), "dispatcher %s maps every %s with parameter in %d..=%d to the fixed code %s(%s)" % (dname, var, y0, y1, leaf["fam"], leaf["param"]))
            continue
        kc = key_class(key, kind == "len")
        if leaf["kind"] != "code":
            chk.bad(rule, "%s:%s" % (dname, fmt_key(key)), "dispatcher %s arm %s: %s" % (dname, fmt_key(key), leaf.get("why")))
            continue
        lp = leaf["param"]
        if lp == "P":
            lc = (leaf["fam"], "P")
            if key[2] and key[2][0] == "const":
                lc = cc.canon(leaf["fam"], key[2][1], kind == "len")
        else:
            lc = cc.canon(leaf["fam"], lp, kind == "len")
        ok = (lc == kc) and leaf["args_ok"]
        chk.expect(rule, "%s:%s" % (dname, fmt_key(key)), ok,
                   "dispatcher %s, arm %s: names class %s but performs %s via %s%s" % (dname, fmt_key(key), kc, lc, leaf.get("call"), ("; " + "; ".join(leaf.get("why", []))) if leaf.get("why") else ""),
                   detail={"dispatcher": dname, "arm": fmt_key(key), "expected_class": kc, "actual_class": lc, "call": leaf.get("call")},
                   sample={"arm": fmt_key(key), "class": kc, "call": leaf.get("call")})
        table.setdefault(key, set()).add(lc)
    return table


def table_constcode_semantic(F, chk, body, kind, dname, rule, ids):
    """ConstCode<CODE> as Static*: the method interpreted for every identifier value (and the values around them)"""
    import ivl
    from ivl import AI, Agg, Ref, Frame, UNIT
    table = {}
    rejects = 0
    results = []
    try:
        top = max(ids) + 8
        for code in range(0, top + 1):
            def make_self(it):
                h = Frame({"path": "code"}, {})
                h.locals[0] = UNIT
                return Ref(h, 0, ())
            env = {g: g for g in (body.get("generics") or [])}
            env["CODE"] = code
            cells = semantic_dispatch(F, body, kind, make_self, env, 0, 0)
            results.append((code, cells[0]))
    except (ivl.Unsupported, ivl.Undecided, KeyError, AttributeError, IndexError, TypeError):
        return None
    for code, c in results:
        names = ids.get(code)
        if c.status != "ok":
            if names:
                chk.bad(rule, "%s:id=%s" % (dname, code), "dispatcher %s rejects the identifier %s (%s), which code_consts defines" % (dname, code, "/".join(sorted(names))))
            else:
                rejects += 1
            continue
        if not names:
            chk.bad(rule, "%s:id=%s" % (dname, code), "arm for identifier %s which no code_consts constant names" % code)
            continue
        key = ("id", code, tuple(sorted(names)))
        classes = {cc.canon(*cc.const_name_class(n), for_len=(kind == "len")) for n in names}
        leaf, is_var = leaf_of_cell(c, kind)
        kname = "%s:%s" % (dname, fmt_key(key))
        if leaf["kind"] != "code":
            chk.bad(rule, kname, "dispatcher %s arm %s: %s" % (dname, fmt_key(key), leaf.get("why")))
            continue
        lp = leaf["param"]
        lc = cc.canon(leaf["fam"], lp, kind == "len") if (lp is None or isinstance(lp, int)) else (leaf["fam"], str(lp))
        ok = classes == {lc} and leaf["args_ok"]
        chk.expect(rule, kname, ok,
                   "dispatcher %s, identifier %s (%s): names class %s but performs %s via %s %s" % (dname, code, "/".join(sorted(names)), sorted(classes, key=str), lc, leaf.get("call"), leaf.get("why") or ""),
                   detail={"dispatcher": dname, "id": code, "names": sorted(names), "expected": sorted(classes, key=str), "actual": lc},
                   sample={"id": code, "names": sorted(names), "class": lc, "call": leaf.get("call")})
        table[key] = {lc}
    chk.expect(rule, dname + ":_", rejects >= 1, "dispatcher %s performs an operation for identifiers that no constant names (no rejecting default)" % dname, sample={"arm": "_", "rejected": rejects})
    chk.expect(rule, dname + ":has-default", rejects >= 1, "dispatcher %s has no rejecting default arm" % dname)
    return table


def table_constcode(F, chk, body, kind, dname, rule, ids):
    paths = mir.walk(body)
    table = {}
    stream_i, value_i = (2, None) if kind == "read" else (2, 3) if kind == "write" else (None, 2)
    rejects = 0
    for p in paths:
        cons = [c for c in p.constraints if c[0] == ("cparam", "CODE")]
        if not cons:
            chk.bad(rule, dname + ":shape", "path without a constraint on CODE in %s" % dname)
            continue
        t, op, v = cons[0]
        if op != "==":
            # default arm: must reject (panic), never perform an operation on the stream
            leaf = leaf_from_events(p, kind, stream_i, value_i)
            okr = p.end[0] == "diverge" and not cc.stream_calls(p, lambda t: is_arg(t, 2))
            chk.expect(rule, dname + ":_", okr, "default arm of %s does not reject" % dname, sample={"arm": "_", "end": p.end[0]})
            rejects += 1
            continue
        names = ids.get(v)
        if not names:
            chk.bad(rule, "%s:id=%s" % (dname, v), "arm for identifier %s which no code_consts constant names" % v)
            continue
        key = ("id", v, tuple(sorted(names)))
        classes = {cc.canon(*cc.const_name_class(n), for_len=(kind == "len")) for n in names}
        leaf = leaf_from_events(p, kind, stream_i, value_i)
        kname = "%s:%s" % (dname, fmt_key(key))
        if leaf["kind"] != "code":
            chk.bad(rule, kname, "dispatcher %s arm %s: %s" % (dname, fmt_key(key), leaf.get("why")))
            continue
        if leaf.get("ret") is not None and not ret_forwards(p, leaf["ret"]):
            leaf = dict(leaf, args_ok=False, why=["result is not the operation's result"])
        lp = leaf["param"]
        lc = cc.canon(leaf["fam"], lp, kind == "len") if (lp is None or isinstance(lp, int)) else (leaf["fam"], mir.fmt(lp))
        ok = classes == {lc} and leaf["args_ok"]
        chk.expect(rule, kname, ok,
                   "dispatcher %s, identifier %s (%s): names class %s but performs %s via %s %s"
                   % (dname, v, "/".join(sorted(names)), sorted(classes, key=str), lc, leaf.get("call"), leaf.get("why") or ""),
                   detail={"dispatcher": dname, "id": v, "names": sorted(names), "expected": sorted(classes, key=str), "actual": lc},
                   sample={"id": v, "names": sorted(names), "class": lc, "call": leaf.get("call")})
        table[key] = {lc}
    chk.expect(rule, dname + ":has-default", rejects >= 1, "dispatcher %s has no rejecting default arm" % dname)
    return table


def resolve_fn_value(F, t, kind):
    """follow an associated-constant function value to the leaf of its closure"""
    t0 = t
    while isinstance(t, tuple) and t[0] in ("coerce", "cast"):
        t = t[1]
    if not (isinstance(t, tuple) and t[0] == "uneval"):
        return None, {"kind": "unknown", "why": "function value is not an associated constant: %s" % mir.fmt(t0)}
    cpath = t[1]
    try:
        cb = F.body(cpath)
    except FactsError as e:
        return cpath, {"kind": "unknown", "why": str(e)}
    ps = mir.walk(cb)
    if len(ps) != 1 or ps[0].end[0] != "return":
        return cpath, {"kind": "unknown", "why": "initialiser of %s is not a single expression" % cpath}
    r = ps[0].ret
    while isinstance(r, tuple) and r[0] in ("coerce", "cast"):
        r = r[1]
    if isinstance(r, tuple) and r[0] == "agg" and r[1] == "closure":
        clo = F.body(r[2])
        stream_i, value_i = (2, None) if kind == "read" else (2, 3) if kind == "write" else (None, 2)
    elif isinstance(r, tuple) and r[0] == "fnitem":
        # a named function instead of a closure: same analysis, parameters start at 1 (no closure environment)
        try:
            clo = F.body(r[1])
        except FactsError as e:
            return cpath, {"kind": "unknown", "why": "initialiser is the function item %s whose body is not available (%s)" % (r[1], e)}
        stream_i, value_i = (1, None) if kind == "read" else (1, 2) if kind == "write" else (None, 1)
    else:
        return cpath, {"kind": "unknown", "why": "initialiser of %s is %s" % (cpath, mir.fmt(r))}
    return cpath, leaf_of_callable(F, clo, r[0] == "agg", kind, cpath)


def leaf_of_callable(F, clo, is_closure, kind, cpath):
    """what the function value (closure body / named function) does with its stream and value arguments"""
    if is_closure:
        stream_i, value_i = (2, None) if kind == "read" else (2, 3) if kind == "write" else (None, 2)
    else:
        stream_i, value_i = (1, None) if kind == "read" else (1, 2) if kind == "write" else (None, 1)
    cps = [p for p in mir.walk(clo) if p.end[0] == "return"]
    if len(cps) != 1:
        return {"kind": "unknown", "why": "closure of %s has %d returning paths" % (cpath, len(cps))}
    p = cps[0]
    leaf = leaf_from_events(p, kind, stream_i, value_i)
    if leaf["kind"] == "unknown" and kind == "len":
        # not a call of a known length function: leave it to the whole-domain comparison in check_arm
        leaf = dict(leaf, body=clo, is_closure=is_closure, facts=F)
    if leaf["kind"] == "code" and leaf.get("ret") is not None and not ret_forwards(p, leaf["ret"]):
        leaf = dict(leaf, args_ok=False, why=["closure result is not the operation's result"])
    return leaf


def semantic_func_table(F, body):
    """the selection function of a function-pointer dispatcher, interpreted on every variant and every parameter value (whatever
    the shape of the selection: match arms, range patterns, lookup tables): [(variant, lo, hi, callable | None)] with callable =
    ("closure" | "fn", path), None for a rejected code; or None when the interpreter cannot follow the code"""
    import ivl
    from ivl import AI, Agg, Opaque
    import rules_c16
    vs = rules_c16.variants(F)
    out = []
    try:
        for idx, v in sorted(vs.items()):
            def run(it, v=v, idx=idx):
                val = Agg("adt", rules_c16.CODES_ADT, v["name"], idx, [it.input(f["ty"] if f["ty"] in ivl.TY else "usize") for f in v["fields"]])
                return it.call_body(body, [val], {}, 0)
            for c in ivl.partition(F, run, 0, (1 << 64) - 1 if v["fields"] else 0, max_cells=600):
                r = c.ret
                if c.status != "ok" or not isinstance(r, Agg):
                    return None
                if r.variant == "Err":
                    out.append((v["name"], c.y0, c.y1, None))
                    continue
                if r.variant != "Ok" or not isinstance(r.fields[0], Agg) or len(r.fields[0].fields) != 1:
                    return None
                fv = r.fields[0].fields[0]
                if isinstance(fv, Agg) and fv.kind == "closure" and not fv.fields:
                    out.append((v["name"], c.y0, c.y1, ("closure", fv.name)))
                elif isinstance(fv, Opaque) and isinstance(fv.what, tuple) and fv.what[0] in ("closure", "fn"):
                    out.append((v["name"], c.y0, c.y1, (fv.what[0], fv.what[1])))
                else:
                    return None
    except (ivl.Unsupported, ivl.Undecided, ivl.Panic, KeyError, AttributeError, IndexError):
        return None
    return out


def table_func_new_semantic(F, chk, body, kind, dname, rule):
    sem = semantic_func_table(F, body)
    if sem is None:
        return None
    table = {}
    rejects = 0
    leaves = {}
    const_leaves = {}
    for var, lo, hi, fn in sem:
        fam, field = cc.VARIANT[var]
        if fn is None:
            rejects += 1
            continue
        if field and hi - lo > 64:
            chk.bad(rule, "%s:%s[%d..]" % (dname, var, lo), "dispatcher %s maps the whole parameter range %d..=%d of %s to one function (%s)" % (dname, lo, hi, var, fn[1]))
            continue
        if fn not in leaves:
            bl = F.by_path.get(fn[1], [])
            leaves[fn] = leaf_of_callable(F, bl[0], fn[0] == "closure", kind, fn[1]) if len(bl) == 1 and bl[0].get("blocks") else \
                {"kind": "unknown", "why": "body of %s not available" % fn[1]}
        leaf = leaves[fn]
        # the associated constant the function value was defined in (a closure or a function nested in its initialiser)
        cpath = fn[1].rsplit("::{closure", 1)[0] if fn[0] == "closure" else fn[1]
        parts = cpath.split("::")
        for n in range(len(parts), 1, -1):
            cand = "::".join(parts[:n])
            if any(b["kind"] == "AssocConst" for b in F.by_path.get(cand, [])):
                cpath = cand
                break
        cname = cpath.split("::")[-1]
        for pv in range(lo, hi + 1):
            key = ("arm", var, ("const", pv) if field else None)
            lc = check_arm(chk, rule, dname, key, dict(leaf, call="%s -> %s" % (cname, leaf.get("call"))), kind, None)
            table[key] = {lc}
        is_const = any(b["kind"] == "AssocConst" for b in F.by_path.get(cpath, []))
        if leaf["kind"] == "code" and is_const and cpath not in const_leaves:
            ncl = cc.const_name_class(cname)
            lp = leaf["param"]
            lcl = cc.canon(leaf["fam"], lp, kind == "len") if (lp is None or isinstance(lp, int)) else None
            const_leaves[cpath] = lcl
            chk.expect(rule + ".consts", "%s::%s" % (dname, cname),
                       ncl is not None and cc.canon(*ncl, for_len=(kind == "len")) == lcl and leaf["args_ok"],
                       "associated constant %s of %s performs %s via %s" % (cname, dname, lcl, leaf.get("call")),
                       detail={"const": cpath, "performs": lcl, "call": leaf.get("call")})
    chk.expect(rule, dname + ":has-default", rejects >= 1, "dispatcher %s has no rejecting fallback" % dname)
    return table


def table_func_new(F, chk, body, kind, dname, rule):
    subject = ("arg", 1, mir.argname(1, body["locals"][1]["name"]))
    paths = mir.walk_inline(body, F)        # a private helper holding the selection match is walked in context
    table = {}
    rejects = 0
    const_leaves = {}
    for p in paths:
        key = codes_key(F, p, subject)
        if p.end[0] != "return":
            continue
        # does the result carry a function value?
        fnvals = []

        def collect(t):
            if isinstance(t, tuple) and t:
                if t[0] == "uneval":
                    fnvals.append(t)
                for x in t:
                    collect(x)
        collect(p.ret)
        if key[0] == "default" or (key[2] is not None and key[2][0] == "any") or not fnvals:
            is_ok = isinstance(p.ret, tuple) and p.ret[0] == "agg" and p.ret[3] == "Ok"
            if key[0] == "arm" and key[2] is None and not fnvals:
                chk.bad(rule, "%s:%s" % (dname, fmt_key(key)), "arm %s of %s yields no function value" % (fmt_key(key), dname))
                continue
            chk.expect(rule, "%s:_" % dname, not fnvals and not is_ok,
                       "fallback arm of %s (%s) yields a dispatcher instead of an error" % (dname, fmt_key(key)),
                       sample={"arm": fmt_key(key), "ret": mir.fmt(p.ret)[:80]})
            rejects += 1
            continue
        isok = isinstance(p.ret, tuple) and p.ret[0] == "agg" and p.ret[3] == "Ok"
        if len(fnvals) != 1 or not isok:
            chk.bad(rule, "%s:%s" % (dname, fmt_key(key)), "arm %s of %s: unexpected result %s" % (fmt_key(key), dname, mir.fmt(p.ret)))
            continue
        cpath, leaf = resolve_fn_value(F, fnvals[0], kind)
        cname = cpath.split("::")[-1] if cpath else "?"
        fam, field = cc.VARIANT[key[1]]
        lc = check_arm(chk, rule, dname, key, dict(leaf, call="%s -> %s" % (cname, leaf.get("call"))), kind, None)
        table[key] = {lc}
        # the associated constant's own name must name the class it performs (it is a public-facing table)
        if leaf["kind"] == "code" and cpath not in const_leaves:
            ncl = cc.const_name_class(cname)
            lp = leaf["param"]
            lcl = cc.canon(leaf["fam"], lp, kind == "len") if (lp is None or isinstance(lp, int)) else None
            const_leaves[cpath] = lcl
            chk.expect(rule + ".consts", "%s::%s" % (dname, cname),
                       ncl is not None and cc.canon(*ncl, for_len=(kind == "len")) == lcl and leaf["args_ok"],
                       "associated constant %s of %s performs %s via %s" % (cname, dname, lcl, leaf.get("call")),
                       detail={"const": cpath, "performs": lcl, "call": leaf.get("call")})
    chk.expect(rule, dname + ":has-default", rejects >= 1, "dispatcher %s has no rejecting fallback" % dname)
    return table


# ---------------------------------------------------------------------------
# D3 forwarding wrappers

def check_forward(F, chk, rule, body, wname, callee_pred, callee_desc, n_fwd_args, self_ok=None, ret_plain=True):
    """Exactly one call receives the wrapper's stream parameter; it is `callee`, receives the wrapper's
    own arguments 2.. in order, and its result is the wrapper's result."""
    paths = [p for p in mir.walk(body) if p.end[0] in ("return", "diverge")]
    okall = True
    for p in paths:
        calls = cc.stream_calls(p, lambda t: is_arg(t, 2))
        if len(calls) != 1:
            chk.bad(rule, wname, "wrapper %s: %d calls receive the stream argument (expected 1)" % (wname, len(calls)))
            return False
        ev = calls[0]
        fname = ev[1]
        if not callee_pred(ev):
            chk.bad(rule, wname, "wrapper %s forwards to %s, expected %s" % (wname, fname, callee_desc),
                    detail={"callee": fname, "fterm": mir.fmt(ev[6]) if ev[6] else None})
            return False
        args = list(ev[2])
        if fname == "<indirect>":
            fwd = args
        else:
            if self_ok is not None and not self_ok(args[0]):
                chk.bad(rule, wname, "wrapper %s: receiver of the forwarded call is %s" % (wname, mir.fmt(args[0])))
                return False
            fwd = args[1:]
        # indirect calls take a tuple of args in MIR? (Fn::call) — handled by the caller's predicate
        want = list(range(2, 2 + n_fwd_args))
        got = [peel_ref(cc.strip_casts(a)) for a in fwd]
        if len(got) != len(want) or any(not is_arg(g, w) for g, w in zip(got, want)):
            chk.bad(rule, wname, "wrapper %s passes (%s) instead of its own arguments in order"
                    % (wname, ", ".join(mir.fmt(a) for a in fwd)))
            return False
        if p.end[0] == "return" and ret_plain and not ret_forwards(p, ev[3]):
            chk.bad(rule, wname, "wrapper %s returns %s, not the forwarded result" % (wname, mir.fmt(p.ret)))
            return False
    if not paths:
        chk.bad(rule, wname, "wrapper %s has no returning path" % wname)
        return False
    chk.ok(rule, wname, sample={"wrapper": wname, "forwards_to": callee_desc})
    return okall


def run(chk, F, tier):
    # ---- identifier table from code_consts
    ids = {}
    n_consts = 0
    for path, c in F.consts.items():
        if path.startswith("dispatch::r#static::code_consts::") or path.startswith("dispatch::static::code_consts::"):
            if "value" in c:
                ids.setdefault(int(c["value"]), set()).add(path.split("::")[-1])
                n_consts += 1
    chk.rule("D1.code_consts", floor=59, doc="code_consts constants parsed into (family, parameter)")
    for v, names in sorted(ids.items()):
        for n in sorted(names):
            chk.expect("D1.code_consts", n, cc.const_name_class(n) is not None, "constant name %s does not name a code" % n)

    SELF_CODES = r"dispatch::codes::Codes"
    SELF_CONST = r"dispatch::(r#)?static::ConstCode<CODE>"
    tables = {}
    # ---- Codes direct
    for kind, tr, nm in (("read", "dispatch::DynamicCodeRead", "read"), ("write", "dispatch::DynamicCodeWrite", "write"),
                         ("len", "dispatch::CodeLen", "len")):
        b = F.one(name=nm, trait_is=tr, self_is=SELF_CODES)
        rule = "D1.Codes." + kind
        chk.rule(rule, floor=12, doc="arms of `Codes as %s`" % tr.split("::")[-1])
        tab = table_codes_semantic(F, chk, b, kind, "Codes." + kind, rule)
        tables[("Codes", kind)] = tab if tab is not None else table_codes_direct(F, chk, b, kind, "Codes." + kind, rule)
        b = F.one(name=nm, trait_is=tr, self_is=SELF_CONST)
        rule = "D1.ConstCode." + kind
        chk.rule(rule, floor=51, doc="arms of `ConstCode<CODE> as %s`" % tr.split("::")[-1])
        tab = table_constcode_semantic(F, chk, b, kind, "ConstCode." + kind, rule, ids)
        tables[("ConstCode", kind)] = tab if tab is not None else table_constcode(F, chk, b, kind, "ConstCode." + kind, rule, ids)
    # ---- function-pointer dispatchers
    for kind, ty in (("read", "dispatch::dynamic::FuncCodeReader::<E, CR>"), ("write", "dispatch::dynamic::FuncCodeWriter::<E, CW>"),
                     ("len", "dispatch::dynamic::FuncCodeLen"), ("read", "dispatch::factory::FactoryFuncCodeReader::<E, CRF>")):
        b = F.body(ty + "::new")
        dn = ty.split("::")[2].split("<")[0].rstrip(":")
        rule = "D1.%s.new" % dn
        chk.rule(rule, floor=59, doc="arms of %s::new -> associated fn constant -> closure" % dn)
        chk.rule(rule + ".consts", floor=51, doc="associated fn constants of %s perform the code their name says" % dn)
        # decided semantically (interpretation of the selection on every variant and parameter); when the interpreter cannot
        # follow the code, by the structural extraction of the match arms
        tab = table_func_new_semantic(F, chk, b, kind, dn, rule)
        tables[(dn, kind)] = tab if tab is not None else table_func_new(F, chk, b, kind, dn, rule)

    # ---- D2 sibling agreement
    chk.rule("D2.keysets", floor=6, doc="dispatchers of one kind support the same key set")
    codes_keys = {k: set(t.keys()) for k, t in tables.items() if k[0] == "Codes"}
    ref = codes_keys[("Codes", "write")]
    # Codes.read/len lack the explicit Zeta{1} arm of write (covered by Zeta{_}); compare modulo const-arms subsumed by a generic arm
    def generalise(keys):
        gen = {k[1] for k in keys if k[2] is not None and k[2][0] == "any"}
        return {k if not (k[2] and k[2][0] == "const" and k[1] in gen) else (k[0], k[1], ("any", ())) for k in
                [(k[0], k[1], ("any", ()) if (k[2] and k[2][0] == "any") else k[2]) for k in keys]}
    for k, ks in codes_keys.items():
        chk.expect("D2.keysets", "Codes.%s" % k[1], generalise(ks) == generalise(ref),
                   "Codes.%s supports %s, Codes.write supports %s" % (k[1], sorted(map(fmt_key, generalise(ks))), sorted(map(fmt_key, generalise(ref)))))
    cc_keys = {k: set(x[1] for x in t.keys()) for k, t in tables.items() if k[0] == "ConstCode"}
    for k, ks in cc_keys.items():
        chk.expect("D2.keysets", "ConstCode.%s" % k[1], ks == set(ids.keys()),
                   "ConstCode.%s supports identifiers %s but code_consts defines %s" % (k[1], sorted(ks), sorted(ids.keys())),
                   detail={"missing": sorted(set(ids) - ks), "extra": sorted(ks - set(ids))})
    fn_keys = {k: set(t.keys()) for k, t in tables.items() if k[0] not in ("Codes", "ConstCode")}
    reff = fn_keys[("FuncCodeWriter", "write")]
    for k, ks in fn_keys.items():
        chk.expect("D2.keysets", "%s.new" % k[0], ks == reff,
                   "%s::new supports a different set of codes than FuncCodeWriter::new" % k[0],
                   detail={"missing": sorted(fmt_key(x) for x in reff - ks), "extra": sorted(fmt_key(x) for x in ks - reff)})
    # every code with an identifier is constructible through the function-pointer dispatchers and vice versa
    chk.rule("D2.classes", floor=51, doc="read/write/len leaves of one key have the same class across dispatchers")
    by_class = {}
    for (dn, kind), t in tables.items():
        for key, cls in t.items():
            for c in cls:
                if c is None:
                    continue
                cl = cc.canon(c[0], c[1], True) if (c[1] is None or isinstance(c[1], int)) else c
                by_class.setdefault((dn if dn in ("Codes", "ConstCode") else "Func", fmt_key(key)), {}).setdefault(str(cl), []).append("%s.%s" % (dn, kind))
    for (grp, key), m in sorted(by_class.items()):
        chk.expect("D2.classes", "%s:%s" % (grp, key), len(m) == 1,
                   "dispatchers disagree on key %s: %s" % (key, m), detail=m)

    # ---- D3 wrappers
    chk.rule("D3.wrappers", floor=14, doc="forwarding wrappers pass their arguments and result through")
    def callee_is(path):
        return lambda ev: ev[1] == path
    def self_is_arg1(t):
        return is_arg(peel_ref(t), 1) or is_arg(t, 1)
    def self_wrapped(t):
        t = peel_ref(t)
        return (isinstance(t, tuple) and t[0] == "ref" and t[1][0] == "field" and t[1][2] == "wrapped") or \
               (isinstance(t, tuple) and t[0] == "field" and t[2] == "wrapped")
    W = [
        ("dispatch::codes::Codes::read", "dispatch::DynamicCodeRead::read", 1, self_is_arg1),
        ("dispatch::codes::Codes::write", "dispatch::DynamicCodeWrite::write", 2, self_is_arg1),
    ]
    for p in F.by_path:
        if p.endswith("ConstCode::<CODE>::read"):
            W.append((p, "dispatch::DynamicCodeRead::read", 1, self_is_arg1))
        if p.endswith("ConstCode::<CODE>::write"):
            W.append((p, "dispatch::DynamicCodeWrite::write", 2, self_is_arg1))
    for path, callee, n, selfok in W:
        check_forward(F, chk, "D3.wrappers", F.body(path), path, callee_is(callee), callee, n, self_ok=selfok)
    for tr, nm, callee, n in (("dispatch::StaticCodeRead<E, CR>", "read", "dispatch::DynamicCodeRead::read", 1),
                              ("dispatch::StaticCodeWrite<E, CW>", "write", "dispatch::DynamicCodeWrite::write", 2)):
        for sf in (SELF_CODES, SELF_CONST):
            b = F.one(name=nm, trait_is=tr, self_is=sf)
            check_forward(F, chk, "D3.wrappers", b, b["path"], callee_is(callee), callee, n, self_ok=self_is_arg1)
    # function pointer wrappers: indirect call through self.0
    def indirect_self0(ev):
        f = ev[6]
        return ev[1] == "<indirect>" and f is not None and f[0] == "field" and f[2] == "0" and f[1] == ("deref", ("arg", 1, "self"))
    for tr, nm, sf, n in (("dispatch::StaticCodeRead<E, CR>", "read", r"dispatch::dynamic::FuncCodeReader<E, CR>", 1),
                          ("dispatch::StaticCodeWrite<E, CW>", "write", r"dispatch::dynamic::FuncCodeWriter<E, CW>", 2)):
        b = F.one(name=nm, trait_is=tr, self_is=sf)
        check_forward(F, chk, "D3.wrappers", b, b["path"], indirect_self0, "(self.0)(..)", n)
    # FuncCodeLen::len: value is the only argument (no stream); reuse with arg 2 as "stream"
    b = F.one(name="len", trait_is="dispatch::CodeLen", self_is="dispatch::dynamic::FuncCodeLen")
    check_forward(F, chk, "D3.wrappers", b, b["path"], indirect_self0, "(self.0)(value)", 1)
    # statistics wrapper: pass-through of read/write (the update itself is C15)
    for tr, nm, callee, n in (("dispatch::DynamicCodeRead", "read", "dispatch::DynamicCodeRead::read", 1),
                              ("dispatch::StaticCodeRead<E, CR>", "read", "dispatch::StaticCodeRead::read", 1),
                              ("dispatch::DynamicCodeWrite", "write", "dispatch::DynamicCodeWrite::write", 2),
                              ("dispatch::StaticCodeWrite<E, CW>", "write", "dispatch::StaticCodeWrite::write", 2)):
        b = F.one(name=nm, trait_is=tr, impl_self="utils::stats::CodesStatsWrapper<")
        check_forward(F, chk, "D3.wrappers", b, b["path"], callee_is(callee), callee, n, self_ok=self_wrapped)
    # constructors from raw function pointers and the factory's get()
    chk.rule("D3.ctor", floor=5, doc="new_with_func / get_func / get store and return the function value unchanged")
    for p, bl in sorted(F.by_path.items()):
        if p.endswith("::new_with_func") and "dispatch::" in p:
            ps = [x for x in mir.walk(bl[0]) if x.end[0] == "return"]
            r = ps[0].ret if len(ps) == 1 else None
            chk.expect("D3.ctor", p, r is not None and r[0] == "agg" and len(r[4]) == 1 and is_arg(r[4][0], 1),
                       "%s does not wrap its argument unchanged" % p)
        if (p.endswith("::get_func") or p.endswith("FactoryFuncCodeReader::<E, CRF>::inner")) and "dispatch::" in p:
            ps = [x for x in mir.walk(bl[0]) if x.end[0] == "return"]
            r = ps[0].ret if len(ps) == 1 else None
            chk.expect("D3.ctor", p, r == ("field", ("deref", ("arg", 1, "self")), "0"), "%s does not return the stored function" % p)
        if p.endswith("FactoryFuncCodeReader::<E, CRF>::get"):
            ps = [x for x in mir.walk(bl[0]) if x.end[0] == "return"]
            calls = ps[0].calls() if len(ps) == 1 else []
            okg = len(calls) == 1 and calls[0][1].endswith("FuncCodeReader::<E, CR>::new_with_func") and \
                calls[0][2][0] == ("field", ("deref", ("arg", 1, "self")), "0") and ps[0].ret == calls[0][3]
            chk.expect("D3.ctor", p, okg, "FactoryFuncCodeReader::get does not hand its stored function to FuncCodeReader")


def run_all(chk, fsets, tier):
    import facts
    for fs in fsets:
        F = facts.load(fs)
        if fs == fsets[0]:
            run(chk, F, tier)
        else:
            # other feature sets: the dispatch code must be identical; re-run the arm tables only
            sub = type(chk)(chk.pid, chk.tier, chk.level, chk.explanation)
            run(sub, F, tier)
            for v in sub.violations:
                v = dict(v, key=v["key"] + "@" + fs, what="[%s] %s" % (fs, v["what"]))
                chk.violations.append(v)
            for name, r in sub.rules.items():
                rr = chk.rule(name + "@" + fs, floor=r["floor"], doc=r["doc"])
                rr["instances"] += r["instances"]
                rr["ok"] += r["ok"]
            chk.keys.update((a + "@" + fs, b) for a, b in sub.keys)

#!/bin/sh
# confirm_feat.sh <seed id, e.g. C01c> <letter of the demo in the seed dir (a|b)> <cargo feature list>: re-confirm a seed whose demo needs a feature
sd=$1; feat=$2
WT=/tmp/cs-$sd; git -C /repo worktree remove --force $WT 2>/dev/null; git -C /repo worktree add -q --detach $WT HEAD || exit 2
cd $WT; cp /verif/seeded/$sd/demo.rs tests/seed_demo_x.rs
export CARGO_NET_OFFLINE=true CARGO_TARGET_DIR=/tmp/cs-target
a=$(cargo test --offline --features $feat --test seed_demo_x 2>&1 | grep -E "^test result" | head -1)
git apply --whitespace=nowarn /verif/seeded/$sd/patch.diff
b=$(cargo test --offline --features $feat --test seed_demo_x 2>&1 | grep -E "^test result|^error" | head -1)
rm tests/seed_demo_x.rs
c=$(cargo test --workspace --no-fail-fast --offline 2>&1 | grep -E "^test result" | awk '{p+=$4; f+=$6} END {print p" passed "f" failed"}')
echo "$sd: clean=[$a] mutant=[$b] suite=[$c]"
cd /verif; git -C /repo worktree remove --force $WT; rm -rf /tmp/cs-target
python3 - "$sd" "$feat" "$a" "$b" "$c" <<'PY'
import json,sys
sd,feat,a,b,c=sys.argv[1:6]
p='/verif/seeded/%s/meta.json'%sd; m=json.load(open(p))
m['confirmed']={"demo_on_clean_tree":a,"demo_with_patch":b,"existing_suite_with_patch":c,
 "how":"scratch worktree of /repo HEAD; cargo test --offline --features %s --test seed_demo_x before/after git apply (the mutated code is feature-gated); default-feature suite with the patch"%feat}
json.dump(m,open(p,'w'),indent=1)
PY

"""E4 — affine effect accounting with ghost state (DESIGN.md 3.4, appendix B).

Ghost variables are pseudo memory cells updated by contracts at call sites:
  ('ghost','ww')        number of words handed to WordWrite::write_word
  ('ghost','wp')        backend word position of a reader (read_word: +1, set_word_pos(x): := x, word_pos() returns it)
  ('ghost','adv', X)    bits advanced on another stream object X through BitRead/BitWrite calls (bulk copies)
Because they live in the walker's memory, loop summaries treat them like any other variable (k iterations => +k).
At every successful return the declared effect of the method is checked as an entailed equality.
"""
import lp
import mir
import contracts
import numabs
import rules_num as rn
from numabs import le, const, Aff

G_WW = ("ghost", "ww")
G_WP = ("ghost", "wp")
SELF = rn.SELF


def g_adv(recv):
    return ("ghost", "adv", recv)


def strip_ref(t):
    while isinstance(t, tuple) and t and t[0] in ("ref", "deref"):
        t = t[1]
    return t


def bump(st, key, delta_term):
    old = st["mem"].get(key, key)
    st["mem"][key] = ("binop", "Add", old, delta_term)


def ghost_contracts():
    """contract table extended with ghost updates (copy: the base table is shared and must stay untouched)"""
    C = {k: dict(v) for k, v in contracts.C.items()}

    def add(name, fn):
        C.setdefault(name, {})
        C[name] = dict(C[name], ghost=fn)

    one = ("const", 1, "usize")
    add("traits::words::WordWrite::write_word", lambda w, st, args: bump(st, G_WW, one))
    add("traits::words::WordRead::read_word", lambda w, st, args: bump(st, G_WP, one))

    def set_wp(w, st, args):
        st["mem"][G_WP] = args[1]
    add("traits::words::WordSeek::set_word_pos", set_wp)

    def adv_n(i):
        def f(w, st, args):
            recv = strip_ref(args[0])
            if recv == ("arg", 1, "self"):
                bump(st, ("ghost", "selfadv"), args[i])
                return
            bump(st, g_adv(recv), args[i])
        return f
    add("traits::bits::BitRead::read_bits", adv_n(1))
    add("traits::bits::BitWrite::write_bits", adv_n(2))
    # word_pos() returns the ghost position
    base_post = C.get("traits::words::WordSeek::word_pos", {}).get("post")

    def word_pos_post(num, ev):
        r = num.aff(("okval", ev[3]))
        wp = num.aff(getattr(num, "ctx_mem", {}).get(G_WP, G_WP))
        if r is None or wp is None:
            return []
        return [le(r, wp), le(wp, r)]
    C.setdefault("traits::words::WordSeek::word_pos", {})
    C["traits::words::WordSeek::word_pos"] = dict(C["traits::words::WordSeek::word_pos"], post=word_pos_post)
    return C


def eq(a, b):
    return [le(a, b), le(b, a)]


def ok_value(p):
    r = p.ret
    if isinstance(r, tuple) and r[0] == "agg" and r[3] == "Ok":
        return r[4][0] if r[4] else ("unit",)
    return None


def is_success(p, returns_result=True):
    if p.end[0] != "return":
        return False
    if not returns_result:
        return True
    return ok_value(p) is not None


class Effect:
    def __init__(self, spec_key, goals, doc, returns_result=True):
        self.spec_key, self.goals, self.doc, self.returns_result = spec_key, goals, doc, returns_result


def mem_aff(num, p, key):
    return num.aff(p.mem.get(key, key))


def fieldkey(base, name):
    return ("field", ("deref", base), name)


def writer_out(num, p, w, base=SELF, entry=False):
    s = fieldkey(base, "space_left_in_buffer")
    if entry:
        return num.aff(G_WW).scale(w) + const(w) - num.aff(s)
    return mem_aff(num, p, G_WW).scale(w) + const(w) - mem_aff(num, p, s)


def reader_pos(num, p, w, entry=False):
    b = fieldkey(SELF, "bits_in_buffer")
    if entry:
        return num.aff(G_WP).scale(w) - num.aff(b)
    return mem_aff(num, p, G_WP).scale(w) - mem_aff(num, p, b)


def writer_effects():
    E = {}
    for e in ("be", "le"):
        E["writer.%s.write_bits" % e] = Effect(None, lambda num, p, w: [
            ("returns n_bits", eq(num.aff(ok_value(p)), num.aff(("arg", 3, "arg3")))),
            ("stream grows by exactly n_bits", eq(writer_out(num, p, w), writer_out(num, p, w, entry=True) + num.aff(("arg", 3, "arg3"))))],
            "write_bits(v, n): Ok(x) => x = n and out' = out + n")
        E["writer.%s.write_unary" % e] = Effect(None, lambda num, p, w: [
            ("returns value + 1", eq(num.aff(ok_value(p)), num.aff(("arg", 2, "arg2")) + const(1))),
            ("stream grows by exactly value + 1", eq(writer_out(num, p, w), writer_out(num, p, w, entry=True) + num.aff(("arg", 2, "arg2")) + const(1)))],
            "write_unary(v): Ok(x) => x = v + 1 and out' = out + v + 1")
        E["writer.%s.copy_from" % e] = Effect(None, lambda num, p, w: [
            ("destination grows by exactly n", eq(writer_out(num, p, w), writer_out(num, p, w, entry=True) + num.aff(("arg", 3, "arg3")))),
            ("source advances by exactly n", eq(mem_aff(num, p, g_adv(("arg", 2, "arg2"))), num.aff(g_adv(("arg", 2, "arg2"))) + num.aff(("arg", 3, "arg3"))))],
            "copy_from(r, n): out' = out + n and r advances by n")
    for e in ("be", "le"):
        def goals(num, p, w, bw=SELF):
            s0 = num.aff(fieldkey(bw, "space_left_in_buffer"))
            s1 = mem_aff(num, p, fieldkey(bw, "space_left_in_buffer"))
            dww = mem_aff(num, p, G_WW) - num.aff(G_WW)
            x = num.aff(ok_value(p))
            return [("returns the number of pending bits W - space_left", eq(x, const(w) - s0)),
                    ("buffer is empty afterwards (a second flush writes nothing)", eq(s1, const(w))),
                    ("pads to the next word boundary: one word iff bits were pending",
                     ("or", eq(dww, const(1)) + [le(s0, const(w - 1))], eq(dww, const(0)) + eq(s0, const(w))))]
        E["writer.%s.flush" % e] = Effect(None, goals, "flush: Ok(x) => x = W - s, s' = W, exactly one word written iff x != 0")
    return E


def reader_effects():
    E = {}
    n2 = lambda nm: ("arg", 2, "arg2")
    for e in ("be", "le"):
        k = "reader.%s." % e
        E[k + "read_bits"] = Effect(None, lambda num, p, w: [("advances by exactly n_bits", eq(reader_pos(num, p, w), reader_pos(num, p, w, True) + num.aff(n2("n_bits"))))],
                                    "read_bits(n): Ok => pos' = pos + n")
        E[k + "skip_bits"] = Effect(None, lambda num, p, w: [("advances by exactly n_bits", eq(reader_pos(num, p, w), reader_pos(num, p, w, True) + num.aff(n2("n_bits"))))],
                                    "skip_bits(n): Ok => pos' = pos + n")
        E[k + "skip_bits_after_peek"] = Effect(None, lambda num, p, w: [("advances by exactly n_bits", eq(reader_pos(num, p, w), reader_pos(num, p, w, True) + num.aff(n2("n_bits"))))],
                                               "skip_bits_after_peek(n): pos' = pos + n", returns_result=False)
        E[k + "peek_bits"] = Effect(None, lambda num, p, w: [("does not advance", eq(reader_pos(num, p, w), reader_pos(num, p, w, True)))],
                                    "peek_bits(n): Ok => pos' = pos")
        E[k + "read_unary"] = Effect(None, lambda num, p, w: [("advances by result + 1", eq(reader_pos(num, p, w), reader_pos(num, p, w, True) + num.aff(ok_value(p)) + const(1)))],
                                     "read_unary(): Ok(r) => pos' = pos + r + 1")
        E[k + "copy_to"] = Effect(None, lambda num, p, w: [
            ("source advances by exactly n", eq(reader_pos(num, p, w), reader_pos(num, p, w, True) + num.aff(("arg", 3, "arg3")))),
            ("destination receives exactly n bits", eq(mem_aff(num, p, g_adv(("arg", 2, "arg2"))), num.aff(g_adv(("arg", 2, "arg2"))) + num.aff(("arg", 3, "arg3"))))],
            "copy_to(w, n): pos' = pos + n and w receives n bits")
        E[k + "bit_pos"] = Effect(None, lambda num, p, w: [("returns the position", eq(num.aff(ok_value(p)), reader_pos(num, p, w, True))),
                                                            ("does not move", eq(reader_pos(num, p, w), reader_pos(num, p, w, True)))],
                                  "bit_pos(): Ok(x) => x = pos")
        E[k + "set_bit_pos"] = Effect(None, lambda num, p, w: [("position becomes the argument", eq(reader_pos(num, p, w), num.aff(n2("bit_index"))))],
                                      "set_bit_pos(p): Ok => pos' = p")
        kb = "bitreader.%s." % e
        bi = fieldkey(SELF, "bit_index")
        pos = lambda num, p: mem_aff(num, p, bi)
        pos0 = lambda num: num.aff(bi)
        E[kb + "read_bits"] = Effect(None, lambda num, p, w: [("advances by exactly n_bits", eq(pos(num, p), pos0(num) + num.aff(n2("n_bits"))))], "read_bits(n): pos' = pos + n")
        E[kb + "skip_bits"] = Effect(None, lambda num, p, w: [("advances by exactly n_bits", eq(pos(num, p), pos0(num) + num.aff(n2("n_bits"))))], "skip_bits(n): pos' = pos + n")
        E[kb + "skip_bits_after_peek"] = Effect(None, lambda num, p, w: [("advances by exactly n", eq(pos(num, p), pos0(num) + num.aff(n2("n"))))],
                                                "skip_bits_after_peek(n): pos' = pos + n", returns_result=False)
        E[kb + "peek_bits"] = Effect(None, lambda num, p, w: [("does not advance", eq(pos(num, p), pos0(num)))], "peek_bits: pos' = pos")
        E[kb + "read_unary"] = Effect(None, lambda num, p, w: [("advances by result + 1", eq(pos(num, p), pos0(num) + num.aff(ok_value(p)) + const(1)))],
                                      "read_unary(): Ok(r) => pos' = pos + r + 1")
    return E


def check_effects(chk, F, specs, effects, rule, fs):
    C = ghost_contracts()
    for spec in specs:
        eff = effects.get(spec.key)
        if eff is None:
            continue
        for w in spec.widths:
            b = rn.find_body(F, spec.find)
            cfg = numabs.Cfg(w)

            def assume(num, spec=spec, w=w):
                out = []
                for text, goals in spec.inv(num, w):
                    out.extend(goals)
                out.extend(spec.pre(num, w))
                return out
            wk = numabs.NumWalker(b, cfg, F, C, assume)
            wk.inline = spec.inline
            wk.gen_map = dict(getattr(spec, "gen", None) or {})
            paths = wk.run()
            num = wk.num
            results = {}
            nsucc = 0
            for p in paths:
                if not is_success(p, eff.returns_result):
                    continue
                nsucc += 1
                num.ctx_events = p.state["events"]
                num.ctx_cons = p.state["cons"]
                num.ctx_mem = p.mem
                base = wk.full_store(p.state)
                if not lp.feasible(base):
                    continue
                try:
                    goals = eff.goals(num, p, w)
                except (AttributeError, TypeError) as ex:
                    goals = [("effect could not be evaluated (%s)" % ex, None)]
                base = wk.full_store(p.state)
                for text, g in goals:
                    if g is None:
                        ok = False
                    elif isinstance(g, tuple) and g and g[0] == "or":
                        ok = any(all(lp.entails(num.close(base, alt), c) for c in alt) for alt in g[1:])
                    else:
                        ok = all(lp.entails(num.close(base, g), c) for c in g)
                    r = results.setdefault(text, {"ok": True, "path": None})
                    if not ok and r["ok"]:
                        r["ok"] = False
                        r["path"] = p
            key0 = "%s@u%d" % (spec.key, w) + ("" if fs == "default" else "@" + fs)
            if nsucc == 0:
                chk.bad(rule, key0 + "|nopath", "%s under u%d has no successful return path to check (%s)" % (spec.key, w, eff.doc))
            for text, r in sorted(results.items()):
                chk.expect(rule, key0 + "|" + text, r["ok"],
                           "%s, word u%d%s: declared effect `%s` does not hold on a path [%s]"
                           % (b["path"], w, "" if fs == "default" else " [features %s]" % fs, text, eff.doc),
                           detail={"fn": b["path"], "cfg": "u%d" % w, "effect": eff.doc, "clause": text,
                                   "path": rn.describe_path(r["path"]) if r["path"] is not None else None},
                           sample={"fn": spec.key, "cfg": "u%d" % w, "effect": text} if w == 64 else None)


def run_writer_effects(chk, F, fs):
    chk.rule("W5.accounting", floor=60 if fs == "default" else 0,
             doc="E4: ghost out = W*words_written + (W - space_left): write_bits/write_unary/copy_from advance by exactly the declared amount and return it; flush returns the pending count, empties the buffer and pads with exactly one word iff bits were pending")
    specs = [s for s in rn.writer_specs() if s.group in (None, "copy")]
    eff = writer_effects()
    if chk.pid != "C08":
        specs = [s for s in specs if s.group is None]
    else:
        specs = [s for s in specs if s.group == "copy"]
    check_effects(chk, F, specs, eff, "W5.accounting" if chk.pid != "C08" else "P3.accounting", fs)


def run_reader_effects(chk, F, fs, rule="R3.position", groups=(None,)):
    specs = [s for s in rn.reader_specs() if s.group in groups]
    check_effects(chk, F, specs, reader_effects(), rule, fs)

"""C16 — code names and identifiers round-trip (N1..N4, DESIGN.md section 5)."""
import mir
import codeclass as cc
from rules_c10 import variants, codes_key, is_arg, peel_ref, CODES_ADT

SELF_CODES = r"dispatch::codes::Codes"


def decode_template(bs):
    """rustc's format_args byte template -> list of ('lit', str) | ('arg',) ; None if not understood"""
    out = []
    i = 0
    bs = list(bs)
    while i < len(bs):
        b = bs[i]
        if b == 0:
            return out
        if b < 0x80:
            out.append(("lit", bytes(bs[i + 1:i + 1 + b]).decode("utf8", "replace")))
            i += 1 + b
        elif b == 0xC0:
            out.append(("arg",))
            i += 1
        else:
            return None
    return out


def find_bytes(t):
    """first byte-string constant inside a term"""
    if isinstance(t, tuple) and t:
        if t[0] == "const" and isinstance(t[1], tuple):
            return t[1]
        for x in t:
            r = find_bytes(x)
            if r is not None:
                return r
    return None


def display_table(F, chk):
    b = F.one(name="fmt", trait_is="std::fmt::Display", self_is=SELF_CODES)
    subject = ("deref", ("arg", 1, "self"))
    tab = {}
    for p in mir.walk(b):
        key = codes_key(F, p, subject)
        if key[0] != "arm":
            continue
        var = key[1]
        pieces = None
        argfield = None
        for e in p.calls():
            if e[1].endswith("Arguments::<'a>::from_str"):
                a = e[2][0]
                if a[0] == "const" and isinstance(a[1], str):
                    pieces = [("lit", a[1])]
            elif e[1].endswith("Arguments::<'a>::new"):
                bs = find_bytes(e[2][0])
                pieces = decode_template(bs) if bs is not None else None
            elif e[1].endswith("::new_display") or e[1].endswith("::new_debug"):
                a = e[2][0]
                while isinstance(a, tuple) and a[0] == "ref":
                    a = a[1]
                if a[0] == "field" and a[1] == ("variant", subject, var):
                    argfield = a[2]
                else:
                    argfield = "?" + mir.fmt(a)
        wrote = [e for e in p.calls() if e[1].endswith("Formatter::<'a>::write_fmt")]
        tab[var] = {"pieces": pieces, "field": argfield, "writes": len(wrote)}
    return tab


def fromstr_table(F, chk):
    """(whole-literal arms, prefix arms, fallthrough result, all paths)"""
    b = F.one(name="from_str", impl_trait="FromStr", self_is=SELF_CODES)
    paths = mir.walk_inline(b, F, adapters=False)          # nested / private helpers are walked in context
    whole, prefix = {}, {}
    fallthrough = []
    s_arg = ("arg", 1, mir.argname(1, b["locals"][1]["name"]))
    for p in paths:
        if p.end[0] != "return":
            continue
        # the string comparison that succeeded on this path (if any)
        eqs = {}
        for e in p.calls():
            if e[1].endswith("PartialEq::eq") or e[1].endswith("::eq"):
                eqs[e[3]] = e
        matched = None
        for (t, op, v) in p.constraints:
            if t in eqs and ((op == "notin" and v == (0,)) or (op == "==" and v == 1)):
                matched = eqs[t]
        r = p.ret
        if matched is None:
            fallthrough.append(p)
            continue
        subj, lit = matched[2][0], matched[2][1]
        if not (lit[0] == "const" and isinstance(lit[1], str)):
            subj, lit = lit, subj
        if not (lit[0] == "const" and isinstance(lit[1], str)):
            continue
        name = lit[1]
        subj = peel_ref(subj)
        while isinstance(subj, tuple) and subj[0] in ("ref", "deref"):
            subj = subj[1]
        is_ok = isinstance(r, tuple) and r[0] == "agg" and r[3] == "Ok"
        ent = {"ok": is_ok, "ret": r, "path": p, "subject": subj}
        if is_ok and r[4] and r[4][0][0] == "agg" and r[4][0][2] == CODES_ADT:
            ent["variant"] = r[4][0][3]
            ent["fields"] = r[4][0][4]
            ent["field_names"] = r[4][0][5]
        if subj == s_arg:
            whole.setdefault(name, []).append(ent)
        else:
            prefix.setdefault(name, []).append(ent)
    return whole, prefix, fallthrough, paths, s_arg


def describe_origin(t):
    """chain of std calls a term derives from, e.g. parse<-ok_or_else<-next<-split(')')<-..."""
    out = []
    while isinstance(t, tuple):
        if t[0] in ("okval", "ref", "deref", "cast"):
            t = t[1]
        elif t[0] == "ret":
            out.append(t[2].split("::")[-1])
            break
        else:
            break
    return out


def semantic_id_tables(F, vs):
    """the two identifier maps derived by abstract interpretation of to_code_const / from_code_const (whatever the shape of their
    match arms): {"to": [(variant, lo, hi, id | None)], "from": [(lo, hi, variant | None, param | None)]}, or None if the
    interpreter cannot follow the code"""
    import ivl
    from ivl import AI, Agg, Ref, Frame
    UMAX = (1 << 64) - 1
    try:
        tb = F.body("dispatch::codes::Codes::to_code_const")
        fb = F.body("dispatch::codes::Codes::from_code_const")
        to = []
        for idx, v in sorted(vs.items()):
            var = v["name"]
            flds = v["fields"]

            def run_to(it, var=var, idx=idx, flds=flds):
                holder = Frame({"path": "input"}, {})
                holder.locals[0] = Agg("adt", CODES_ADT, var, idx, [it.input(f["ty"] if f["ty"] in ivl.TY else "usize") for f in flds])
                return it.call_body(tb, [Ref(holder, 0, ())], {}, 0)

            def refine(r, it):
                return isinstance(r, Agg) and r.variant == "Ok" and isinstance(r.fields[0], AI) and r.fields[0].const() is None
            cells = ivl.partition(F, run_to, 0, UMAX if flds else 0, refine=refine, max_cells=4000)
            for c in cells:
                r = c.ret
                if c.status == "ok" and isinstance(r, Agg) and r.variant == "Ok" and isinstance(r.fields[0], AI):
                    to.append((var, c.y0, c.y1, r.fields[0].const()))
                elif c.status == "ok" and isinstance(r, Agg) and r.variant == "Err":
                    to.append((var, c.y0, c.y1, None))
                else:
                    return None

        def run_from(it):
            return it.call_body(fb, [it.input("usize")], {}, 0)

        def refine_from(r, it):
            return isinstance(r, Agg) and r.variant == "Ok" and isinstance(r.fields[0], Agg) and any(isinstance(x, AI) and x.const() is None for x in r.fields[0].fields)
        frm = []
        for c in ivl.partition(F, run_from, 0, UMAX, refine=refine_from, max_cells=4000):
            r = c.ret
            if c.status == "ok" and isinstance(r, Agg) and r.variant == "Ok" and isinstance(r.fields[0], Agg):
                cv = r.fields[0]
                pv = cv.fields[0].const() if cv.fields and isinstance(cv.fields[0], AI) else None
                frm.append((c.y0, c.y1, cv.variant, pv))
            elif c.status == "ok" and isinstance(r, Agg) and r.variant == "Err":
                frm.append((c.y0, c.y1, None, None))
            else:
                return None
        return {"to": to, "from": frm}
    except (ivl.Unsupported, ivl.Undecided, ivl.Panic, KeyError, AttributeError, IndexError):
        return None


def check_id_tables(chk, sem, cls_of_id, ids):
    chk.rule("N3.to", floor=59, doc="to_code_const, interpreted on every variant and every parameter value: (V,p) -> id of the same canonical class; unsupported parameters give an error")
    chk.rule("N3.from", floor=51, doc="from_code_const, interpreted on every identifier value: id -> code of that id's class and to(from(id)) = id; every other value gives an error")
    to_tab = {}
    err_seen = False
    for var, lo, hi, idv in sem["to"]:
        fam, field = cc.VARIANT[var]
        if idv is None:
            err_seen = True
            continue
        if hi - lo > 256:
            chk.bad("N3.to", "%s[%d..%d]" % (var, lo, hi), "to_code_const maps the whole parameter range %d..=%d of %s to the single identifier %d" % (lo, hi, var, idv))
            continue
        for k in range(lo, hi + 1):
            pk = k if field else None
            kc = cc.canon(fam, pk)
            chk.expect("N3.to", "%s" % ((var, ("const", pk)) if field else (var,),), cls_of_id.get(idv) == kc,
                       "to_code_const maps %s{%s} (class %s) to identifier %s whose class is %s" % (var, pk, kc, idv, cls_of_id.get(idv)),
                       sample={"code": "%s{%s}" % (var, pk), "id": idv})
            to_tab[(var, pk)] = idv
    chk.expect("N3.to", "default-is-error", err_seen, "to_code_const has no error result for unsupported codes")
    seen = set()
    err_seen = False
    for lo, hi, var, pv in sem["from"]:
        if var is None:
            err_seen = True
            continue
        if hi - lo > 256:
            chk.bad("N3.from", "id[%d..%d]" % (lo, hi), "from_code_const maps the whole range %d..=%d to one code" % (lo, hi))
            continue
        for idv in range(lo, hi + 1):
            seen.add(idv)
            fam, field = cc.VARIANT[var]
            c = cc.canon(fam, pv if field else None)
            back = to_tab.get((var, pv if field else None))
            ok2 = cls_of_id.get(idv) == c and back == idv
            chk.expect("N3.from", "id=%s" % idv, ok2, "from_code_const(%s) yields %s{%s} of class %s (identifier's class: %s); to_code_const maps it back to %s" % (idv, var, pv, c, cls_of_id.get(idv), back),
                       sample={"id": idv, "code": "%s{%s}" % (var, pv)})
    chk.expect("N3.from", "default-is-error", err_seen, "from_code_const has no error result")
    chk.expect("N3.from", "covers-all-ids", seen == set(ids), "from_code_const accepts %s, identifiers are %s" % (sorted(seen)[:70], sorted(ids)[:70]),
               detail={"missing": sorted(set(ids) - seen), "extra": sorted(seen - set(ids))[:20]})


def harvest_consts(F, body, seen=None, out=None, depth=0):
    """integer constants (switch targets, literal operands) of a body and of the crate-private functions it calls"""
    seen = set() if seen is None else seen
    out = set() if out is None else out
    if body["path"] in seen or depth > 4:
        return out
    seen.add(body["path"])

    def scan(o):
        if isinstance(o, dict):
            if o.get("k") == "const" and isinstance(o.get("value"), int) and not isinstance(o.get("value"), bool):
                out.add(int(o["value"]))
            if o.get("k") == "const" and "fn" in o:
                for cb in F.by_path.get(o["fn"], []):
                    if cb.get("blocks") and str(cb.get("vis") or "").startswith("Restricted"):
                        harvest_consts(F, cb, seen, out, depth + 1)
            for v in o.values():
                scan(v)
        elif isinstance(o, (list, tuple)):
            for v in o:
                scan(v)
    for bl in body["blocks"]:
        scan(bl["stmts"])
        t = bl["term"]
        scan(t)
        if t.get("k") == "switch":
            for v, _ in t["targets"]:
                out.add(int(v))
    return out


def run_eq(chk, F):
    """N4, decided by interpreting PartialEq::eq (helpers included, whatever the shape of its arms) on every pair of variants and
    every pair of parameter cells.  The cells are the constants the code mentions, as singletons, and the gaps between them; on
    a pair of values from one gap the comparison of the two parameters is split relationally (equal / different)."""
    import ivl
    from ivl import AI, Agg, Ref, Frame
    vs = variants(F)
    chk.rule("N4.eq", floor=30, doc="PartialEq::eq interpreted on every pair (variant, parameter cell) x (variant, parameter cell): every pair it declares equal is one canonical class (identical codewords)")
    chk.rule("N4.reflexive", floor=11, doc="every code compares equal to itself (every variant, every parameter cell)")
    b = F.one(name="eq", trait_is="std::cmp::PartialEq", self_is=SELF_CODES)
    consts = sorted(c for c in (harvest_consts(F, b) | {0, 1, 2, 3, 4, 8, 16}) if 0 <= c < (1 << 64))
    UMAX = (1 << 64) - 1
    cells = []
    prev = -1
    for c in consts:
        if c - 1 > prev:
            cells.append((prev + 1, c - 1))
        cells.append((c, c))
        prev = c
    if prev < UMAX:
        cells.append((prev + 1, UMAX))

    def value(it, idx, v, cell, mode):
        flds = []
        for f in v["fields"]:
            ty = f["ty"] if f["ty"] in ivl.TY else "usize"
            if mode == "input":
                flds.append(it.input(ty))
            elif mode == "neq":
                flds.append(AI(ty, cell[0], cell[1], None, None, ("neq",)))
            else:
                flds.append(AI(ty, cell[0], cell[1]))
        h = Frame({"path": "input"}, {})
        h.locals[0] = Agg("adt", CODES_ADT, v["name"], idx, flds)
        return Ref(h, 0, ())

    def evaluate(i1, v1, c1, i2, v2, c2, mode2):
        it = ivl.Interp(F, c1[0], c1[1])
        r = it.call_body(b, [value(it, i1, v1, c1, "input"), value(it, i2, v2, c2, mode2)], {}, 0)
        return r.const() if isinstance(r, AI) else None

    def canon_cell(v, cell):
        fam, field = cc.VARIANT[v["name"]]
        if not field:
            return cc.canon(fam, None)
        return cc.canon(fam, cell[0]) if cell[0] == cell[1] else ("gap", v["name"], cell)
    refl = {}
    undecided = []
    for i1, v1 in sorted(vs.items()):
        for c1 in (cells if v1["fields"] else [(0, 0)]):
            for i2, v2 in sorted(vs.items()):
                for c2 in (cells if v2["fields"] else [(0, 0)]):
                    same_gap = i1 == i2 and c1 == c2 and c1[0] != c1[1] and bool(v1["fields"])
                    runs = [("input", "equal"), ("neq", "different")] if same_gap else [("plain", None)]
                    for mode2, rel in runs:
                        what = "%s%s = %s%s%s" % (v1["name"], list(c1) if v1["fields"] else "", v2["name"], list(c2) if v2["fields"] else "",
                                                  " (parameters %s)" % rel if rel else "")
                        try:
                            r = evaluate(i1, v1, c1, i2, v2, c2, mode2)
                        except (ivl.Undecided, ivl.Unsupported, ivl.Panic) as ex:
                            undecided.append("%s: %s" % (what, ex))
                            continue
                        if r is None:
                            undecided.append("%s: not a boolean constant" % what)
                            continue
                        identical = (i1 == i2 and c1 == c2 and rel != "different") if (same_gap or (i1 == i2 and c1 == c2 and c1[0] == c1[1])) else \
                            (canon_cell(v1, c1) == canon_cell(v2, c2) and canon_cell(v1, c1)[0] != "gap")
                        if i1 == i2 and c1 == c2 and rel != "different":
                            refl.setdefault(v1["name"], []).append((c1, bool(r)))
                        if r:
                            chk.expect("N4.eq", what, identical, "eq declares %s equal, but these codes do not have identical codewords" % what,
                                       sample={"pair": what} if c1[0] == c1[1] and c2[0] == c2[1] else None)
    chk.expect("N4.eq", "decided", not undecided, "PartialEq::eq cannot be decided by the interpreter on: %s" % "; ".join(undecided[:4]),
               detail={"undecided": undecided[:20]})
    for idx, v in sorted(vs.items()):
        bad = [c for c, r in refl.get(v["name"], []) if not r]
        chk.expect("N4.reflexive", v["name"], v["name"] in refl and not bad,
                   "Codes::%s does not compare equal to itself for the parameter cell(s) %s" % (v["name"], bad[:3]))


def run_text_structural(chk, F, tier):
    vs = variants(F)
    chk.rule("N1.display", floor=11, doc="Display arm of every Codes variant decoded (literal or Name({field}))")
    chk.rule("N1.roundtrip", floor=11, doc="FromStr(Display(V)) constructs V with the parsed number in V's field")
    disp = display_table(F, chk)
    whole, prefix, fall, paths, s_arg = fromstr_table(F, chk)
    names_seen = {}
    for idx, v in sorted(vs.items()):
        var = v["name"]
        d = disp.get(var)
        fields = [f["name"] for f in v["fields"]]
        if d is None or d["pieces"] is None or d["writes"] != 1:
            chk.bad("N1.display", var, "Display arm of Codes::%s not understood (%s)" % (var, d))
            continue
        pcs = d["pieces"]
        if not fields:
            okd = len(pcs) == 1 and pcs[0][0] == "lit"
            chk.expect("N1.display", var, okd, "Display of Codes::%s is not a plain literal: %s" % (var, pcs), sample={"variant": var, "pieces": pcs})
            if not okd:
                continue
            name = pcs[0][1]
            names_seen.setdefault(name, []).append(var)
            ents = whole.get(name, [])
            good = [e for e in ents if e.get("variant") == var]
            chk.expect("N1.roundtrip", var, bool(good) and all(e.get("variant") == var for e in ents),
                       "Codes::%s prints as %r but FromStr has no arm mapping %r to Codes::%s (arms for that text: %s)"
                       % (var, name, name, var, [e.get("variant") for e in ents]),
                       detail={"variant": var, "display": name, "fromstr_whole_literals": sorted(whole)},
                       sample={"variant": var, "text": name})
        else:
            okd = (len(pcs) == 3 and pcs[0][0] == "lit" and pcs[1] == ("arg",) and pcs[2] == ("lit", ")")
                   and pcs[0][1].endswith("(") and d["field"] == fields[0] and len(fields) == 1)
            chk.expect("N1.display", var, okd, "Display of Codes::%s is not Name({%s}): %s field=%s" % (var, fields[0], pcs, d["field"]),
                       sample={"variant": var, "pieces": pcs, "field": d["field"]})
            if not okd:
                continue
            name = pcs[0][1][:-1]
            names_seen.setdefault(name, []).append(var)
            ents = [e for e in prefix.get(name, []) if e["ok"]]
            good = []
            for e in ents:
                if e.get("variant") != var:
                    continue
                fv = mir.norm_ok(e["fields"][0]) if e["fields"] else None
                origin = describe_origin(fv)
                # the field is the parsed number: okval(parse(...)) on this path
                if fv is not None and fv[0] == "okval" and origin and origin[0] == "parse":
                    good.append(e)
            chk.expect("N1.roundtrip", var, bool(good) and all(e.get("variant") == var for e in ents),
                       "Codes::%s prints as %s(<n>) but FromStr does not map the name %r to Codes::%s{%s: parsed n} (arms: %s)"
                       % (var, name, name, var, fields[0], [e.get("variant") for e in ents]),
                       detail={"variant": var, "name": name, "fromstr_prefix_names": sorted(prefix)},
                       sample={"variant": var, "text": name + "(n)"})
    chk.rule("N1.unique", floor=11, doc="no two variants print the same name; no FromStr literal maps to two variants")
    for name, vars_ in sorted(names_seen.items()):
        chk.expect("N1.unique", name, len(vars_) == 1, "name %r is printed by several variants: %s" % (name, vars_))
    # delimiters used by the parser are the ones printed
    chk.rule("N1.delims", floor=2, doc="the parser splits on the '(' and ')' that Display prints")
    splits = []
    for p in paths:
        for e in p.calls():
            if e[1].endswith("<impl str>::split") and len(e[2]) == 2:
                c = e[2][1]
                if c[0] == "const":
                    splits.append(c[1])
        if splits:
            break
    chk.expect("N1.delims", "open", len(splits) >= 1 and splits[0] == ord("("), "first split is not on '(': %s" % splits[:2])
    chk.expect("N1.delims", "close", len(splits) >= 2 and splits[1] == ord(")"), "second split is not on ')': %s" % splits[:2])

    # ---- N2 rejection
    chk.rule("N2.reject", floor=1, doc="unknown names fall through to Err")
    chk.expect("N2.reject", "fallthrough", len(fall) >= 1 and all(
        (isinstance(p.ret, tuple) and ((p.ret[0] == "agg" and p.ret[3] == "Err") or p.ret[0] == "from_residual")) for p in fall),
        "a path of FromStr on which no name matched does not return Err: %s" % [mir.fmt(p.ret)[:80] for p in fall])
    chk.rule("N2.whole", floor=6, doc="a parameterless code is produced only when the whole input equals its name")
    for name, ents in sorted(list(whole.items()) + list(prefix.items()), key=lambda kv: kv[0]):
        for e in ents:
            var = e.get("variant")
            if var is None or cc.VARIANT.get(var, (None, None))[1] is not None:
                continue
            chk.expect("N2.whole", "%s:%s" % (name, var), e["subject"] == s_arg,
                       "FromStr yields the parameterless Codes::%s when only a part of the input (%s) equals %r: text such as %s(3) is accepted instead of rejected"
                       % (var, mir.fmt(e["subject"])[:60], name, name), sample={"name": name, "variant": var})
    chk.rule("N2.propagate", floor=3, doc="every fallible intermediate on the parameter path (split pieces: Option; parse: Result) is branched on - by `?` or by a match - and never defaulted (unwrap_or & co.)")
    chk.rule("N2.errexit", floor=3, doc="on every path where such an intermediate is None / Err, from_str returns an error")
    FALLIBLE = ("next", "parse", "ok_or_else", "ok_or", "split_once", "strip_prefix", "strip_suffix")

    def failed(t, op, v):
        """(the fallible call result this constraint speaks about, True if the constraint says it failed) or (None, None)"""
        if t[0] != "discr":
            return None, None
        x = t[1]
        via_try = x[0] == "try"
        if via_try:
            x = x[1]
        while isinstance(x, tuple) and x and x[0] == "maperr":
            x = x[1]
        if not (isinstance(x, tuple) and x and x[0] == "ret" and x[2].split("::")[-1] in FALLIBLE):
            return None, None
        is_opt = x[2].split("::")[-1] in ("next", "split_once", "strip_prefix", "strip_suffix")
        good = 0 if via_try else (1 if is_opt else 0)      # discriminant of the successful variant (Continue / Some / Ok)
        if op != "==":
            return x, (True if good in tuple(v) else None)  # "not the successful variant" on an otherwise-arm
        return x, v != good

    branched, fail_ok, fail_bad = set(), set(), {}
    produced = set()
    for p in paths:
        for e in p.calls():
            last = e[1].split("::")[-1]
            if last in ("unwrap_or", "unwrap_or_default", "unwrap_or_else", "unwrap", "expect", "ok", "unwrap_unchecked") and \
                    ("Option" in e[1] or "Result" in e[1] or "<T>" in e[1] or "<T, E>" in e[1]):
                chk.bad("N2.propagate", "call:" + last, "FromStr uses %s on a parse intermediate (defaults instead of rejecting)" % e[1])
            if last in ("parse", "ok_or_else", "ok_or") or (last == "next" and p.end[0] == "return"):
                produced.add(e[3])
        r = p.ret
        is_err = isinstance(r, tuple) and ((r[0] == "agg" and r[3] == "Err") or r[0] == "from_residual")
        for (t, op, v) in p.constraints:
            x, f = failed(t, op, v)
            if x is None:
                continue
            branched.add(x)
            if f and p.end[0] == "return":
                if is_err:
                    fail_ok.add(x)
                else:
                    fail_bad[x] = mir.fmt(r)[:80]
    for x in sorted(produced, key=str):
        last = x[2].split("::")[-1]
        if last == "next" and x not in branched:
            continue        # iterator steps of a `for` loop or similar are not parse intermediates
        chk.expect("N2.propagate", "%s#%d" % (last, x[1]), x in branched, "result of %s is never branched on (neither `?` nor a match): its failure is ignored" % x[2])
    for x in sorted(branched, key=str):
        last = x[2].split("::")[-1]
        chk.expect("N2.errexit", "%s#%d" % (last, x[1]), x in fail_ok and x not in fail_bad,
                   "when %s fails from_str %s" % (x[2], ("returns %s" % fail_bad[x]) if x in fail_bad else "has no path returning an error"))



def run_text_semantic(chk, F):
    """N1 / N2 decided by interpreting Display::fmt and FromStr::from_str on abstract strings (sa/strdom.py): every variant is
    printed with its parameter as the cell variable over the whole type and the text is parsed back; malformed texts are built
    from the names Display prints, an arbitrary unknown name and arbitrary non-numeric parameter text.  Returns False when the
    interpreter cannot follow the code (the structural rules are used then)."""
    import ivl, strdom
    from ivl import AI, Agg, Ref, Frame
    vs = variants(F)
    db = F.one(name="fmt", trait_is="std::fmt::Display", self_is=SELF_CODES)
    fb = F.one(name="from_str", impl_trait="FromStr", self_is=SELF_CODES)
    UMAX = (1 << 64) - 1
    shown = {}
    results = []
    try:
        for idx, v in sorted(vs.items()):
            def value(it, v=v, idx=idx):
                h = Frame({"path": "code"}, {})
                h.locals[0] = Agg("adt", CODES_ADT, v["name"], idx, [it.input(f["ty"] if f["ty"] in ivl.TY else "usize") for f in v["fields"]])
                return Ref(h, 0, ())
            hi = UMAX if v["fields"] else 0
            atoms, _ = strdom.display(F, db, value, 0, hi)
            shown[v["name"]] = atoms
            r, it2 = strdom.parse(F, fb, strdom.SStr(atoms), 0, hi)
            results.append((v, atoms, r, it2))
        # malformed texts
        bad = [("an unknown name", (strdom.Unk("name"),)), ("an unknown name with a parameter", (strdom.Unk("name"), "(", strdom.Dec(AI("usize", 0, UMAX)), ")")),
               ("the empty text", ())]
        for nm, atoms in sorted(shown.items()):
            name = tuple(a for a in atoms[:next((k for k, a in enumerate(atoms) if a == "("), len(atoms))])
            if any(isinstance(a, strdom.Dec) for a in atoms):
                bad.append(("%s without a parameter" % nm, name))
                bad.append(("%s with an empty parameter" % nm, name + ("(", ")")))
                bad.append(("%s with a non-numeric parameter" % nm, name + ("(", strdom.Unk("junk"), ")")))
                bad.append(("%s with a negative parameter" % nm, name + ("(", "-", strdom.Dec(AI("usize", 0, UMAX)), ")")))
            else:
                bad.append(("the parameterless %s given a parameter" % nm, name + ("(", strdom.Dec(AI("usize", 0, UMAX)), ")")))
        rejected = []
        for what, atoms in bad:
            r, _ = strdom.parse(F, fb, strdom.SStr(atoms), 0, 0)
            rejected.append((what, atoms, r))
    except (ivl.Unsupported, ivl.Undecided, ivl.Panic, KeyError, AttributeError, IndexError, TypeError, StopIteration):
        return False
    chk.rule("N1.display", floor=11, doc="Display::fmt interpreted on every variant with its parameter ranging over the whole type: the text written (abstract string: characters and the decimal digits of the parameter)")
    chk.rule("N1.roundtrip", floor=11, doc="FromStr::from_str interpreted on the text Display writes: yields the same variant with the same parameter, for every parameter value")
    chk.rule("N1.unique", floor=11, doc="no two variants print the same text")
    chk.rule("N2.reject", floor=20, doc="from_str interpreted on malformed texts (an arbitrary unknown name, with and without a parameter; the empty text; every parametrised name without a parameter, with an empty, a non-numeric and a negative one; every parameterless name given a parameter): an error, never some code")
    seen = {}
    for v, atoms, r, it2 in results:
        var = v["name"]
        txt = "".join(a if isinstance(a, str) else "<n>" for a in atoms)
        okd = bool(atoms) and (sum(1 for a in atoms if isinstance(a, strdom.Dec)) == (1 if v["fields"] else 0))
        chk.expect("N1.display", var, okd, "Display of Codes::%s writes %r, which does not carry its parameter exactly once" % (var, txt), sample={"variant": var, "text": txt})
        code = r.fields[0] if (isinstance(r, Agg) and r.variant == "Ok" and r.fields and isinstance(r.fields[0], Agg)) else None
        okr = code is not None and code.variant == var and len(code.fields) == len(v["fields"])
        if okr and v["fields"]:
            p = code.fields[0]
            okr = isinstance(p, AI) and p.aff == (1, 0) and p.dir is not None and p.lo == 0 and p.hi >= (1 << 32)
        chk.expect("N1.roundtrip", var, okr, "Codes::%s prints as %r, which from_str turns into %r" % (var, txt, r), sample={"variant": var, "text": txt})
        seen.setdefault(txt, []).append(var)
    for txt, vars_ in sorted(seen.items()):
        for var in vars_:
            chk.expect("N1.unique", var, len(vars_) == 1, "variants %s print the same text %r" % (vars_, txt))
    for what, atoms, r in rejected:
        chk.expect("N2.reject", what, isinstance(r, Agg) and r.variant == "Err", "from_str accepts %s (%r) and yields %r" % (what, strdom.SStr(atoms), r),
                   sample={"text": repr(strdom.SStr(atoms))} if what.startswith("an unknown") else None)
    return True


def run(chk, F, tier):
    vs = variants(F)
    if not run_text_semantic(chk, F):
        run_text_structural(chk, F, tier)
    # ---- N3 identifiers
    ids = {}
    for path, c in F.consts.items():
        if "::code_consts::" in path and "value" in c:
            ids.setdefault(int(c["value"]), set()).add(path.split("::")[-1])
    chk.rule("N3.consts", floor=51, doc="equal identifier <=> same canonical class")
    cls_of_id = {}
    for v, names in sorted(ids.items()):
        classes = {cc.canon(*cc.const_name_class(n)) for n in names if cc.const_name_class(n)}
        chk.expect("N3.consts", "id=%d" % v, len(classes) == 1 and all(cc.const_name_class(n) for n in names),
                   "identifier %d is shared by constants of different classes: %s" % (v, sorted(names)), sample={"id": v, "names": sorted(names)})
        if len(classes) == 1:
            cls_of_id[v] = list(classes)[0]
    inv = {}
    for v, c in cls_of_id.items():
        inv.setdefault(c, []).append(v)
    for c, vsx in sorted(inv.items(), key=str):
        chk.expect("N3.consts", "class=%s" % (c,), len(vsx) == 1, "class %s has several identifiers %s" % (c, vsx))
    chk.expect("N3.consts", "dense", sorted(ids) == list(range(len(ids))), "identifiers are not 0..=%d: %s" % (len(ids) - 1, sorted(ids)))

    sem = semantic_id_tables(F, vs)
    if sem is not None:
        check_id_tables(chk, sem, cls_of_id, ids)
        run_eq(chk, F)
        return
    chk.rule("N3.to", floor=59, doc="to_code_const arm (V,p) -> id of the same canonical class")
    chk.rule("N3.from", floor=51, doc="from_code_const arm id -> code of that id's class; to(from(id)) = id")
    subject = ("deref", ("arg", 1, "self"))
    to_tab = {}
    to_default_err = False
    for p in mir.walk(F.body("dispatch::codes::Codes::to_code_const")):
        if p.end[0] != "return":
            continue
        key = codes_key(F, p, subject)
        r = p.ret
        isok = isinstance(r, tuple) and r[0] == "agg" and r[3] == "Ok"
        if key[0] == "default" or (key[2] is not None and key[2][0] == "any"):
            if isok:
                chk.bad("N3.to", "default:" + str(key[1:2]), "unsupported code yields an identifier instead of an error")
            else:
                to_default_err = True
            continue
        idv = cc.const_int(r[4][0]) if isok and r[4] else None
        fam, field = cc.VARIANT[key[1]]
        kc = cc.canon(fam, key[2][1] if key[2] else None)
        okk = idv is not None and cls_of_id.get(idv) == kc
        chk.expect("N3.to", "%s" % (key[1:],), okk,
                   "to_code_const maps %s (class %s) to identifier %s whose class is %s" % (key[1:], kc, idv, cls_of_id.get(idv)),
                   sample={"code": str(key[1:]), "id": idv})
        to_tab[(key[1], key[2][1] if key[2] else None)] = idv
    chk.expect("N3.to", "default-is-error", to_default_err, "to_code_const has no error arm for unsupported codes")
    from_seen = set()
    from_default_err = False
    for p in mir.walk(F.body("dispatch::codes::Codes::from_code_const")):
        if p.end[0] != "return":
            continue
        cons = [c for c in p.constraints if is_arg(c[0], 1)]
        r = p.ret
        isok = isinstance(r, tuple) and r[0] == "agg" and r[3] == "Ok"
        if not cons or cons[0][1] != "==":
            if isok:
                chk.bad("N3.from", "default", "out-of-range identifier yields a code instead of an error")
            else:
                from_default_err = True
            continue
        idv = cons[0][2]
        from_seen.add(idv)
        ok2 = False
        what = "not a Codes value"
        if isok and r[4] and r[4][0][0] == "agg" and r[4][0][2] == CODES_ADT:
            var = r[4][0][3]
            pv = cc.const_int(r[4][0][4][0]) if r[4][0][4] else None
            fam, field = cc.VARIANT[var]
            c = cc.canon(fam, pv)
            back = to_tab.get((var, pv))
            ok2 = cls_of_id.get(idv) == c and back == idv
            what = "yields %s{%s} of class %s (identifier's class: %s); to_code_const maps it back to %s" % (var, pv, c, cls_of_id.get(idv), back)
        chk.expect("N3.from", "id=%s" % idv, ok2, "from_code_const(%s) %s" % (idv, what), sample={"id": idv, "what": what})
    chk.expect("N3.from", "default-is-error", from_default_err, "from_code_const has no error arm")
    chk.expect("N3.from", "covers-all-ids", from_seen == set(ids), "from_code_const arms %s != identifiers %s" % (sorted(from_seen), sorted(ids)),
               detail={"missing": sorted(set(ids) - from_seen), "extra": sorted(from_seen - set(ids))})

    run_eq(chk, F)

def run_all(chk, fsets, tier):
    import facts
    run(chk, facts.load(fsets[0]), tier)

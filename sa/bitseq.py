"""Bit-sequence domain (DESIGN.md section 0.9): a machine word is abstracted by the list of its bit fields, most significant
first, each field a slice of a symbolic source with affine bounds:

    ("Z", w)                 w zero bits
    ("O", w)                 w one bits
    ("X", w)                 w bits nobody may rely on (junk)
    ("S", src, lo, w)        bits [lo, lo+w) of the source `src` (bit 0 = least significant bit of the source)

Widths and offsets are numabs.Aff forms over the atoms of the path (space_left, n_bits, trip counts, ...); every comparison
between them is an exact LP entailment against the path's linear store.  Shifts, masks, ORs, casts and rotations are
evaluated structurally; an operation whose cut point cannot be ordered against the field boundaries raises Undecided.
Where bitrange.py tells which positions CAN be non-zero, this domain tells WHICH bit of WHICH source sits at every position:
it decides the layout clauses of C01/C02 (the value of every stored bit as a function of the arguments and the pending bits),
still without running anything.
"""
import lp
from numabs import Aff, le, const


class Undecided(Exception):
    pass


def seg_w(s):
    return s[1] if s[0] in ("Z", "O", "X") else s[3]


def with_w(s, w):
    return (s[0], w) if s[0] in ("Z", "O", "X") else (s[0], s[1], s[2], w)


class Seqs:
    def __init__(self, num, store, entry=None, sources=None):
        self.num = num
        self.store = store
        self.entry = entry or {}        # term -> sequence (entry state of memory cells)
        self.sources = sources or {}    # term -> (source name, width) for opaque values (arguments, fetched words)
        self.cache = {}
        self.memo = {}

    # ---- order ------------------------------------------------------------------
    def ent_le(self, a, b):
        d = a - b
        if d.is_const():
            return d.k <= 0
        key = repr(d)
        r = self.memo.get(key)
        if r is None:
            g = le(a, b)
            r = lp.entails(self.num.close(self.store, [g]), g)
            self.memo[key] = r
        return r

    def ent_eq(self, a, b):
        return self.ent_le(a, b) and self.ent_le(b, a)

    def is_zero_w(self, w):
        return self.ent_le(w, const(0))

    def aff(self, t):
        """affine form of an amount; a cast is the identity when the store shows that the value fits the target type"""
        num = self.num
        if isinstance(t, tuple) and t and t[0] == "cast":
            src = self.aff(t[1])
            wt = num.cfg.width(t[2])
            if src is not None and wt is not None and self.ent_le(src, const((1 << wt) - 1)) and self.ent_le(const(0), src):
                return src
        return num.aff(t)

    # ---- construction -----------------------------------------------------------------
    def norm(self, segs):
        out = []
        for s in segs:
            w = seg_w(s)
            if w.is_const() and w.k <= 0:
                continue
            if not w.is_const() and self.is_zero_w(w):
                continue
            if out:
                p = out[-1]
                if p[0] == s[0] and p[0] in ("Z", "O", "X"):
                    out[-1] = (p[0], p[1] + s[1])
                    continue
                if p[0] == "S" and s[0] == "S" and p[1] == s[1] and self.ent_eq(p[2], s[2] + s[3]):
                    out[-1] = ("S", s[1], s[2], p[3] + s[3])
                    continue
            out.append(s)
        return out

    def total(self, segs):
        t = const(0)
        for s in segs:
            t = t + seg_w(s)
        return t

    def split_low(self, segs, k):
        """(upper, lower) with lower = the k least significant bits"""
        if self.ent_le(k, const(0)):
            return list(segs), []
        lower = []
        c = const(0)
        i = len(segs) - 1
        while i >= 0:
            s = segs[i]
            w = seg_w(s)
            if self.ent_le(k, c):
                break
            if self.ent_le(c + w, k):
                lower.insert(0, s)
                c = c + w
                i -= 1
                continue
            if self.ent_le(c, k) and self.ent_le(k, c + w):
                d = k - c                 # low d bits of s go down, the rest stays up
                if s[0] == "S":
                    lo_part = ("S", s[1], s[2], d)
                    hi_part = ("S", s[1], s[2] + d, w - d)
                else:
                    lo_part, hi_part = with_w(s, d), with_w(s, w - d)
                lower.insert(0, lo_part)
                return self.norm(list(segs[:i]) + [hi_part]), self.norm(lower)
            raise Undecided("cut point %s cannot be ordered against a field boundary (%s .. %s)" % (k, c, c + w))
        if i < 0 and not self.ent_le(k, c):
            # k exceeds the sequence: caller pads
            return [], self.norm(lower)
        return self.norm(list(segs[:i + 1])), self.norm(lower)

    def shl(self, segs, k, W):
        up, low = self.split_low(segs, const(W) - k)
        return self.norm(low + [("Z", k)])

    def shr(self, segs, k, W):
        up, low = self.split_low(segs, k)
        return self.norm([("Z", k)] + up)

    def low_bits(self, segs, k, W):
        up, low = self.split_low(segs, k)
        return self.norm([("Z", const(W) - k)] + low)

    def resize(self, segs, w_from, w_to):
        if w_to == w_from:
            return segs
        if w_to > w_from:
            return self.norm([("Z", const(w_to - w_from))] + list(segs))
        up, low = self.split_low(segs, const(w_to))
        return low

    def reduce_mod(self, k, W):
        """k mod W as an affine form: k - W*m for the integer m with 0 <= k - W*m < W"""
        if self.ent_le(const(0), k) and self.ent_le(k, const(W)):
            return k                  # a rotation by the full width is the identity, like the split at W
        for m in range(0, 130):
            if self.ent_le(const(W * m), k) and self.ent_le(k, const(W * m + W - 1)):
                return k - const(W * m)
        raise Undecided("rotation amount %s cannot be reduced modulo %d" % (k, W))

    def rotr(self, segs, k, W):
        up, low = self.split_low(segs, self.reduce_mod(k, W))
        return self.norm(low + up)

    def rotl(self, segs, k, W):
        up, low = self.split_low(segs, const(W) - self.reduce_mod(k, W))
        return self.norm(low + up)

    def zipw(self, a, b):
        """align two sequences of equal total width: list of (piece_a, piece_b) with equal widths, most significant first"""
        a, b = list(a), list(b)
        out = []
        while a and b:
            x, y = a[-1], b[-1]
            wx, wy = seg_w(x), seg_w(y)
            if self.ent_eq(wx, wy):
                out.insert(0, (x, y))
                a.pop()
                b.pop()
            elif self.ent_le(wx, wy):
                up, low = self.split_low([y], wx)
                out.insert(0, (x, low[0] if low else with_w(y, wx)))
                a.pop()
                b.pop()
                b.extend(up)
            elif self.ent_le(wy, wx):
                up, low = self.split_low([x], wy)
                out.insert(0, (low[0] if low else with_w(x, wy), y))
                b.pop()
                a.pop()
                a.extend(up)
            else:
                raise Undecided("field widths %s and %s cannot be ordered" % (wx, wy))
        if a or b:
            rest = a or b
            if not all(self.is_zero_w(seg_w(s)) for s in rest):
                raise Undecided("sequences of different total width")
        return out

    def bor(self, a, b):
        out = []
        for x, y in self.zipw(a, b):
            if x[0] == "Z":
                out.append(y)
            elif y[0] == "Z":
                out.append(x)
            elif x[0] == "O" or y[0] == "O":
                out.append(("O", seg_w(x)))
            elif x[0] == "X" or y[0] == "X":
                out.append(("X", seg_w(x)))
            elif x[0] == "S" and y[0] == "S" and x[1] == y[1] and self.ent_eq(x[2], y[2]):
                out.append(x)
            else:
                out.append(("X", seg_w(x)))       # two data fields ORed over each other: nobody can rely on the result
        return self.norm(out)

    def band(self, a, b):
        out = []
        for x, y in self.zipw(a, b):
            if x[0] == "Z" or y[0] == "Z":
                out.append(("Z", seg_w(x)))
            elif x[0] == "O":
                out.append(y)
            elif y[0] == "O":
                out.append(x)
            elif x[0] == "S" and y[0] == "S" and x[1] == y[1] and self.ent_eq(x[2], y[2]):
                out.append(x)
            else:
                out.append(("X", seg_w(x)))
        return self.norm(out)

    def bnot(self, a):
        return self.norm([("O", s[1]) if s[0] == "Z" else ("Z", s[1]) if s[0] == "O" else ("X", seg_w(s)) for s in a])

    # ---- terms --------------------------------------------------------------------------
    def width(self, t):
        return self.num.cfg.width(self.num.ty_of(t))

    def seq(self, t):
        if t in self.cache:
            return self.cache[t]
        r = self._seq(t)
        self.cache[t] = r
        return r

    def const_seq(self, v, w):
        if v == 0:
            return [("Z", const(w))]
        if v == (1 << w) - 1:
            return [("O", const(w))]
        # run-length decomposition of the constant, most significant bit first
        out = []
        i = w - 1
        while i >= 0:
            b = (v >> i) & 1
            j = i
            while j >= 0 and ((v >> j) & 1) == b:
                j -= 1
            out.append(("O" if b else "Z", const(i - j)))
            i = j
        return out

    def _seq(self, t):
        num = self.num
        if not isinstance(t, tuple) or not t:
            return None
        if t[0] == "field" and len(t) == 3 and isinstance(t[1], tuple) and t[1] and t[1][0] == "variant" and t[1][2] == "Ok" and str(t[2]) == "0":
            # `match r { Ok(v) => .. }` names the payload that `r?` names ('okval', r)
            return self.seq(("okval", t[1][1]))
        if t in self.entry:
            return self.entry[t]
        if t in self.sources:
            name, w = self.sources[t]
            return [("S", name, const(0), const(w))]
        k = t[0]
        if k == "havoc" and getattr(self, "own_rest", None) is not None and t[-1] == "buffer'":
            return self.own_rest          # the buffer after an own-method call whose contract the caller supplied
        W = self.width(t)
        if k == "const":
            if isinstance(t[1], bool) or not isinstance(t[1], int) or W is None:
                return None
            return self.const_seq(t[1] & ((1 << W) - 1), W)
        if k == "uneval":
            nm = t[1].split("::")[-1]
            if W is None:
                return None
            if nm == "ZERO":
                return [("Z", const(W))]
            if nm == "ONE":
                return self.const_seq(1, W)
            if nm == "MAX":
                return [("O", const(W))]
            return None
        if k == "cast":
            s = self.seq(t[1])
            ws, wt = self.width(t[1]), num.cfg.width(t[2])
            if ws is None and s is not None:
                tot = self.total(s)
                ws = int(tot.k) if tot.is_const() else None
            if s is None or ws is None or wt is None:
                return None
            return self.resize(s, ws, wt)
        if k == "wordop":
            if t[1] in ("to_be", "to_le"):
                return self.seq(t[2])
            if t[1] in ("rotate_right", "rotate_left") and len(t) > 3:
                s, kk, w = self.seq(t[2]), self.aff(t[3]), self.width(t[2])
                if w is None and s is not None:
                    tot = self.total(s)
                    w = int(tot.k) if tot.is_const() else None
                if s is None or kk is None or w is None:
                    return None
                return self.rotr(s, kk, w) if t[1] == "rotate_right" else self.rotl(s, kk, w)
            return None
        if k == "binop":
            op = t[1]
            if op in ("Shl", "ShlUnchecked", "Shr", "ShrUnchecked"):
                kk, w = self.aff(t[3]), self.width(t[2])
                inner = t[2]
                # x >> a >> c (the idiom for a shift by a+c that may equal the width) is one shift by a+c: bits leave the word
                # in both formulations, and split_low treats an amount >= width as "everything"
                while kk is not None and isinstance(inner, tuple) and inner and inner[0] == "binop" and inner[1][:3] == op[:3] and self.width(inner[2]) == w:
                    k2 = self.aff(inner[3])
                    if k2 is None or not self.ent_le(const(0), k2) or not self.ent_le(const(0), kk):
                        break
                    kk = kk + k2
                    inner = inner[2]
                s = self.seq(inner)
                if w is None and s is not None:
                    tot = self.total(s)
                    w = int(tot.k) if tot.is_const() else None
                if s is None or kk is None or w is None:
                    return None
                return self.shl(s, kk, w) if op.startswith("Shl") else self.shr(s, kk, w)
            if op in ("BitOr", "BitAnd"):
                a, b = self.seq(t[2]), self.seq(t[3])
                if a is None or b is None:
                    return None
                return self.bor(a, b) if op == "BitOr" else self.band(a, b)
            if op == "Sub" and ((t[3][0] == "const" and t[3][1] == 1) or (t[3][0] == "uneval" and t[3][1].endswith("::ONE"))) and t[2][0] == "binop" and t[2][1] == "Shl":
                one = self.seq(t[2][2])
                kk = self.aff(t[2][3])
                w = self.width(t[2][2])
                if one is not None and kk is not None and w is not None and self.same(one, self.const_seq(1, w)):
                    return self.norm([("Z", const(w) - kk), ("O", kk)])
            return None
        if k == "ret":
            # operator-trait calls on word types (generic code): same meaning as the primitive operator
            ops = {"std::ops::Shl::shl": "Shl", "std::ops::Shr::shr": "Shr", "std::ops::Sub::sub": "Sub", "std::ops::BitAnd::bitand": "BitAnd",
                   "std::ops::BitOr::bitor": "BitOr"}
            for e in getattr(num, "ctx_events", []):
                if e[0] == "call" and e[3] == t:
                    args = e[8] if len(e) > 8 and e[8] else e[2]
                    if e[1] in ops and len(args) == 2:
                        return self._seq_as(("binop", ops[e[1]], args[0], args[1]), t)
                    if e[1] == "std::ops::Not::not" and len(args) == 1:
                        return self._seq_as(("unop", "Not", args[0]), t)
            return None
        if k == "unop" and t[1] == "Not":
            s = self.seq(t[2])
            return None if s is None else self.bnot(s)
        return None

    def _seq_as(self, t2, orig):
        """evaluate the operator term t2 that stands for the call result `orig` (whose type gives the width)"""
        W = self.width(orig)
        op = t2[1]
        if t2[0] == "unop":
            s = self.seq(t2[2])
            return None if s is None else self.bnot(s)
        a, b = t2[2], t2[3]
        if op in ("Shl", "Shr"):
            s, kk = self.seq(a), self.aff(b)
            if s is None or kk is None or W is None:
                return None
            return self.shl(s, kk, W) if op == "Shl" else self.shr(s, kk, W)
        if op in ("BitAnd", "BitOr"):
            x, y = self.seq(a), self.seq(b)
            if x is None or y is None:
                return None
            return self.band(x, y) if op == "BitAnd" else self.bor(x, y)
        if op == "Sub":
            # (ONE << n) - ONE: the mask of the n low bits
            sb = self.seq(b)
            sa = self.seq(a)
            if W is not None and sa is not None and sb is not None and self.same(sb, self.const_seq(1, W)):
                # sa must be a single one bit at an affine position n: Z(W-1-n) O(1) Z(n)
                sa = self.norm(sa)
                if len(sa) in (2, 3) and sa[-1][0] == "Z" and sa[-2][0] == "O" and sa[-2][1].is_const() and sa[-2][1].k == 1:
                    n = sa[-1][1]
                    return self.norm([("Z", const(W) - n), ("O", n)])
                if len(sa) in (1, 2) and sa[-1][0] == "O" and sa[-1][1].is_const() and sa[-1][1].k == 1:
                    return [("Z", const(W))]
            return None
        return None

    # ---- comparison ---------------------------------------------------------------------------
    def same(self, a, b):
        """a delivers what b requires: fields of b marked X are not compared"""
        try:
            pairs = self.zipw(self.norm(a), self.norm(b))
        except Undecided:
            return False
        for x, y in pairs:
            if y[0] == "X":
                continue
            if x[0] != y[0]:
                return False
            if x[0] == "S" and not (x[1] == y[1] and self.ent_eq(x[2], y[2])):
                return False
        return True

    def fmt(self, segs):
        if segs is None:
            return "?"
        out = []
        for s in segs:
            if s[0] == "S":
                out.append("%s[%s +: %s]" % (s[1], s[2], s[3]))
            else:
                out.append("%s(%s)" % (s[0], s[1]))
        return " ".join(out) or "(empty)"

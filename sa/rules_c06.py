"""C06 — length functions = bits written: L1 length tables, L2/L3 symbolic `len_* == value returned by write_*`
(primitives replaced by their contracts), L5 every length dispatcher names the len function of its code."""
from fractions import Fraction

import mir
import codeclass as cc
import rules_tables as rt
import rules_c10
import rules_num as rn

# how a nested write contributes to the returned count (contract of the callee)
WRITE_TO_LEN = {
    "codes::gamma::GammaWrite::write_gamma": "len_gamma", "codes::gamma::GammaWriteParam::write_gamma_param": "len_gamma",
    "codes::minimal_binary::MinimalBinaryWrite::write_minimal_binary": "len_minimal_binary",
    "codes::rice::RiceWrite::write_rice": "len_rice",
}
LEN_NAMES = {
    "codes::gamma::len_gamma": "len_gamma", "codes::gamma::len_gamma_param": "len_gamma",
    "codes::minimal_binary::len_minimal_binary": "len_minimal_binary", "codes::rice::len_rice": "len_rice",
}

PAIRS = [
    # code, writer body finder, len body path, (writer value/param arg indices), (len arg indices)
    ("gamma", rn.NONTABLE["gamma.write"], "codes::gamma::len_gamma_param", (2,), (1,)),
    ("delta", rn.NONTABLE["delta.write"], "codes::delta::len_delta_param", (2,), (1,)),
    ("zeta", rn.NONTABLE["zeta.write"], "codes::zeta::len_zeta_param", (2, 3), (1, 2)),
    ("minimal_binary", dict(path="codes::minimal_binary::MinimalBinaryWrite::write_minimal_binary"), "codes::minimal_binary::len_minimal_binary", (2, 3), (1, 2)),
    ("pi", dict(path="codes::pi::PiWrite::write_pi"), "codes::pi::len_pi", (2, 3), (1, 2)),
    ("rice", dict(path="codes::rice::RiceWrite::write_rice"), "codes::rice::len_rice", (2, 3), (1, 2)),
    ("golomb", dict(path="codes::golomb::GolombWrite::write_golomb"), "codes::golomb::len_golomb", (2, 3), (1, 2)),
    ("exp_golomb", dict(path="codes::exp_golomb::ExpGolombWrite::write_exp_golomb"), "codes::exp_golomb::len_exp_golomb", (2, 3), (1, 2)),
]


def norm(t, p, argmap, depth=0):
    """normalise a term: expand calls, strip integer casts and const types, rename arguments positionally,
    replace nested writes by the len function their contract names"""
    if not isinstance(t, tuple) or not t or depth > 40:
        return t
    k = t[0]
    if k == "cast":
        return norm(t[1], p, argmap, depth + 1)
    if k == "const":
        return ("const", t[1])
    if k == "arg":
        return ("A", argmap.get(t[1], "arg%d" % t[1]))
    if k == "okval":
        r = t[1]
        ev = None
        if isinstance(r, tuple) and r[0] == "ret":
            for e in p.events:
                if e[0] == "call" and e[3] == r:
                    ev = e
        if ev is not None:
            nm = ev[1]
            if nm == "traits::bits::BitWrite::write_unary":
                return ("binop", "Add", norm(ev[8][1], p, argmap, depth + 1), ("const", 1))
            if nm == "traits::bits::BitWrite::write_bits":
                return norm(ev[8][2], p, argmap, depth + 1)
            if nm in WRITE_TO_LEN:
                return ("app", WRITE_TO_LEN[nm], tuple(norm(a, p, argmap, depth + 1) for a in ev[8][1:]))
        return ("okval", norm(r, p, argmap, depth + 1))
    if k == "ret":
        for e in p.events:
            if e[0] == "call" and e[3] == t:
                nm = LEN_NAMES.get(e[1], e[1])
                return ("app", nm, tuple(norm(a, p, argmap, depth + 1) for a in e[8]))
        return t
    if k in ("ref", "deref") and isinstance(t[1], tuple) and t[1] and t[1][0] in ("ref", "deref", "uneval", "index"):
        return norm(t[1], p, argmap, depth + 1) if k == "ref" and t[1][0] == "deref" else tuple(norm(x, p, argmap, depth + 1) if isinstance(x, tuple) else x for x in t)
    return tuple(norm(x, p, argmap, depth + 1) if isinstance(x, tuple) else x for x in t)


def lin(t):
    """linear form {atom: coeff} + const of a normalised term"""
    if isinstance(t, tuple) and t:
        if t[0] == "const" and isinstance(t[1], int) and not isinstance(t[1], bool):
            return {}, Fraction(t[1])
        if t[0] == "binop" and t[1] in ("Add", "Sub"):
            a, ka = lin(t[2])
            b, kb = lin(t[3])
            s = 1 if t[1] == "Add" else -1
            out = dict(a)
            for x, c in b.items():
                out[x] = out.get(x, 0) + s * c
            return {x: c for x, c in out.items() if c != 0}, ka + s * kb
        if t[0] == "binop" and t[1] == "Mul":
            a, ka = lin(t[2])
            b, kb = lin(t[3])
            if not a:
                return {x: c * ka for x, c in b.items()}, ka * kb
            if not b:
                return {x: c * kb for x, c in a.items()}, ka * kb
    return {t: Fraction(1)}, Fraction(0)


def guards(p, argmap):
    out = []
    for (t, op, v) in p.constraints:
        if t[0] == "cparam" or (t[0] == "discr"):
            continue
        nt = norm(t, p, argmap)
        truth = (op == "notin" and tuple(v) == (0,)) or (op == "==" and v == 1)
        if nt[0] == "binop" and nt[1] in ("Lt", "Ge", "Le", "Gt", "Eq", "Ne"):
            # canonical orientation: express as (Lt|Le|Eq, a, b, truth)
            o, a, b = nt[1], nt[2], nt[3]
            if o == "Ge":
                o, truth = "Lt", not truth
            elif o == "Gt":
                o, truth = "Le", not truth
            elif o == "Ne":
                o, truth = "Eq", not truth
            out.append((o, str(a), str(b), truth))
        else:
            out.append(("raw", str(nt), op, str(v)))
    return frozenset(out)


def run_len_equals_return(chk, F, rule="L3.len_eq_return"):
    chk.rule(rule, floor=8, doc="for 8 codes: on every path, the value returned by the writer (primitive writes replaced by their contracts: write_bits(_, n) -> n, write_unary(v) -> v+1, nested code -> its len function) equals the value of the len function as a linear form over the same terms, under the same guards")
    for code, wfind, lpath, wargs, largs in PAIRS:
        import rules_num as rn
        if isinstance(wfind, tuple):
            wb, wgen = rn.find_body(F, wfind[0]), wfind[1]
        else:
            wb, wgen = F.body(wfind["path"]), {}
        lb = F.body(lpath)
        wmap = {a: i for i, a in enumerate(wargs)}
        lmap = {a: i for i, a in enumerate(largs)}
        wsig, lsig = {}, {}
        probs = []
        for p in mir.walk_inline(wb, F, gen_map=wgen):
            r = p.ret
            if p.end[0] != "return" or not (isinstance(r, tuple) and r[0] == "agg" and r[3] == "Ok"):
                continue
            g = frozenset(x for x in guards(p, wmap))
            wsig[g] = lin(norm(r[4][0], p, wmap))
            # L2: every primitive/nested write on the path contributes (its okval appears in the result, or the explicit value equals its contract)
        for p in mir.walk(lb):
            if p.end[0] != "return":
                continue
            # skip table paths of the *_param functions (they return a LEN entry, checked by L1)
            if any(e[1].endswith("::get") for e in p.calls()):
                continue
            g = frozenset(x for x in guards(p, lmap) if not (x[0] == "raw" and "cparam" in x[1]))
            lsig[g] = lin(norm(p.ret, p, lmap))
        def fmtsig(s):
            co, k = s
            return " + ".join("%s*%s" % (c, str(a)[:60]) for a, c in sorted(co.items(), key=str)) + " + %s" % k
        # the len function may have a `max == 0 -> 0` style early exit absent from the writer: compare guards the writer has
        ok = bool(wsig)
        for g, s in wsig.items():
            cand = [ls for lg, ls in lsig.items() if g <= lg or lg <= g or _compatible(g, lg)]
            if not any(c == s for c in cand):
                ok = False
                probs.append("writer path %s returns %s; len function offers %s" % (sorted(g)[:2], fmtsig(s), [fmtsig(c) for c in cand][:3] or [fmtsig(x) for x in lsig.values()][:3]))
        if not ok:
            # the two are not written as the same expression: that is a violation only if their values differ somewhere
            import rules_ivl
            okv, text = rules_ivl.len_eq_all_params(F, "default", code)
            if okv:
                chk.ok(rule, code, sample={"code": code, "shape": "expressions differ", "decided_by": text})
                continue
        chk.expect(rule, code, ok, "code %s: the length function %s and the value returned by the writer differ as symbolic expressions: %s" % (code, lpath, "; ".join(probs)[:600]),
                   detail={"code": code, "problems": probs[:3]}, sample={"code": code, "writer_paths": len(wsig), "len_paths": len(lsig)})


def _compatible(g1, g2):
    """guards agree on every comparison they share (same operator and operands)"""
    d1 = {(x[0], x[1], x[2]): x[3] for x in g1 if x[0] != "raw"}
    d2 = {(x[0], x[1], x[2]): x[3] for x in g2 if x[0] != "raw"}
    shared = set(d1) & set(d2)
    if not shared and (d1 and d2):
        return False
    return all(d1[k] == d2[k] for k in shared)


def run_dispatch(chk, F):
    """L5: the three length dispatchers (C10.D1 machinery restricted to len)"""
    sub = type(chk)(chk.pid, chk.tier, chk.level, chk.explanation)
    rules_c10.run(sub, F, chk.tier)
    for name, r in sub.rules.items():
        if name.endswith(".len") or name.startswith("D1.FuncCodeLen"):
            rr = chk.rule("L5." + name, floor=r["floor"], doc=r["doc"])
            rr["instances"] += r["instances"]
            rr["ok"] += r["ok"]
            chk.keys.update(("L5." + name, k) for (n2, k) in sub.keys if n2 == name)
    for v in sub.violations:
        if ".len|" in v["key"] or "FuncCodeLen" in v["key"]:
            chk.violations.append(dict(v, key=v["key"].replace("C10|", "C06|L5.")))


def run_all(chk, fsets, tier):
    import facts
    F = facts.load(fsets[0])
    chk.extra["programs"] = 3 + 8
    rt.check_encode_tables(chk, F, rule="L1.write_len", len_rule="L1.len")
    run_len_equals_return(chk, F)
    run_dispatch(chk, F)
    import rules_ivl
    rules_ivl.run_c06(chk, F, fsets[0], tier)
    rules_ivl.run_golomb(chk, F, fsets[0], tier, "C06")
    chk.trust("rustc MIR/const evaluation, exporter, refcodes.py, the primitive contracts write_bits -> n and write_unary -> v+1 (verified on the writers by C01.W5)")

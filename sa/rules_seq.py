"""Layout clauses decided with the bit-sequence domain (sa/bitseq.py).

Writer (C01.W6): with P the pending bits at entry (pw = W - space_left of them) and F the field appended by the call
(write_bits: the n low bits of `value`; write_unary: v zeros and a one; flush: zero padding to the word boundary), every word
handed to the backend is exactly the next W bits of P ++ F in stream order, and the bits left in the buffer are exactly the rest,
in the positions the next call expects them.  Big-endian streams fill words from the most significant bit, little-endian ones
from the least significant bit; inside `value` the field is the contiguous slice [0, n) in both.
"""
import lp
import mir
import numabs
import contracts
import rules_num as rn
import rules_effects as re_
import bitseq
from bitseq import Seqs, Undecided
from numabs import const

G_WW = re_.G_WW


def seq_contracts():
    C = re_.ghost_contracts()
    base = C["traits::words::WordWrite::write_word"].get("ghost")

    def log_word(w, st, args):
        mem = st["mem"]
        idx = len([k for k in mem if isinstance(k, tuple) and len(k) == 3 and k[:2] == ("ghost", "wordlog")])
        mem[("ghost", "wordlog", idx)] = ("tuple", (args[1], mem.get(G_WW, G_WW)))
        if base:
            base(w, st, args)
    C["traits::words::WordWrite::write_word"] = dict(C["traits::words::WordWrite::write_word"], ghost=log_word)
    return C


def slice_of(S, big, lo, width):
    up, low = S.split_low(big, lo + width)
    up2, low2 = S.split_low(low, lo)
    return up2


def writer_field(nm, e, num, w, base_arg):
    """(field sequence most significant first, its length) appended by the call, positional"""
    if nm == "write_bits":
        n = num.aff(("arg", 3, "arg3"))
        return [("S", "value", const(0), n)], n
    if nm == "write_unary":
        v = num.aff(("arg", 2, "arg2"))
        zeros, one = ("Z", v), ("O", const(1))
        return ([zeros, one] if e == "be" else [one, zeros]), v + const(1)
    return None, None


def run_writer_content(chk, F, fs, rule="W6.content", names=("write_bits", "write_unary", "flush"), widths=None):
    C = seq_contracts()
    for spec in rn.writer_specs():
        nm = spec.key.split(".")[-1]
        if nm not in names or spec.group is not None:
            continue
        e = "be" if ".be." in spec.key else "le"
        base_arg = spec.self_base
        BUF = ("field", ("deref", base_arg), "buffer")
        SPACE = ("field", ("deref", base_arg), "space_left_in_buffer")
        for w in spec.widths:
            if widths is not None and w not in widths:
                continue
            b = rn.find_body(F, spec.find)

            def assume(num, spec=spec, w=w):
                out = []
                for text, goals in spec.inv(num, w):
                    out.extend(goals)
                out.extend(spec.pre(num, w))
                return out
            wk = numabs.NumWalker(b, numabs.Cfg(w), F, C, assume)
            wk.inline = spec.inline
            wk.gen_map = dict(getattr(spec, "gen", None) or {})
            if nm == "write_bits":
                # at most 64 / W + 1 words leave in one call: bounded unrolling gives every word its own path position
                wk.loops = {}
                wk.unroll = 64 // w + 2
            paths = wk.run()
            num = wk.num
            res = {"words": [True, None, 0], "buffer": [True, None, 0]}
            for p in paths:
                if p.end[0] not in ("return", "back"):
                    continue
                if p.end[0] == "return" and re_.ok_value(p) is None:
                    continue
                store = wk.full_store(p.state)
                if not lp.feasible_cached(store):
                    continue
                num.ctx_events = p.state["events"]
                num.ctx_cons = p.state["cons"]
                num.ctx_mem = p.mem
                sl0 = num.aff(SPACE)
                pw0 = const(w) - sl0
                pend = ("S", "P", const(0), pw0)
                junk = ("X", sl0)
                entry = {BUF: [junk, pend] if e == "be" else [pend, junk]}
                S = Seqs(num, store, entry, {("arg", 2, "arg2"): ("value", 64)})
                if nm.startswith("flush"):
                    # padding to the word boundary: nothing when nothing is pending
                    if S.ent_eq(sl0, const(w)):
                        field, flen = [], const(0)
                    elif S.ent_le(sl0, const(w - 1)):
                        field, flen = [("Z", sl0)], sl0
                    else:
                        continue
                else:
                    field, flen = writer_field(nm, e, num, w, base_arg)
                big = ([pend] + field) if e == "be" else (field + [pend])
                L = pw0 + flen
                ww0 = num.aff(G_WW)
                try:
                    big = S.norm(big)
                    logs = sorted((k[2], v) for k, v in p.mem.items() if isinstance(k, tuple) and len(k) == 3 and k[:2] == ("ghost", "wordlog"))
                    for idx, v in logs:
                        if not (isinstance(v, tuple) and v[0] == "tuple" and len(v[1]) == 2):
                            continue
                        word, before = v[1]
                        j = num.aff(before)
                        if j is None:
                            raise Undecided("word count before a write_word is not affine")
                        j = j - ww0
                        lo = (L - (j + const(1)).scale(w)) if e == "be" else j.scale(w)
                        want = slice_of(S, big, lo, const(w))
                        got = S.seq(word)
                        res["words"][2] += 1
                        if got is None or not S.same(got, want):
                            if res["words"][0]:
                                res["words"][0] = False
                                res["words"][1] = "word #%s delivered to the backend is %s; the stream requires %s" % (idx, S.fmt(got), S.fmt(want))
                    if p.end[0] == "return":
                        k = num.aff(p.mem.get(G_WW, G_WW)) - ww0
                        sl1 = num.aff(p.mem.get(SPACE, SPACE))
                        pw1 = const(w) - sl1
                        rest_len = L - k.scale(w)
                        buf1 = S.seq(p.mem.get(BUF, BUF))
                        res["buffer"][2] += 1
                        okb = buf1 is not None and S.ent_eq(pw1, rest_len)
                        if okb:
                            if e == "be":
                                up, want = S.split_low(big, rest_len)
                                upb, got = S.split_low(buf1, pw1)
                            else:
                                want, low = S.split_low(big, k.scale(w))
                                got, lowb = S.split_low(buf1, sl1)
                            okb = S.same(got, want)
                        if not okb and res["buffer"][0]:
                            res["buffer"][0] = False
                            res["buffer"][1] = "buffer after the call is %s with %s pending bits; the stream requires the pending bits to be %s" % (
                                S.fmt(buf1), pw1, S.fmt(want) if buf1 is not None and S.ent_eq(pw1, rest_len) else "%s bits" % rest_len)
                except Undecided as ex:
                    import os, traceback
                    if os.environ.get("SEQ_DEBUG"):
                        traceback.print_exc()
                    for kk in ("words", "buffer"):
                        if res[kk][0]:
                            res[kk][0] = False
                            res[kk][1] = "layout cannot be decided on a path: %s" % ex
            key0 = "%s@u%d%s" % (spec.key, w, "" if fs == "default" else "@" + fs)
            for kk in ("words", "buffer"):
                ok, why, n = res[kk]
                if kk == "words" and n == 0 and nm in ("write_bits", "write_unary") and False:
                    continue
                chk.expect(rule, key0 + "|" + kk, ok and (n > 0 or kk == "words"),
                           "%s, word u%d: %s" % (b["path"], w, why or "no path analysed"),
                           detail={"fn": b["path"], "cfg": "u%d" % w, "clause": kk, "why": why},
                           sample={"fn": spec.key, "cfg": "u%d" % w, "clause": kk, "checked": n} if w in (8, 64) else None)


# ---- reader ---------------------------------------------------------------------------------------------------------------
def run_reader_content(chk, F, fs, rule="R7.content", names=("read_bits", "peek_bits", "skip_bits", "skip_bits_after_peek"), widths=None):
    """BufBitReader: with Bf the buffered bits at entry (b of them) and w_0, w_1, ... the words fetched by the call, in order,
    the upcoming stream is U = Bf ++ w_0 ++ w_1 ...; the value returned is exactly the first n bits of U (zero-extended), and the
    buffer afterwards holds exactly the rest of U in its valid window and zeros elsewhere.  Big-endian: first bit = most
    significant; little-endian: first bit = least significant."""
    C = seq_contracts()
    for spec in rn.reader_specs():
        parts = spec.key.split(".")
        if parts[0] != "reader" or parts[2] not in names or spec.group is not None:
            continue
        e, nm = parts[1], parts[2]
        BUF = ("field", ("deref", rn.SELF), "buffer")
        BITS = ("field", ("deref", rn.SELF), "bits_in_buffer")
        for w in spec.widths:
            if widths is not None and w not in widths:
                continue
            b = rn.find_body(F, spec.find)

            def assume(num, spec=spec, w=w):
                out = []
                for text, goals in spec.inv(num, w):
                    out.extend(goals)
                out.extend(spec.pre(num, w))
                return out
            wk = numabs.NumWalker(b, numabs.Cfg(w), F, C, assume)
            wk.inline = spec.inline
            wk.gen_map = dict(getattr(spec, "gen", None) or {})
            wk.loops = {}
            wk.unroll = 64 // w + 2
            paths = wk.run()
            num = wk.num
            res = {"result": [True, None, 0], "buffer": [True, None, 0]}
            returns_result = nm != "skip_bits_after_peek"
            for p in paths:
                if p.end[0] != "return":
                    continue
                if returns_result and re_.ok_value(p) is None:
                    continue
                store = wk.full_store(p.state)
                if not lp.feasible_cached(store):
                    continue
                num.ctx_events = p.state["events"]
                num.ctx_cons = p.state["cons"]
                num.ctx_mem = p.mem
                b0 = num.aff(BITS)
                W2 = 2 * w
                bf = ("S", "Bf", const(0), b0)
                pad = ("Z", const(W2) - b0)
                entry = {BUF: [bf, pad] if e == "be" else [pad, bf]}
                words = [ev for ev in p.calls() if ev[1] == "traits::words::WordRead::read_word"]
                sources = {}
                for i, ev in enumerate(words):
                    sources[("okval", ev[3])] = ("w%d" % i, w)
                S = Seqs(num, store, entry, sources)
                n = num.aff(("arg", 2, "arg2"))
                wsegs = [("S", "w%d" % i, const(0), const(w)) for i in range(len(words))]
                U = ([bf] + wsegs) if e == "be" else (list(reversed(wsegs)) + [bf])
                LU = b0 + const(w * len(words))
                try:
                    U = S.norm(U)
                    if nm == "skip_bits":
                        # words skipped whole are fetched and discarded: nothing of them may remain
                        pass
                    consumed = const(0) if nm == "peek_bits" else n
                    rest_len = LU - consumed
                    if e == "be":
                        up, rest = S.split_low(U, rest_len)
                        first = slice_of(S, U, LU - n, n) if nm in ("read_bits", "peek_bits") else None
                    else:
                        rest, low = S.split_low(U, consumed)
                        first = slice_of(S, U, const(0), n) if nm in ("read_bits", "peek_bits") else None
                    if first is not None:
                        r = re_.ok_value(p)
                        rw = S.width(r)
                        got = S.seq(r)
                        res["result"][2] += 1
                        want = S.norm([("Z", const(rw) - n)] + first) if rw else None
                        if got is None or want is None or not S.same(got, want):
                            if res["result"][0]:
                                res["result"][0] = False
                                res["result"][1] = "with %d word(s) fetched the value returned is %s; the stream requires %s" % (len(words), S.fmt(got), S.fmt(want))
                    b1 = num.aff(p.mem.get(BITS, BITS))
                    buf1 = S.seq(p.mem.get(BUF, BUF))
                    res["buffer"][2] += 1
                    okb = buf1 is not None and S.ent_eq(b1, rest_len)
                    want = None
                    if okb:
                        want = S.norm(rest + [("Z", const(W2) - rest_len)]) if e == "be" else S.norm([("Z", const(W2) - rest_len)] + rest)
                        okb = S.same(buf1, want)
                    if not okb and res["buffer"][0]:
                        res["buffer"][0] = False
                        res["buffer"][1] = "with %d word(s) fetched the buffer after the call is %s with %s valid bits; the stream requires %s" % (
                            len(words), S.fmt(buf1), b1, S.fmt(want) if want is not None else "%s valid bits" % rest_len)
                except Undecided as ex:
                    import os, traceback
                    if os.environ.get("SEQ_DEBUG"):
                        traceback.print_exc()
                    for kk in ("result", "buffer"):
                        if res[kk][0]:
                            res[kk][0] = False
                            res[kk][1] = "layout cannot be decided on a path: %s" % ex
            key0 = "%s@u%d%s" % (spec.key, w, "" if fs == "default" else "@" + fs)
            for kk in ("result", "buffer"):
                ok, why, cnt = res[kk]
                if kk == "result" and nm not in ("read_bits", "peek_bits"):
                    continue
                chk.expect(rule, key0 + "|" + kk, ok and cnt > 0, "%s, word u%d: %s" % (b["path"], w, why or "no path analysed"),
                           detail={"fn": b["path"], "cfg": "u%d" % w, "clause": kk, "why": why},
                           sample={"fn": spec.key, "cfg": "u%d" % w, "clause": kk, "paths": cnt} if w in (8, 64) else None)


def loop_words(t, acc=None, depth=0):
    """havoc'd loop-carried locals mentioned by a term"""
    acc = [] if acc is None else acc
    if isinstance(t, tuple) and t and depth < 40:
        if t[0] == "havoc" and len(t) >= 5 and isinstance(t[4], str) and not t[4].endswith("'"):
            acc.append(t)
        else:
            for x in t:
                loop_words(x, acc, depth + 1)
    return acc


def carried_word(body, paths, name):
    """at every back edge the local called `name` holds the byte-order-converted result of the last read_word of that iteration"""
    ids = [l["id"] for l in body["locals"] if l.get("name") == name]
    n = 0
    for p in paths:
        if p.end[0] != "back":
            continue
        rw = [ev for ev in p.calls() if ev[1] == "traits::words::WordRead::read_word"]
        if not rw:
            return False
        want = ("okval", rw[-1][3])
        vals = [p.state["env"].get(i) for i in ids if p.state["env"].get(i) is not None]
        if not vals:
            return False
        for v in vals:
            while isinstance(v, tuple) and v and v[0] in ("wordop", "cast") and v[1] in ("to_be", "to_le") or (isinstance(v, tuple) and v and v[0] == "cast"):
                v = v[2] if v[0] == "wordop" else v[1]
            if v != want:
                return False
        n += 1
    return n > 0


def run_reader_unary_content(chk, F, fs, rule="R7.content", widths=None):
    """read_unary: the buffer afterwards holds exactly the bits of the stream that follow the terminating one (result + 1 bits are
    consumed), in its valid window, and zeros elsewhere.  (That the consumed bits are `result` zeros and a one is the contract of
    leading_zeros / trailing_zeros; how many are consumed is R3.)"""
    C = seq_contracts()
    for spec in rn.reader_specs():
        parts = spec.key.split(".")
        if parts[0] != "reader" or parts[2] != "read_unary":
            continue
        e = parts[1]
        BUF = ("field", ("deref", rn.SELF), "buffer")
        BITS = ("field", ("deref", rn.SELF), "bits_in_buffer")
        for w in spec.widths:
            if widths is not None and w not in widths:
                continue
            b = rn.find_body(F, spec.find)

            def assume(num, spec=spec, w=w):
                out = []
                for text, goals in spec.inv(num, w):
                    out.extend(goals)
                out.extend(spec.pre(num, w))
                return out
            wk = numabs.NumWalker(b, numabs.Cfg(w), F, C, assume)
            wk.inline = spec.inline
            wk.gen_map = dict(getattr(spec, "gen", None) or {})
            paths = wk.run()
            num = wk.num
            ok, why, cnt = True, None, 0
            for p in paths:
                if p.end[0] != "return" or re_.ok_value(p) is None:
                    continue
                store = wk.full_store(p.state)
                if not lp.feasible_cached(store):
                    continue
                num.ctx_events = p.state["events"]
                num.ctx_cons = p.state["cons"]
                num.ctx_mem = p.mem
                b0 = num.aff(BITS)
                W2 = 2 * w
                bf = ("S", "Bf", const(0), b0)
                pad = ("Z", const(W2) - b0)
                entry = {BUF: [bf, pad] if e == "be" else [pad, bf]}
                words = [ev for ev in p.calls() if ev[1] == "traits::words::WordRead::read_word"]
                m = num.aff(p.mem.get(re_.G_WP, re_.G_WP)) - num.aff(re_.G_WP)      # words fetched (with the loop's trip count)
                sources = {}
                if words:
                    sources[("okval", words[-1][3])] = ("wlast", w)
                # a loop-carried local that holds, after every iteration, the word fetched last (`word = read_word()?` at the end of
                # the loop body): after the loop it is the most recently fetched word, whichever iteration that was
                for hv in loop_words(p.mem.get(BUF, BUF)):
                    if carried_word(b, paths, hv[4]):
                        sources[hv] = ("wlast", w)
                S = Seqs(num, store, entry, sources)
                r = num.aff(re_.ok_value(p))
                try:
                    if r is None or m is None:
                        raise Undecided("result or word count not affine")
                    consumed = r + const(1)
                    LU = b0 + m.scale(w)
                    if words:
                        mid = ("X", (m - const(1)).scale(w))
                        last = ("S", "wlast", const(0), const(w))
                        U = [bf, mid, last] if e == "be" else [last, mid, bf]
                    else:
                        U = [bf]
                    U = S.norm(U)
                    rest_len = LU - consumed
                    if e == "be":
                        up, rest = S.split_low(U, rest_len)
                        want = S.norm(rest + [("Z", const(W2) - rest_len)])
                    else:
                        rest, low = S.split_low(U, consumed)
                        want = S.norm([("Z", const(W2) - rest_len)] + rest)
                    b1 = num.aff(p.mem.get(BITS, BITS))
                    buf1 = S.seq(p.mem.get(BUF, BUF))
                    cnt += 1
                    if not (buf1 is not None and S.ent_eq(b1, rest_len) and S.same(buf1, want)) and ok:
                        ok = False
                        why = "with %s word(s) fetched the buffer after the call is %s with %s valid bits; the stream requires %s" % (m, S.fmt(buf1), b1, S.fmt(want))
                except Undecided as ex:
                    import os, traceback
                    if os.environ.get("SEQ_DEBUG"):
                        traceback.print_exc()
                    if ok:
                        ok, why = False, "layout cannot be decided on a path: %s" % ex
            key0 = "%s@u%d%s" % (spec.key, w, "" if fs == "default" else "@" + fs)
            chk.expect(rule, key0 + "|buffer", ok and cnt > 0, "%s, word u%d: %s" % (b["path"], w, why or "no path analysed"),
                       detail={"fn": b["path"], "cfg": "u%d" % w, "why": why}, sample={"fn": spec.key, "cfg": "u%d" % w, "paths": cnt} if w in (8, 64) else None)


# ---- parallel front end --------------------------------------------------------------------------------------------------
class _Collect:
    """stands in for report.Check inside a worker: records expect() calls"""
    def __init__(self):
        self.items = []

    def expect(self, rule, key, cond, what, detail=None, sample=None):
        self.items.append((rule, key, bool(cond), what, detail, sample))
        return cond


_FACTS = {}


def _job(job):
    kind, fs, rule, name, w = job
    F = _FACTS[fs]
    c = _Collect()
    try:
        if kind == "writer":
            run_writer_content(c, F, fs, rule=rule, names=(name,), widths=(w,))
        elif kind == "reader":
            run_reader_content(c, F, fs, rule=rule, names=(name,), widths=(w,))
        elif kind == "unary":
            run_reader_unary_content(c, F, fs, rule=rule, widths=(w,))
        elif kind == "copy_to":
            run_copy_to_content(c, F, fs, rule=rule, widths=(w,))
        elif kind == "copy_from":
            run_copy_from_content(c, F, fs, rule=rule, widths=(w,))
        elif kind == "bitreader":
            run_bitreader_content(c, F, fs, rule=rule)
    except Exception as ex:          # fail closed, say where
        c.items.append((rule, "%s|internal" % name, False, "bit-sequence analysis of %s raised %r" % (name, ex), None, None))
    return c.items


def run_parallel(chk, F, fs, jobs, widths=None):
    """jobs: list of (kind, rule, name); widths: restrict the backend word sizes analysed"""
    import multiprocessing as mp
    _FACTS[fs] = F
    WIDTHS = {"writer": (8, 16, 32, 64, 128), "copy_from": (8, 16, 32, 64, 128), "bitreader": (64,)}
    todo = [(k, fs, r, n, w) for (k, r, n) in jobs for w in WIDTHS.get(k, (8, 16, 32, 64)) if widths is None or w in widths]
    todo.sort(key=lambda j: j[4])          # the small words have the long unrollings: start them first
    with mp.get_context("fork").Pool(min(16, len(todo))) as pool:
        for items in pool.imap_unordered(_job, todo, chunksize=1):
            for rule, key, ok, what, detail, sample in items:
                chk.expect(rule, key, ok, what, detail=detail, sample=sample)


# ---- bulk copies (C08) ------------------------------------------------------------------------------------------------------
def _strip(t):
    while isinstance(t, tuple) and t and t[0] in ("ref", "deref"):
        t = t[1]
    return t


def _paths_for(F, spec, w, C, unroll=None):
    b = rn.find_body(F, spec.find)

    def assume(num, spec=spec, w=w):
        out = []
        for text, goals in spec.inv(num, w):
            out.extend(goals)
        out.extend(spec.pre(num, w))
        return out
    wk = numabs.NumWalker(b, numabs.Cfg(w), F, C, assume)
    wk.inline = spec.inline
    wk.gen_map = dict(getattr(spec, "gen", None) or {})
    if unroll:
        wk.loops = {}
        wk.unroll = unroll
    return b, wk, wk.run()


def _good_end(p):
    if p.end[0] == "back":
        return True
    if p.end[0] != "return":
        return False
    r = p.ret
    return not (isinstance(r, tuple) and ((r[0] == "agg" and r[3] == "Err") or r[0] == "from_residual"))


def run_copy_to_content(chk, F, fs, rule="P5.content", widths=None):
    """BufBitReader::copy_to (same endianness): every write_bits issued on the destination carries exactly the next bits of the
    source - first the buffered bits (after the optional own read_bits of the excess), then every fetched word whole, in the
    iteration that fetched it, then the leading part of the last word - and the buffer keeps exactly the rest of that last word."""
    C = seq_contracts()
    for spec in rn.reader_specs():
        parts = spec.key.split(".")
        if parts[0] != "reader" or parts[2] != "copy_to":
            continue
        e = parts[1]
        BUF = ("field", ("deref", rn.SELF), "buffer")
        BITS = ("field", ("deref", rn.SELF), "bits_in_buffer")
        for w in spec.widths:
            if widths is not None and w not in widths:
                continue
            b, wk, paths = _paths_for(F, spec, w, C)
            num = wk.num
            ok, why, cnt = True, None, 0

            def fail(msg):
                nonlocal ok, why
                if ok:
                    ok, why = False, msg
            for p in paths:
                if not _good_end(p):
                    continue
                store = wk.full_store(p.state)
                if not lp.feasible_cached(store):
                    continue
                num.ctx_events = p.state["events"]
                num.ctx_cons = p.state["cons"]
                num.ctx_mem = p.mem
                b0 = num.aff(BITS)
                W2 = 2 * w
                bf = ("S", "Bf", const(0), b0)
                pad = ("Z", const(W2) - b0)
                entry = {BUF: [bf, pad] if e == "be" else [pad, bf]}
                S = Seqs(num, store, entry, {})
                try:
                    c = const(0)           # bits of Bf already handed over
                    last_word = None       # (source name, used?)
                    nwords = 0
                    partial = None
                    for ev in p.calls():
                        nm = ev[1]
                        if nm == "traits::bits::BitRead::read_bits" and _strip(ev[8][0]) == rn.SELF:
                            k = S.aff(ev[8][1])
                            if k is None or not S.ent_le(k, b0 - c):
                                raise Undecided("own read_bits of more than the buffered bits")
                            # contract of BufBitReader::read_bits on its easy path (R7): the first k buffered bits, buffer keeps the rest
                            res = [("Z", const(64) - k), ("S", "Bf", (b0 - c - k) if e == "be" else c, k)]
                            S.entry[("okval", ev[3])] = S.norm(res)
                            c2 = c + k           # the buffer has dropped them; `c` advances when they are handed to the destination
                            rest = ("S", "Bf", const(0) if e == "be" else c2, b0 - c2)
                            padr = ("Z", const(W2) - (b0 - c2))
                            S.own_rest = [rest, padr] if e == "be" else [padr, rest]
                            continue
                        if nm == "traits::words::WordRead::read_word":
                            if last_word is not None and not last_word[1]:
                                fail("a word fetched by copy_to is neither written nor buffered before the next one is fetched")
                            nwords += 1
                            name = "w%d" % nwords
                            S.sources[("okval", ev[3])] = (name, w)
                            last_word = [name, False]
                            continue
                        if nm == "traits::bits::BitWrite::write_bits" and _strip(ev[8][0]) != rn.SELF:
                            kk = S.aff(ev[8][2])
                            val = S.seq(ev[8][1])
                            if kk is None or val is None:
                                raise Undecided("operand of write_bits not understood: %s" % mir.fmt(ev[8][1])[:120])
                            up, field = S.split_low(val, kk)
                            if last_word is None:
                                want = [("S", "Bf", (b0 - c - kk) if e == "be" else c, kk)]
                                c = c + kk
                            else:
                                want = [("S", last_word[0], (const(w) - kk) if e == "be" else const(0), kk)]
                                if last_word[1]:
                                    fail("a fetched word is written twice")
                                if not S.ent_le(const(1), kk):
                                    fail("copy_to may fetch a word from the source without copying any bit of it (width %s): a copy that ends on a word boundary reads past what it needs - at the end of a strict stream that is a spurious error" % kk)
                                last_word[1] = True
                                partial = (last_word[0], kk)
                            cnt += 1
                            if not S.same(field, S.norm(want)):
                                fail("a write_bits of copy_to carries %s; the next bits of the source are %s" % (S.fmt(field), S.fmt(S.norm(want))))
                    if p.end[0] == "return":
                        b1 = num.aff(p.mem.get(BITS, BITS))
                        buf1 = S.seq(p.mem.get(BUF, BUF))
                        if last_word is None:
                            rest_len = b0 - c
                            rest = [("S", "Bf", const(0) if e == "be" else c, rest_len)]
                        else:
                            if not last_word[1]:
                                fail("the last fetched word is not written")
                            kk = partial[1]
                            rest_len = const(w) - kk
                            rest = [("S", partial[0], const(0) if e == "be" else kk, rest_len)]
                        want = S.norm(rest + [("Z", const(W2) - rest_len)]) if e == "be" else S.norm([("Z", const(W2) - rest_len)] + rest)
                        cnt += 1
                        if buf1 is None or not S.ent_eq(b1, rest_len) or not S.same(buf1, want):
                            fail("after copy_to the buffer is %s with %s valid bits; the stream requires %s" % (S.fmt(buf1), b1, S.fmt(want)))
                except Undecided as ex:
                    import os, traceback
                    if os.environ.get("SEQ_DEBUG"):
                        traceback.print_exc()
                    fail("layout cannot be decided on a path: %s" % ex)
            key0 = "%s@u%d%s" % (spec.key, w, "" if fs == "default" else "@" + fs)
            chk.expect(rule, key0, ok and cnt > 0, "%s, word u%d: %s" % (b["path"], w, why or "no path analysed"),
                       detail={"fn": b["path"], "cfg": "u%d" % w, "why": why}, sample={"fn": spec.key, "cfg": "u%d" % w, "checked": cnt})


def run_copy_from_content(chk, F, fs, rule="P5.content", widths=None):
    """BufBitWriter::copy_from (same endianness): with P the pending bits and r_1, r_2, ... the values returned by the source's
    read_bits(k_i) calls (contract of BitRead, shown for BufBitReader by C02.R7: the k_i low bits are the next k_i stream bits,
    the rest is zero), the first word delivered is P ++ r_1, every further word is exactly the W bits read in the same iteration,
    and the buffer keeps exactly the last value read; words wider than 64 bits forward each value read to the own write_bits."""
    C = seq_contracts()
    for spec in rn.writer_specs():
        parts = spec.key.split(".")
        if parts[-1] != "copy_from":
            continue
        e = parts[1]
        BUF = ("field", ("deref", rn.SELF), "buffer")
        SPACE = ("field", ("deref", rn.SELF), "space_left_in_buffer")
        for w in spec.widths:
            if widths is not None and w not in widths:
                continue
            b, wk, paths = _paths_for(F, spec, w, C)
            num = wk.num
            ok, why, cnt = True, None, 0

            def fail(msg):
                nonlocal ok, why
                if ok:
                    ok, why = False, msg
            for p in paths:
                if not _good_end(p):
                    continue
                store = wk.full_store(p.state)
                if not lp.feasible_cached(store):
                    continue
                num.ctx_events = p.state["events"]
                num.ctx_cons = p.state["cons"]
                num.ctx_mem = p.mem
                sl0 = num.aff(SPACE)
                pw0 = const(w) - sl0
                pend = ("S", "P", const(0), pw0)
                junk = ("X", sl0)
                entry = {BUF: [junk, pend] if e == "be" else [pend, junk]}
                S = Seqs(num, store, entry, {})
                try:
                    reads = []            # [name, k, used]
                    nwords = 0
                    for ev in p.calls():
                        nm = ev[1]
                        if nm == "traits::bits::BitRead::read_bits" and _strip(ev[8][0]) != rn.SELF:
                            k = S.aff(ev[8][1])
                            if k is None:
                                raise Undecided("width of a read_bits not affine")
                            if reads and not reads[-1][2] and p.end[0] != "back":
                                fail("a value read from the source is neither written nor buffered before the next read")
                            name = "r%d" % (len(reads) + 1)
                            S.entry[("okval", ev[3])] = S.norm([("Z", const(64) - k), ("S", name, const(0), k)])
                            reads.append([name, k, False])
                            continue
                        if nm == "traits::bits::BitWrite::write_bits" and _strip(ev[8][0]) == rn.SELF:
                            # words wider than 64 bits: the value just read goes to the own write_bits with its own width
                            kk = S.aff(ev[8][2])
                            val = S.seq(ev[8][1])
                            cnt += 1
                            if not reads or kk is None or val is None or not S.ent_eq(kk, reads[-1][1]) or \
                                    not S.same(S.split_low(val, kk)[1], [("S", reads[-1][0], const(0), reads[-1][1])]):
                                fail("the own write_bits of copy_from does not carry the value just read with its width")
                            elif reads:
                                reads[-1][2] = True
                            continue
                        if nm == "traits::words::WordWrite::write_word":
                            word = S.seq(ev[8][1])
                            nwords += 1
                            if not reads:
                                raise Undecided("a word is delivered before anything was read")
                            r = reads[-1]
                            if nwords == 1 and len(reads) == 1 and p.end[0] != "back" or (nwords == 1 and len(reads) == 1):
                                want = [pend, ("S", r[0], const(0), r[1])] if e == "be" else [("S", r[0], const(0), r[1]), pend]
                                okw = S.ent_eq(r[1], sl0)
                            else:
                                want = [("S", r[0], const(0), r[1])]
                                okw = S.ent_eq(r[1], const(w))
                            cnt += 1
                            if r[2]:
                                fail("a value read from the source is delivered twice")
                            r[2] = True
                            if word is None or not okw or not S.same(word, S.norm(want)):
                                fail("word #%d delivered by copy_from is %s; the stream requires %s" % (nwords, S.fmt(word), S.fmt(S.norm(want))))
                    if p.end[0] == "return" and w <= 64:
                        sl1 = num.aff(p.mem.get(SPACE, SPACE))
                        pw1 = const(w) - sl1
                        buf1 = S.seq(p.mem.get(BUF, BUF))
                        if not reads:
                            raise Undecided("copy_from returned without reading")
                        r = reads[-1]
                        if nwords == 0 and len(reads) == 1:
                            want = [pend, ("S", r[0], const(0), r[1])] if e == "be" else [("S", r[0], const(0), r[1]), pend]
                            wlen = pw0 + r[1]
                        else:
                            want = [("S", r[0], const(0), r[1])]
                            wlen = r[1]
                            if r[2]:
                                fail("the last value read is both delivered and kept")
                        cnt += 1
                        okb = buf1 is not None and S.ent_eq(pw1, wlen)
                        if okb:
                            got = S.split_low(buf1, pw1)[1] if e == "be" else S.split_low(buf1, sl1)[0]
                            okb = S.same(got, S.norm(want))
                        if not okb:
                            fail("after copy_from the buffer is %s with %s pending bits; the stream requires %s" % (S.fmt(buf1), pw1, S.fmt(S.norm(want))))
                except Undecided as ex:
                    import os, traceback
                    if os.environ.get("SEQ_DEBUG"):
                        traceback.print_exc()
                    fail("layout cannot be decided on a path: %s" % ex)
            key0 = "%s@u%d%s" % (spec.key, w, "" if fs == "default" else "@" + fs)
            chk.expect(rule, key0, ok and cnt > 0, "%s, word u%d: %s" % (b["path"], w, why or "no path analysed"),
                       detail={"fn": b["path"], "cfg": "u%d" % w, "why": why}, sample={"fn": spec.key, "cfg": "u%d" % w, "checked": cnt})


def run_bitreader_content(chk, F, fs, rule="R7.content", widths=None):
    """unbuffered BitReader (u64 words): read_bits(n) / peek_bits(n) seek the backend to word bit_index / 64 and return exactly
    the n bits that start at offset bit_index % 64 of the words fetched from there (zero-extended); BE: offsets count from the
    most significant bit of the first word, LE: from the least significant bit."""
    C = seq_contracts()
    for spec in rn.reader_specs():
        parts = spec.key.split(".")
        if parts[0] != "bitreader" or parts[2] not in ("read_bits", "peek_bits"):
            continue
        e, nm = parts[1], parts[2]
        BI = ("field", ("deref", rn.SELF), "bit_index")
        w = 64
        b, wk, paths = _paths_for(F, spec, w, C)
        num = wk.num
        ok, why, cnt = True, None, 0

        def fail(msg):
            nonlocal ok, why
            if ok:
                ok, why = False, msg
        for p in paths:
            if p.end[0] != "return" or re_.ok_value(p) is None:
                continue
            store = wk.full_store(p.state)
            if not lp.feasible_cached(store):
                continue
            num.ctx_events = p.state["events"]
            num.ctx_cons = p.state["cons"]
            num.ctx_mem = p.mem
            S = Seqs(num, store, {}, {})
            n = num.aff(("arg", 2, "arg2"))
            q = num.aff(("binop", "Div", BI, ("const", 64, "u64")))
            r = num.aff(("binop", "Rem", BI, ("const", 64, "u64")))
            try:
                words = []
                seeks = []
                for ev in p.calls():
                    if ev[1] == "traits::words::WordRead::read_word":
                        name = "w%d" % len(words)
                        S.sources[("okval", ev[3])] = (name, 64)
                        words.append(name)
                    if ev[1] == "traits::words::WordSeek::set_word_pos":
                        seeks.append(S.aff(ev[8][1]))
                res = re_.ok_value(p)
                got = S.seq(res)
                rw = S.width(res)
                if not words:
                    # n = 0: nothing is fetched and zero is returned
                    cnt += 1
                    if not (S.ent_eq(n, const(0)) and got is not None and S.same(got, [("Z", const(rw))])):
                        fail("a path that fetches no word returns %s for n_bits = %s" % (S.fmt(got), n))
                    continue
                if q is None or r is None or len(seeks) != 1 or seeks[0] is None or not S.ent_eq(seeks[0], q):
                    fail("the backend is not positioned at word bit_index / 64 before the fetch (seek argument %s)" % (seeks[0] if seeks else None))
                    continue
                segs = [("S", nm_, const(0), const(64)) for nm_ in words]
                U = segs if e == "be" else list(reversed(segs))
                LU = const(64 * len(words))
                first = slice_of(S, S.norm(U), (LU - r - n) if e == "be" else r, n)
                want = S.norm([("Z", const(rw) - n)] + first)
                cnt += 1
                if got is None or not S.same(got, want):
                    fail("with %d word(s) fetched the value returned is %s; the stream requires %s" % (len(words), S.fmt(got), S.fmt(want)))
            except Undecided as ex:
                import os, traceback
                if os.environ.get("SEQ_DEBUG"):
                    traceback.print_exc()
                fail("layout cannot be decided on a path: %s" % ex)
        key0 = "%s@u64%s" % (spec.key, "" if fs == "default" else "@" + fs)
        chk.expect(rule, key0 + "|result", ok and cnt > 0, "%s: %s" % (b["path"], why or "no path analysed"),
                   detail={"fn": b["path"], "why": why}, sample={"fn": spec.key, "paths": cnt})


def run_seek_content(chk, F, fs, rule="S.content", widths=None):
    """BufBitReader::set_bit_pos(p): the backend is positioned at word p / W; when p % W = r > 0 exactly one word is fetched
    and the buffer holds exactly its W - r last stream bits (BE: the low bits of the word, moved to the top of the buffer;
    LE: the high bits, moved to the bottom) and zeros elsewhere; when r = 0 nothing is fetched and the buffer is empty."""
    C = seq_contracts()
    for spec in rn.reader_specs():
        parts = spec.key.split(".")
        if parts[0] != "reader" or parts[2] != "set_bit_pos":
            continue
        e = parts[1]
        BUF = ("field", ("deref", rn.SELF), "buffer")
        BITS = ("field", ("deref", rn.SELF), "bits_in_buffer")
        for w in spec.widths:
            if widths is not None and w not in widths:
                continue
            b, wk, paths = _paths_for(F, spec, w, C)
            num = wk.num
            ok, why, cnt = True, None, 0

            def fail(msg):
                nonlocal ok, why
                if ok:
                    ok, why = False, msg
            P = ("arg", 2, "arg2")
            for p in paths:
                if p.end[0] != "return" or re_.ok_value(p) is None:
                    continue
                store = wk.full_store(p.state)
                if not lp.feasible_cached(store):
                    continue
                num.ctx_events = p.state["events"]
                num.ctx_cons = p.state["cons"]
                num.ctx_mem = p.mem
                S = Seqs(num, store, {}, {})
                wc = ("uneval", "common_traits::AsBytes::BITS", ("<WR as traits::words::WordRead>::Word",), None)
                q = num.aff(("binop", "Div", P, ("const", w, "u64")))
                r = num.aff(("binop", "Rem", P, ("const", w, "u64")))
                try:
                    words, seeks = [], []
                    for ev in p.calls():
                        if ev[1] == "traits::words::WordRead::read_word":
                            S.sources[("okval", ev[3])] = ("w%d" % len(words), w)
                            words.append("w%d" % len(words))
                        if ev[1] == "traits::words::WordSeek::set_word_pos":
                            seeks.append(S.aff(ev[8][1]))
                    if q is None or r is None:
                        raise Undecided("p / W or p % W not available")
                    if len(seeks) != 1 or seeks[0] is None or not S.ent_eq(seeks[0], q):
                        fail("set_bit_pos does not position the backend at word bit_index / %d" % w)
                        continue
                    b1 = num.aff(p.mem.get(BITS, BITS))
                    buf1 = S.seq(p.mem.get(BUF, BUF))
                    W2 = 2 * w
                    cnt += 1
                    if not words:
                        good = S.ent_eq(r, const(0)) and S.ent_eq(b1, const(0)) and buf1 is not None and S.same(buf1, [("Z", const(W2))])
                        if not good:
                            fail("on the path that fetches no word the offset is %s, bits_in_buffer %s, buffer %s" % (r, b1, S.fmt(buf1)))
                        continue
                    if len(words) != 1:
                        fail("set_bit_pos fetches %d words" % len(words))
                        continue
                    rest_len = const(w) - r
                    rest = [("S", "w0", const(0) if e == "be" else r, rest_len)]
                    want = S.norm(rest + [("Z", const(W2) - rest_len)]) if e == "be" else S.norm([("Z", const(W2) - rest_len)] + rest)
                    if buf1 is None or not S.ent_eq(b1, rest_len) or not S.same(buf1, want):
                        fail("after set_bit_pos the buffer is %s with %s valid bits; the stream requires %s" % (S.fmt(buf1), b1, S.fmt(want)))
                except Undecided as ex:
                    import os, traceback
                    if os.environ.get("SEQ_DEBUG"):
                        traceback.print_exc()
                    fail("layout cannot be decided on a path: %s" % ex)
            key0 = "%s@u%d%s" % (spec.key, w, "" if fs == "default" else "@" + fs)
            chk.expect(rule, key0, ok and cnt > 0, "%s, word u%d: %s" % (b["path"], w, why or "no path analysed"),
                       detail={"fn": b["path"], "cfg": "u%d" % w, "why": why}, sample={"fn": spec.key, "cfg": "u%d" % w, "paths": cnt})

"""Layout clauses decided with the bit-sequence domain (sa/bitseq.py).

Writer (C01.W6): with P the pending bits at entry (pw = W - space_left of them) and F the field appended by the call
(write_bits: the n low bits of `value`; write_unary: v zeros and a one; flush: zero padding to the word boundary), every word
handed to the backend is exactly the next W bits of P ++ F in stream order, and the bits left in the buffer are exactly the rest,
in the positions the next call expects them.  Big-endian streams fill words from the most significant bit, little-endian ones
from the least significant bit; inside `value` the field is the contiguous slice [0, n) in both.
"""
import lp
import mir
import numabs
import contracts
import rules_num as rn
import rules_effects as re_
import bitseq
from bitseq import Seqs, Undecided
from numabs import const

G_WW = re_.G_WW


def seq_contracts():
    C = re_.ghost_contracts()
    base = C["traits::words::WordWrite::write_word"].get("ghost")

    def log_word(w, st, args):
        mem = st["mem"]
        idx = len([k for k in mem if isinstance(k, tuple) and len(k) == 3 and k[:2] == ("ghost", "wordlog")])
        mem[("ghost", "wordlog", idx)] = ("tuple", (args[1], mem.get(G_WW, G_WW)))
        if base:
            base(w, st, args)
    C["traits::words::WordWrite::write_word"] = dict(C["traits::words::WordWrite::write_word"], ghost=log_word)
    return C


def slice_of(S, big, lo, width):
    up, low = S.split_low(big, lo + width)
    up2, low2 = S.split_low(low, lo)
    return up2


def writer_field(nm, e, num, w, base_arg):
    """(field sequence most significant first, its length) appended by the call, positional"""
    if nm == "write_bits":
        n = num.aff(("arg", 3, "n_bits"))
        return [("S", "value", const(0), n)], n
    if nm == "write_unary":
        v = num.aff(("arg", 2, "value"))
        zeros, one = ("Z", v), ("O", const(1))
        return ([zeros, one] if e == "be" else [one, zeros]), v + const(1)
    return None, None


def run_writer_content(chk, F, fs, rule="W6.content", names=("write_bits", "write_unary", "flush_be", "flush_le"), widths=None):
    C = seq_contracts()
    for spec in rn.writer_specs():
        nm = spec.key.split(".")[-1]
        if nm not in names or spec.group is not None:
            continue
        e = "be" if (".be." in spec.key or spec.key.endswith("flush_be")) else "le"
        base_arg = spec.self_base
        BUF = ("field", ("deref", base_arg), "buffer")
        SPACE = ("field", ("deref", base_arg), "space_left_in_buffer")
        for w in spec.widths:
            if widths is not None and w not in widths:
                continue
            b = rn.find_body(F, spec.find)

            def assume(num, spec=spec, w=w):
                out = []
                for text, goals in spec.inv(num, w):
                    out.extend(goals)
                out.extend(spec.pre(num, w))
                return out
            wk = numabs.NumWalker(b, numabs.Cfg(w), F, C, assume)
            wk.inline = spec.inline
            if nm == "write_bits":
                # at most 64 / W + 1 words leave in one call: bounded unrolling gives every word its own path position
                wk.loops = {}
                wk.unroll = 64 // w + 2
            paths = wk.run()
            num = wk.num
            res = {"words": [True, None, 0], "buffer": [True, None, 0]}
            for p in paths:
                if p.end[0] not in ("return", "back"):
                    continue
                if p.end[0] == "return" and re_.ok_value(p) is None:
                    continue
                store = wk.full_store(p.state)
                if not lp.feasible_cached(store):
                    continue
                num.ctx_events = p.state["events"]
                num.ctx_cons = p.state["cons"]
                num.ctx_mem = p.mem
                sl0 = num.aff(SPACE)
                pw0 = const(w) - sl0
                pend = ("S", "P", const(0), pw0)
                junk = ("X", sl0)
                entry = {BUF: [junk, pend] if e == "be" else [pend, junk]}
                S = Seqs(num, store, entry, {("arg", 2, "value"): ("value", 64)})
                if nm.startswith("flush"):
                    # padding to the word boundary: nothing when nothing is pending
                    if S.ent_eq(sl0, const(w)):
                        field, flen = [], const(0)
                    elif S.ent_le(sl0, const(w - 1)):
                        field, flen = [("Z", sl0)], sl0
                    else:
                        continue
                else:
                    field, flen = writer_field(nm, e, num, w, base_arg)
                big = ([pend] + field) if e == "be" else (field + [pend])
                L = pw0 + flen
                ww0 = num.aff(G_WW)
                try:
                    big = S.norm(big)
                    logs = sorted((k[2], v) for k, v in p.mem.items() if isinstance(k, tuple) and len(k) == 3 and k[:2] == ("ghost", "wordlog"))
                    for idx, v in logs:
                        if not (isinstance(v, tuple) and v[0] == "tuple" and len(v[1]) == 2):
                            continue
                        word, before = v[1]
                        j = num.aff(before)
                        if j is None:
                            raise Undecided("word count before a write_word is not affine")
                        j = j - ww0
                        lo = (L - (j + const(1)).scale(w)) if e == "be" else j.scale(w)
                        want = slice_of(S, big, lo, const(w))
                        got = S.seq(word)
                        res["words"][2] += 1
                        if got is None or not S.same(got, want):
                            if res["words"][0]:
                                res["words"][0] = False
                                res["words"][1] = "word #%s delivered to the backend is %s; the stream requires %s" % (idx, S.fmt(got), S.fmt(want))
                    if p.end[0] == "return":
                        k = num.aff(p.mem.get(G_WW, G_WW)) - ww0
                        sl1 = num.aff(p.mem.get(SPACE, SPACE))
                        pw1 = const(w) - sl1
                        rest_len = L - k.scale(w)
                        buf1 = S.seq(p.mem.get(BUF, BUF))
                        res["buffer"][2] += 1
                        okb = buf1 is not None and S.ent_eq(pw1, rest_len)
                        if okb:
                            if e == "be":
                                up, want = S.split_low(big, rest_len)
                                upb, got = S.split_low(buf1, pw1)
                            else:
                                want, low = S.split_low(big, k.scale(w))
                                got, lowb = S.split_low(buf1, sl1)
                            okb = S.same(got, want)
                        if not okb and res["buffer"][0]:
                            res["buffer"][0] = False
                            res["buffer"][1] = "buffer after the call is %s with %s pending bits; the stream requires the pending bits to be %s" % (
                                S.fmt(buf1), pw1, S.fmt(want) if buf1 is not None and S.ent_eq(pw1, rest_len) else "%s bits" % rest_len)
                except Undecided as ex:
                    import os, traceback
                    if os.environ.get("SEQ_DEBUG"):
                        traceback.print_exc()
                    for kk in ("words", "buffer"):
                        if res[kk][0]:
                            res[kk][0] = False
                            res[kk][1] = "layout cannot be decided on a path: %s" % ex
            key0 = "%s@u%d%s" % (spec.key, w, "" if fs == "default" else "@" + fs)
            for kk in ("words", "buffer"):
                ok, why, n = res[kk]
                if kk == "words" and n == 0 and nm in ("write_bits", "write_unary") and False:
                    continue
                chk.expect(rule, key0 + "|" + kk, ok and (n > 0 or kk == "words"),
                           "%s, word u%d: %s" % (b["path"], w, why or "no path analysed"),
                           detail={"fn": b["path"], "cfg": "u%d" % w, "clause": kk, "why": why},
                           sample={"fn": spec.key, "cfg": "u%d" % w, "clause": kk, "checked": n} if w in (8, 64) else None)


# ---- reader ---------------------------------------------------------------------------------------------------------------
def run_reader_content(chk, F, fs, rule="R7.content", names=("read_bits", "peek_bits", "skip_bits", "skip_bits_after_peek"), widths=None):
    """BufBitReader: with Bf the buffered bits at entry (b of them) and w_0, w_1, ... the words fetched by the call, in order,
    the upcoming stream is U = Bf ++ w_0 ++ w_1 ...; the value returned is exactly the first n bits of U (zero-extended), and the
    buffer afterwards holds exactly the rest of U in its valid window and zeros elsewhere.  Big-endian: first bit = most
    significant; little-endian: first bit = least significant."""
    C = seq_contracts()
    for spec in rn.reader_specs():
        parts = spec.key.split(".")
        if parts[0] != "reader" or parts[2] not in names or spec.group is not None:
            continue
        e, nm = parts[1], parts[2]
        BUF = ("field", ("deref", rn.SELF), "buffer")
        BITS = ("field", ("deref", rn.SELF), "bits_in_buffer")
        for w in spec.widths:
            if widths is not None and w not in widths:
                continue
            b = rn.find_body(F, spec.find)

            def assume(num, spec=spec, w=w):
                out = []
                for text, goals in spec.inv(num, w):
                    out.extend(goals)
                out.extend(spec.pre(num, w))
                return out
            wk = numabs.NumWalker(b, numabs.Cfg(w), F, C, assume)
            wk.inline = spec.inline
            wk.loops = {}
            wk.unroll = 64 // w + 2
            paths = wk.run()
            num = wk.num
            res = {"result": [True, None, 0], "buffer": [True, None, 0]}
            returns_result = nm != "skip_bits_after_peek"
            for p in paths:
                if p.end[0] != "return":
                    continue
                if returns_result and re_.ok_value(p) is None:
                    continue
                store = wk.full_store(p.state)
                if not lp.feasible_cached(store):
                    continue
                num.ctx_events = p.state["events"]
                num.ctx_cons = p.state["cons"]
                num.ctx_mem = p.mem
                b0 = num.aff(BITS)
                W2 = 2 * w
                bf = ("S", "Bf", const(0), b0)
                pad = ("Z", const(W2) - b0)
                entry = {BUF: [bf, pad] if e == "be" else [pad, bf]}
                words = [ev for ev in p.calls() if ev[1] == "traits::words::WordRead::read_word"]
                sources = {}
                for i, ev in enumerate(words):
                    sources[("okval", ev[3])] = ("w%d" % i, w)
                S = Seqs(num, store, entry, sources)
                n = num.aff(("arg", 2, "n_bits"))
                wsegs = [("S", "w%d" % i, const(0), const(w)) for i in range(len(words))]
                U = ([bf] + wsegs) if e == "be" else (list(reversed(wsegs)) + [bf])
                LU = b0 + const(w * len(words))
                try:
                    U = S.norm(U)
                    if nm == "skip_bits":
                        # words skipped whole are fetched and discarded: nothing of them may remain
                        pass
                    consumed = const(0) if nm == "peek_bits" else n
                    rest_len = LU - consumed
                    if e == "be":
                        up, rest = S.split_low(U, rest_len)
                        first = slice_of(S, U, LU - n, n) if nm in ("read_bits", "peek_bits") else None
                    else:
                        rest, low = S.split_low(U, consumed)
                        first = slice_of(S, U, const(0), n) if nm in ("read_bits", "peek_bits") else None
                    if first is not None:
                        r = re_.ok_value(p)
                        rw = S.width(r)
                        got = S.seq(r)
                        res["result"][2] += 1
                        want = S.norm([("Z", const(rw) - n)] + first) if rw else None
                        if got is None or want is None or not S.same(got, want):
                            if res["result"][0]:
                                res["result"][0] = False
                                res["result"][1] = "with %d word(s) fetched the value returned is %s; the stream requires %s" % (len(words), S.fmt(got), S.fmt(want))
                    b1 = num.aff(p.mem.get(BITS, BITS))
                    buf1 = S.seq(p.mem.get(BUF, BUF))
                    res["buffer"][2] += 1
                    okb = buf1 is not None and S.ent_eq(b1, rest_len)
                    want = None
                    if okb:
                        want = S.norm(rest + [("Z", const(W2) - rest_len)]) if e == "be" else S.norm([("Z", const(W2) - rest_len)] + rest)
                        okb = S.same(buf1, want)
                    if not okb and res["buffer"][0]:
                        res["buffer"][0] = False
                        res["buffer"][1] = "with %d word(s) fetched the buffer after the call is %s with %s valid bits; the stream requires %s" % (
                            len(words), S.fmt(buf1), b1, S.fmt(want) if want is not None else "%s valid bits" % rest_len)
                except Undecided as ex:
                    import os, traceback
                    if os.environ.get("SEQ_DEBUG"):
                        traceback.print_exc()
                    for kk in ("result", "buffer"):
                        if res[kk][0]:
                            res[kk][0] = False
                            res[kk][1] = "layout cannot be decided on a path: %s" % ex
            key0 = "%s@u%d%s" % (spec.key, w, "" if fs == "default" else "@" + fs)
            for kk in ("result", "buffer"):
                ok, why, cnt = res[kk]
                if kk == "result" and nm not in ("read_bits", "peek_bits"):
                    continue
                chk.expect(rule, key0 + "|" + kk, ok and cnt > 0, "%s, word u%d: %s" % (b["path"], w, why or "no path analysed"),
                           detail={"fn": b["path"], "cfg": "u%d" % w, "clause": kk, "why": why},
                           sample={"fn": spec.key, "cfg": "u%d" % w, "clause": kk, "paths": cnt} if w in (8, 64) else None)


def run_reader_unary_content(chk, F, fs, rule="R7.content", widths=None):
    """read_unary: the buffer afterwards holds exactly the bits of the stream that follow the terminating one (result + 1 bits are
    consumed), in its valid window, and zeros elsewhere.  (That the consumed bits are `result` zeros and a one is the contract of
    leading_zeros / trailing_zeros; how many are consumed is R3.)"""
    C = seq_contracts()
    for spec in rn.reader_specs():
        parts = spec.key.split(".")
        if parts[0] != "reader" or parts[2] != "read_unary":
            continue
        e = parts[1]
        BUF = ("field", ("deref", rn.SELF), "buffer")
        BITS = ("field", ("deref", rn.SELF), "bits_in_buffer")
        for w in spec.widths:
            if widths is not None and w not in widths:
                continue
            b = rn.find_body(F, spec.find)

            def assume(num, spec=spec, w=w):
                out = []
                for text, goals in spec.inv(num, w):
                    out.extend(goals)
                out.extend(spec.pre(num, w))
                return out
            wk = numabs.NumWalker(b, numabs.Cfg(w), F, C, assume)
            wk.inline = spec.inline
            paths = wk.run()
            num = wk.num
            ok, why, cnt = True, None, 0
            for p in paths:
                if p.end[0] != "return" or re_.ok_value(p) is None:
                    continue
                store = wk.full_store(p.state)
                if not lp.feasible_cached(store):
                    continue
                num.ctx_events = p.state["events"]
                num.ctx_cons = p.state["cons"]
                num.ctx_mem = p.mem
                b0 = num.aff(BITS)
                W2 = 2 * w
                bf = ("S", "Bf", const(0), b0)
                pad = ("Z", const(W2) - b0)
                entry = {BUF: [bf, pad] if e == "be" else [pad, bf]}
                words = [ev for ev in p.calls() if ev[1] == "traits::words::WordRead::read_word"]
                m = num.aff(p.mem.get(re_.G_WP, re_.G_WP)) - num.aff(re_.G_WP)      # words fetched (with the loop's trip count)
                sources = {}
                if words:
                    sources[("okval", words[-1][3])] = ("wlast", w)
                S = Seqs(num, store, entry, sources)
                r = num.aff(re_.ok_value(p))
                try:
                    if r is None or m is None:
                        raise Undecided("result or word count not affine")
                    consumed = r + const(1)
                    LU = b0 + m.scale(w)
                    if words:
                        mid = ("X", (m - const(1)).scale(w))
                        last = ("S", "wlast", const(0), const(w))
                        U = [bf, mid, last] if e == "be" else [last, mid, bf]
                    else:
                        U = [bf]
                    U = S.norm(U)
                    rest_len = LU - consumed
                    if e == "be":
                        up, rest = S.split_low(U, rest_len)
                        want = S.norm(rest + [("Z", const(W2) - rest_len)])
                    else:
                        rest, low = S.split_low(U, consumed)
                        want = S.norm([("Z", const(W2) - rest_len)] + rest)
                    b1 = num.aff(p.mem.get(BITS, BITS))
                    buf1 = S.seq(p.mem.get(BUF, BUF))
                    cnt += 1
                    if not (buf1 is not None and S.ent_eq(b1, rest_len) and S.same(buf1, want)) and ok:
                        ok = False
                        why = "with %s word(s) fetched the buffer after the call is %s with %s valid bits; the stream requires %s" % (m, S.fmt(buf1), b1, S.fmt(want))
                except Undecided as ex:
                    import os, traceback
                    if os.environ.get("SEQ_DEBUG"):
                        traceback.print_exc()
                    if ok:
                        ok, why = False, "layout cannot be decided on a path: %s" % ex
            key0 = "%s@u%d%s" % (spec.key, w, "" if fs == "default" else "@" + fs)
            chk.expect(rule, key0 + "|buffer", ok and cnt > 0, "%s, word u%d: %s" % (b["path"], w, why or "no path analysed"),
                       detail={"fn": b["path"], "cfg": "u%d" % w, "why": why}, sample={"fn": spec.key, "cfg": "u%d" % w, "paths": cnt} if w in (8, 64) else None)


# ---- parallel front end --------------------------------------------------------------------------------------------------
class _Collect:
    """stands in for report.Check inside a worker: records expect() calls"""
    def __init__(self):
        self.items = []

    def expect(self, rule, key, cond, what, detail=None, sample=None):
        self.items.append((rule, key, bool(cond), what, detail, sample))
        return cond


_FACTS = {}


def _job(job):
    kind, fs, rule, name, w = job
    F = _FACTS[fs]
    c = _Collect()
    try:
        if kind == "writer":
            run_writer_content(c, F, fs, rule=rule, names=(name,), widths=(w,))
        elif kind == "reader":
            run_reader_content(c, F, fs, rule=rule, names=(name,), widths=(w,))
        elif kind == "unary":
            run_reader_unary_content(c, F, fs, rule=rule, widths=(w,))
    except Exception as ex:          # fail closed, say where
        c.items.append((rule, "%s|internal" % name, False, "bit-sequence analysis of %s raised %r" % (name, ex), None, None))
    return c.items


def run_parallel(chk, F, fs, jobs):
    """jobs: list of (kind, rule, name)"""
    import multiprocessing as mp
    _FACTS[fs] = F
    todo = [(k, fs, r, n, w) for (k, r, n) in jobs for w in ((8, 16, 32, 64, 128) if k == "writer" else (8, 16, 32, 64))]
    todo.sort(key=lambda j: j[4])          # the small words have the long unrollings: start them first
    with mp.get_context("fork").Pool(min(16, len(todo))) as pool:
        for items in pool.imap_unordered(_job, todo, chunksize=1):
            for rule, key, ok, what, detail, sample in items:
                chk.expect(rule, key, ok, what, detail=detail, sample=sample)

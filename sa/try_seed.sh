#!/bin/bash
# usage: try_seed.sh <seed-id> <check ids...>   — applies a seeded patch in a scratch worktree and runs the named checks there
set -u
seed=$1; shift
WT=/tmp/try-repo-$$
git -C /repo worktree add -q --detach $WT HEAD || exit 2
git -C $WT apply --whitespace=nowarn /verif/seeded/$seed/patch.diff || { git -C /repo worktree remove --force $WT; exit 2; }
for c in "$@"; do
  VERIF_REPO=$WT VERIF_CACHE=/tmp/try-cache-$$ VERIF_EVIDENCE=/tmp/try-ev-$$ /verif/check $c 2>&1 | grep -E "rule=|^  [a-zA-Z<].{20}|quick:" | cut -c1-330 | head -${LINES_MAX:-14}
done
git -C /repo worktree remove --force $WT; rm -rf /tmp/try-cache-$$ /tmp/try-ev-$$

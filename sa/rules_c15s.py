"""C15 — code statistics decided by interpreting the methods of CodesStats (sa/ivl.py) instead of matching their loops.

update_many(n, count) is interpreted with every length function replaced by a recognisable token (which records the function's
family and parameter): each field must grow by exactly token * count, where the token is the length of the code that
best_code reports for that very slot when it holds the minimum; total grows by count.  best_code is interpreted with one slot
at a time holding the unique minimum.  add / += / + / sum are interpreted on statistics with pairwise different slot values and
must give slot-wise sums.  Loops, iterator adaptors, macros and helper functions are all the same to these rules.
"""
import ivl
from ivl import AI, Agg, Ref, Frame, PyIter, Unsupported, Undecided, Panic, UNIT
import codeclass as cc

STATS = "utils::stats::CodesStats"
IMPL = "utils::stats::CodesStats::<ZETA, GOLOMB, EXP_GOLOMB, RICE, PI>"
SIZES = {"ZETA": 4, "GOLOMB": 5, "EXP_GOLOMB": 3, "RICE": 4, "PI": 3}
FIELD = {"unary": "unary", "gamma": "gamma", "delta": "delta", "omega": "omega", "vbyte": "vbyte", "zeta": "zeta", "golomb": "golomb",
         "exp_golomb": "exp_golomb", "rice": "rice", "pi": "pi"}
N_TOKEN = 424242


def layout(F):
    flds = F.adts[STATS]["variants"][0]["fields"]
    out = []
    for f in flds:
        m = None
        if f["ty"].startswith("["):
            m = f["ty"].split(";")[1].strip(" ]")
        out.append((f["name"], SIZES.get(m) if m else None))
    return out


def make_stats(lay, value_of):
    """CodesStats aggregate with slot values value_of(field, index | None)"""
    fields = []
    for name, n in lay:
        if n is None:
            v = value_of(name, None)
            fields.append(AI("u64", v, v))
        else:
            fields.append(Agg("array", None, None, None, [AI("u64", value_of(name, i), value_of(name, i)) for i in range(n)]))
    return Agg("adt", STATS, "CodesStats", 0, fields)


def slots(lay):
    out = []
    for name, n in lay:
        if n is None:
            out.append((name, None))
        else:
            out.extend((name, i) for i in range(n))
    return out


def read_slots(lay, st):
    out = {}
    for (name, n), v in zip(lay, st.fields):
        if n is None:
            out[(name, None)] = v
        else:
            for i in range(n):
                out[(name, i)] = v.fields[i]
    return out


def holder(v):
    h = Frame({"path": "stats"}, {})
    h.locals[0] = v
    return Ref(h, 0, ()), h


def run(chk, F, tier):
    """-> False when the interpreter cannot follow the code (the structural rules are used then)"""
    global SIZES
    if tier == "thorough":
        # the sizes the library uses by default (and one degenerate array)
        ok = True
        for sz in ({"ZETA": 10, "GOLOMB": 20, "EXP_GOLOMB": 10, "RICE": 10, "PI": 10}, {"ZETA": 1, "GOLOMB": 2, "EXP_GOLOMB": 0, "RICE": 1, "PI": 1}, dict(SIZES)):
            SIZES = sz
            ok = run_sizes(chk, F, tier) and ok
        return ok
    return run_sizes(chk, F, tier)


def run_sizes(chk, F, tier):
    import rules_c10
    lay = layout(F)
    env = dict(SIZES)
    ALL = slots(lay)
    tracked = [s for s in ALL if s[0] != "total"]
    try:
        um = F.body(IMPL + "::update_many")
        upd = F.body(IMPL + "::update")
        best = F.body(IMPL + "::best_code")
        addb = F.body(IMPL + "::add")
        aab = F.one(name="add_assign", trait_is="std::ops::AddAssign", impl_self=STATS + "<")
        opb = F.one(name="add", trait_is="std::ops::Add", impl_self=STATS + "<")
        sumb = F.one(name="sum", trait_is="std::iter::Sum", impl_self=STATS + "<")
        defb = F.one(name="default", trait_is="std::default::Default", impl_self=STATS + "<")

        def interp_update(body, start, count, with_count=True):
            log = []
            it = ivl.Interp(F, 0, 0, rules_c10.op_handlers("len", log))
            ref, h = holder(start)
            args = [ref, AI("u64", N_TOKEN, N_TOKEN)] + ([AI("u64", count, count)] if with_count else [])
            r = it.call_body(body, args, dict(env), 0)
            return read_slots(lay, h.locals[0]), log, r
        # ---- Default
        it = ivl.Interp(F, 0, 0)
        d = it.call_body(defb, [], dict(env), 0)
        dvals = read_slots(lay, d)
        # ---- update_many on zeros, count = 1; then on that result with count = 3; update(n)
        z = make_stats(lay, lambda f, i: 0)
        s1, log1, r1 = interp_update(um, z, 1)
        base = make_stats(lay, lambda f, i: 1000 + 17 * ALL.index((f, i)))
        s2, log2, r2 = interp_update(um, base, 3)
        s3, log3, r3 = interp_update(upd, make_stats(lay, lambda f, i: 0), None, with_count=False)
        # ---- best_code with each slot the unique minimum
        bests = {}
        for s in tracked:
            it = ivl.Interp(F, 0, 0)
            ref, h = holder(make_stats(lay, lambda f, i: 5 if (f, i) == s else (0 if f == "total" else 1000 + ALL.index((f, i)))))
            bests[s] = it.call_body(best, [ref], dict(env), 0)
        # ---- merges
        A = lambda: make_stats(lay, lambda f, i: 1000 + 17 * ALL.index((f, i)))
        B = lambda: make_stats(lay, lambda f, i: 3 + 7 * ALL.index((f, i)))
        C = lambda: make_stats(lay, lambda f, i: 100000 + 5 * ALL.index((f, i)))
        merges = {}
        it = ivl.Interp(F, 0, 0)
        ra, ha = holder(A())
        rb, hb = holder(B())
        it.call_body(addb, [ra, rb], dict(env), 0)
        merges["add"] = (read_slots(lay, ha.locals[0]), read_slots(lay, hb.locals[0]), 2)
        it = ivl.Interp(F, 0, 0)
        ra, ha = holder(A())
        it.call_body(aab, [ra, B()], dict(env), 0)
        merges["+="] = (read_slots(lay, ha.locals[0]), None, 2)
        it = ivl.Interp(F, 0, 0)
        merges["+"] = (read_slots(lay, it.call_body(opb, [A(), B()], dict(env), 0)), None, 2)
        it = ivl.Interp(F, 0, 0)
        e2 = dict(env)
        e2["I"] = "iterator"
        merges["sum"] = (read_slots(lay, it.call_body(sumb, [PyIter("values", [[A(), B(), C()], 0])], e2, 0)), None, 3)
        it = ivl.Interp(F, 0, 0)
        merges["sum of none"] = (read_slots(lay, it.call_body(sumb, [PyIter("values", [[], 0])], e2, 0)), None, 0)
    except (Unsupported, Undecided, Panic, KeyError, AttributeError, IndexError, TypeError, StopIteration, ValueError):
        return False

    def const(v):
        return v.const() if isinstance(v, AI) else None
    tok = {e["token"]: e for e in log1}
    chk.rule("S1.fields", floor=len(ALL) * 3, doc="Default zeroes every slot; update_many changes every slot; every merge operation touches every slot (interpreted on statistics with %s array slots)" % "/".join(str(v) for v in SIZES.values()))
    chk.rule("S2.update", floor=len(ALL), doc="update_many(n, count), interpreted with the length functions replaced by tokens: total += count; unary += (n + 1) * count; every other slot += len_F(n, p) * count for one length function F of the slot's family")
    chk.rule("S2.offsets", floor=len(tracked), doc="the (family, parameter) whose length update_many adds to a slot is the code best_code reports when that slot holds the minimum")
    chk.rule("S3.best", floor=len(tracked), doc="best_code, interpreted with each slot in turn holding the unique minimum: returns that slot's code and that minimum")
    chk.rule("S4.merge", floor=5, doc="add / += / + / sum, interpreted on statistics with pairwise different slot values: slot-wise sums (sum of none: zeros)")
    cls_upd = {}
    for s in ALL:
        key = "%s%s" % (s[0], "" if s[1] is None else "[%d]" % s[1])
        chk.expect("S1.fields", "default:" + key, const(dvals[s]) == 0, "Default leaves %s at %r" % (key, dvals[s]))
        v1 = const(s1[s])
        chk.expect("S1.fields", "update:" + key, v1 not in (None, 0), "update_many never updates %s" % key)
        # what was added
        if s[0] == "total":
            ok = v1 == 1 and const(s2[s]) == 1000 + 17 * ALL.index(s) + 3
            chk.expect("S2.update", key, ok, "total grows by %r for count 1 and to %r from %d for count 3 (expected + count)" % (v1, s2[s], 1000 + 17 * ALL.index(s)))
            continue
        if s[0] == "unary":
            ok = v1 == N_TOKEN + 1 and const(s2[s]) == 1000 + 17 * ALL.index(s) + 3 * (N_TOKEN + 1)
            chk.expect("S2.update", key, ok, "unary grows by %r for count 1 (expected n + 1) and to %r for count 3" % (v1, s2[s]))
            cls_upd[s] = ("unary", None)
            continue
        e = tok.get(v1)
        if e is None:
            chk.bad("S2.update", key, "%s grows by %r for count 1, which is not the value of one length function" % (key, v1))
            continue
        okv = isinstance(e["value"], AI) and e["value"].const() == N_TOKEN
        p = e["fixed"] if not e["has_param"] else (e["param"].const() if isinstance(e["param"], AI) else None)
        fam = e["fam"]
        okf = fam == FIELD[s[0]] and (not e["has_param"] or p is not None)
        # second run: + 3 * (the token the same function got there)
        e2s = [x for x in log2 if x["call"] == e["call"] and (not e["has_param"] or (isinstance(x["param"], AI) and x["param"].const() == p))]
        ok2 = len(e2s) == 1 and const(s2[s]) == 1000 + 17 * ALL.index(s) + 3 * e2s[0]["token"]
        chk.expect("S2.update", key, okv and okf and ok2,
                   "%s grows by the length of %s(%s) of %s; with count 3 it goes from %d to %r" % (key, fam, p, "n" if okv else "something else than n", 1000 + 17 * ALL.index(s), s2[s]),
                   sample={"slot": key, "adds": "len_%s(n%s) * count" % (fam, "" if p is None else ", %d" % p)})
        cls_upd[s] = cc.canon(fam, p, for_len=True) if okf else None
    # update(n) is update_many(n, 1)
    same = all(const(s3[s]) is not None and (const(s3[s]) == const(s1[s]) or (const(s1[s]) in tok and const(s3[s]) in {x["token"] for x in log3}
               and [x for x in log3 if x["token"] == const(s3[s])][0]["call"] == tok[const(s1[s])]["call"])) for s in ALL)
    chk.expect("S2.update", "update", same and const(r3) == N_TOKEN, "update(n) does not do what update_many(n, 1) does, or does not return n")
    for s in tracked:
        key = "%s%s" % (s[0], "" if s[1] is None else "[%d]" % s[1])
        r = bests[s]
        code = r.fields[0] if isinstance(r, Agg) and r.kind == "tuple" and len(r.fields) == 2 else None
        cost = r.fields[1] if code is not None else None
        okb = isinstance(code, Agg) and code.variant in cc.VARIANT and const(cost) == 5
        cls_best = None
        if okb:
            fam, field = cc.VARIANT[code.variant]
            pv = const(code.fields[0]) if (field and code.fields) else None
            okb = (field is None) or pv is not None
            cls_best = cc.canon(fam, pv, for_len=True) if okb else None
        fam_ok = okb and cc.VARIANT[code.variant][0].startswith(FIELD[s[0]])
        chk.expect("S3.best", key, okb and fam_ok, "best_code with the minimum (5) in %s returns %r" % (key, r), sample={"slot": key, "best": repr(code)})
        chk.expect("S2.offsets", key, cls_best is not None and cls_upd.get(s) == cls_best,
                   "update_many adds the length of %s to %s, but best_code reports %s for that slot" % (cls_upd.get(s), key, cls_best),
                   sample={"slot": key, "class": str(cls_best)})
    va = {s: 1000 + 17 * ALL.index(s) for s in ALL}
    vb = {s: 3 + 7 * ALL.index(s) for s in ALL}
    vc = {s: 100000 + 5 * ALL.index(s) for s in ALL}
    for op, (res, rhs_after, n) in sorted(merges.items()):
        want = {s: (va[s] + vb[s] + (vc[s] if n == 3 else 0)) if n else 0 for s in ALL}
        bad = [("%s%s" % (s[0], "" if s[1] is None else "[%d]" % s[1]), const(res[s]), want[s]) for s in ALL if const(res[s]) != want[s]]
        if rhs_after is not None:
            bad += [("rhs.%s" % s[0], const(rhs_after[s]), vb[s]) for s in ALL if const(rhs_after[s]) != vb[s]]
        chk.expect("S4.merge", op, not bad, "%s is not the slot-wise sum: %s" % (op, ["%s = %s (expected %s)" % b for b in bad[:4]]))
        for s in ALL:
            chk.ok("S1.fields", "%s:%s%s" % (op, s[0], "" if s[1] is None else "[%d]" % s[1])) if const(res[s]) == want[s] else None
    return True

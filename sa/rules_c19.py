"""C19 — build options: G1 library-issued writes are clean under `checks`, G2 the argument check itself, G3 differential
confinement of the cfg(checks) code, G4 numeric obligations on every feature set (no debug-only panics / release-only wrapping)."""
import mir
import codeclass as cc
import rules_num as rn
import rules_bits


STREAM = ("traits::bits::", "traits::words::", "codes::")


def stream_signature(p):
    """what a path does to streams, ignoring the value operand of write_bits: (callee, non-value args) sequence + result shape"""
    sig = []
    for e in p.calls():
        nm = e[1]
        if not nm.startswith(STREAM):
            continue
        args = [mir.expand(a, p) for a in e[8]]
        if nm == "traits::bits::BitWrite::write_bits":
            args[1] = "<value>"
        elif nm.endswith("::write_rice") or nm.endswith("::write_gamma") or nm.endswith("::write_unary") or nm.endswith("_param"):
            pass
        sig.append((nm, str(args)))
    r = p.ret
    shape = r[3] if (isinstance(r, tuple) and r[0] == "agg") else (r[0] if isinstance(r, tuple) else None)
    return (tuple(sig), shape, p.end[0])


def assert_evaluated(p):
    """the path took the true branch of the `value & mask(n_bits) == value` test"""
    for (t, op, v) in p.constraints:
        ex = mir.expand(t, p)
        if isinstance(ex, tuple) and ex and ex[0] == "binop" and ex[1] == "Eq":
            s = str(ex)
            if "wrapping_sub" in s and "'arg', 2, 'arg2'" in s and "'arg', 3, 'arg3'" in s and "BitAnd" in s:
                return True
    return False


def assert_semantic(F, b, ety, tier):
    """write_bits interpreted (sa/ivl.py) for every width 0..=64, on all dirty values at once (value in [2^n, 2^64)) and on all clean
    values at once (value in [0, 2^n)), for several buffer states and word sizes, with the backend stubbed: dirty values must reach
    an explicit panic before anything is written to the backend, clean values must not panic.  Returns (dirty accepted, clean rejected,
    number of cases) or None when the interpreter cannot follow the code (the structural rule is used then)."""
    import ivl
    from ivl import AI, Agg, Ref, Frame, Opaque, mk_variant, UNIT
    adt = F.adts["impls::buf_bit_writer::BufBitWriter"]
    flds = [f["name"] for f in adt["variants"][0]["fields"]]
    if not {"buffer", "space_left_in_buffer", "backend"} <= set(flds):
        return None
    dirty_ok, clean_bad, n_cases = [], [], 0
    words = ("u64", "u8", "u32") if tier == "thorough" else ("u64", "u8")
    for word in words:
        W = ivl.TY[word][0]
        for space in sorted({W, 1, W // 2 + 1}):
            for n in range(0, 65):
                for kind in ("clean", "dirty"):
                    if kind == "dirty" and n == 64:
                        continue
                    lo, hi = (0, (1 << n) - 1) if kind == "clean" else (1 << n, (1 << 64) - 1)
                    calls = []

                    def ww(it, name, args, fargs, fr, t, calls=calls):
                        calls.append(name)
                        return mk_variant("std::result::Result", "Ok", [UNIT])
                    it = ivl.Interp(F, lo, hi, {"traits::words::WordWrite::write_word": ww})
                    h = Frame({"path": "writer"}, {})
                    vals = {"buffer": AI(word, 0, 0), "space_left_in_buffer": AI("usize", space, space), "backend": Opaque("backend")}
                    h.locals[0] = Agg("adt", "impls::buf_bit_writer::BufBitWriter", "BufBitWriter", 0, [vals.get(f, UNIT) for f in flds])
                    env = {g: g for g in (b.get("generics") or [])}
                    env["E"] = ety
                    env["<WW as traits::words::WordWrite>::Word"] = word
                    n_cases += 1
                    what = "word %s, %d free bits, n_bits = %d, %s values" % (word, space, n, kind)
                    try:
                        it.call_body(b, [Ref(h, 0, ()), it.input("u64"), AI("usize", n, n)], env, 0)
                        if kind == "dirty":
                            dirty_ok.append(what + ": returns")
                    except ivl.Panic as ex:
                        if kind == "clean":
                            clean_bad.append("%s: %s" % (what, ex))
                        elif not str(ex).startswith("explicit panic") or calls:
                            dirty_ok.append("%s: %s after %d backend writes" % (what, ex, len(calls)))
                    except (ivl.Unsupported, ivl.Undecided, KeyError, AttributeError, IndexError, TypeError, ValueError):
                        return None
    return dirty_ok, clean_bad, n_cases


def run_all(chk, fsets, tier):
    import facts
    base = facts.load("default")
    have = [fs for fs in ("checks", "both") if fs in fsets or tier == "thorough"] or ["checks"]
    # ---- G3: which bodies differ, and how
    chk.rule("G3.confined", floor=10, doc="functions whose MIR differs between a feature set and the default differ only in the value operand of write_bits and in the argument assertion: same stream calls, same widths, same result shape on every path")
    chk.rule("G3.inventory", floor=1, doc="set of functions affected by `checks`")
    for fs in have:
        F = facts.load(fs)
        diff = []
        for path, bl in sorted(F.by_path.items()):
            b0 = base.by_path.get(path)
            if not b0 or len(bl) != 1 or len(b0) != 1:
                if not b0 and bl[0]["kind"] in ("Fn", "AssocFn"):
                    diff.append((path, None, bl[0]))
                continue
            if bl[0]["kind"] not in ("Fn", "AssocFn", "Closure"):
                continue
            if bl[0]["blocks"] != b0[0]["blocks"]:
                # ignore pure line-number shifts
                import json
                def strip(o):
                    if isinstance(o, dict):
                        return {k: strip(v) for k, v in o.items() if k not in ("line", "fn_line", "span")}
                    if isinstance(o, list):
                        return [strip(x) for x in o]
                    return o
                if strip(bl[0]["blocks"]) != strip(b0[0]["blocks"]):
                    diff.append((path, b0[0], bl[0]))
        chk.expect("G3.inventory", fs, 8 <= len(diff) <= 40, "feature set %s changes %d function bodies (expected the ~dozen cfg(checks)/cfg(no_copy_impls) sites)" % (fs, len(diff)),
                   sample={"features": fs, "changed": [d[0][-60:] for d in diff][:20]})
        for path, b0, b1 in diff:
            if b0 is None:
                chk.bad("G3.confined", "%s@%s" % (path, fs), "function %s exists only with features %s" % (path, fs))
                continue
            try:
                s0 = {stream_signature(p) for p in mir.Walker(b0, unroll=1).run() if p.end[0] in ("return", "cut")}
                s1 = {stream_signature(p) for p in mir.Walker(b1, unroll=1).run() if p.end[0] in ("return", "cut")}
            except mir.PathLimit:
                chk.bad("G3.confined", "%s@%s" % (path, fs), "too many paths in %s" % path)
                continue
            # the checks build may have extra panicking paths (the assertion); returning paths must coincide
            chk.expect("G3.confined", "%s@%s" % (path[-80:], fs), s0 == s1,
                       "%s: with features %s the function performs different stream operations, widths or result than the default build "
                       "(beyond the value operand of write_bits)" % (path, fs),
                       detail={"only_default": [str(x)[:200] for x in sorted(s0 - s1, key=str)[:2]], "only_" + fs: [str(x)[:200] for x in sorted(s1 - s0, key=str)[:2]]},
                       sample={"fn": path[-70:], "paths": len(s1)})
        # ---- G2: the assertion in BufBitWriter::write_bits
        chk.rule("G2.assert", floor=4, doc="both write_bits implementations, interpreted under `checks` for every width on all dirty values (>= 2^n_bits) and all clean values at once: dirty values panic before anything reaches the backend, clean values do not panic (structural fallback: the `value & mask == value` test on every successful path)")
        if "checks" in facts.FEATURE_SETS[fs]:
            for e, ety in (("be", rn.BE), ("le", rn.LE)):
                b = F.one(name="write_bits", trait_is="traits::bits::BitWrite<%s>" % ety, impl_self="impls::buf_bit_writer::BufBitWriter<")
                sem = assert_semantic(F, b, ety, tier)
                if sem is not None:
                    dirty_ok, clean_ok, n = sem
                    chk.expect("G2.assert", "%s@%s.every_path" % (e, fs), not dirty_ok,
                               "BufBitWriter<%s>::write_bits under %s accepts a dirty argument: %s" % (e.upper(), fs, "; ".join(dirty_ok[:3])), sample={"cases": n})
                    chk.expect("G2.assert", "%s@%s" % (e, fs), not clean_ok,
                               "BufBitWriter<%s>::write_bits under %s rejects a clean argument: %s" % (e.upper(), fs, "; ".join(clean_ok[:3])), sample={"cases": n})
                    continue
                okg = False
                skipped = 0
                for p in mir.walk(b):
                    if p.end[0] == "diverge" and rn.arg_assert_path(p):
                        okg = True
                    r = p.ret
                    if p.end[0] == "return" and isinstance(r, tuple) and r[0] == "agg" and r[3] == "Ok" and not assert_evaluated(p):
                        skipped += 1
                chk.expect("G2.assert", "%s@%s.every_path" % (e, fs), skipped == 0,
                           "BufBitWriter<%s>::write_bits under %s has %d successful path(s) that never evaluate `value & mask(n_bits) == value`: a dirty argument is accepted there" % (e.upper(), fs, skipped))
                chk.expect("G2.assert", "%s@%s" % (e, fs), okg, "BufBitWriter<%s>::write_bits has no `value & mask(n_bits) == value` assertion under %s" % (e.upper(), fs))
        # ---- G1
        if "checks" in facts.FEATURE_SETS[fs]:
            chk.rule("G1.clean", floor=40, doc="bit-range domain: at every write_bits(v, n) issued by code writers, bulk copies and io::Write under `checks`, v has no set bit at or above n")
            specs = [s for s in rn.writer_specs() + rn.reader_specs() + rn.code_specs() if s.group in ("copy", "io", "codes")]
            if "no_copy_impls" in facts.FEATURE_SETS[fs]:
                specs = [s for s in specs if s.group != "copy"]
            rules_bits.run_clean_writes(chk, F, fs, specs)
        # ---- G4
        chk.rule("G4.numeric", floor=100, doc="E3 obligations of the code writers/len functions and copy paths re-run on this feature set (no overflow that only a debug build would catch)")
        import rules_ivl
        specs = [s for s in rn.code_specs() if not s.key.startswith("vbyte.io_") and s.key not in rules_ivl.E7_COVERED]
        rules_ivl.run_domain_e7(chk, F, fs, tier, "G4.numeric", [k for k in rules_ivl.E7_COVERED if not k.startswith("vbyte.io_")])
        if "no_copy_impls" not in facts.FEATURE_SETS[fs]:
            specs += [s for s in rn.writer_specs() + rn.reader_specs() if s.group == "copy"]
        rn.run_specs(chk, F, specs, "G4.numeric", fs)
    chk.trust("rustc MIR, exporter, contracts, bit-range transfer functions (sa/bitrange.py), LP entailment; lemmas L4-L9 listed as assumptions")

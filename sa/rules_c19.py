"""C19 — build options: G1 library-issued writes are clean under `checks`, G2 the argument check itself, G3 differential
confinement of the cfg(checks) code, G4 numeric obligations on every feature set (no debug-only panics / release-only wrapping)."""
import mir
import codeclass as cc
import rules_num as rn
import rules_bits


STREAM = ("traits::bits::", "traits::words::", "codes::")


def stream_signature(p):
    """what a path does to streams, ignoring the value operand of write_bits: (callee, non-value args) sequence + result shape"""
    sig = []
    for e in p.calls():
        nm = e[1]
        if not nm.startswith(STREAM):
            continue
        args = [mir.expand(a, p) for a in e[8]]
        if nm == "traits::bits::BitWrite::write_bits":
            args[1] = "<value>"
        elif nm.endswith("::write_rice") or nm.endswith("::write_gamma") or nm.endswith("::write_unary") or nm.endswith("_param"):
            pass
        sig.append((nm, str(args)))
    r = p.ret
    shape = r[3] if (isinstance(r, tuple) and r[0] == "agg") else (r[0] if isinstance(r, tuple) else None)
    return (tuple(sig), shape, p.end[0])


def assert_evaluated(p):
    """the path took the true branch of the `value & mask(n_bits) == value` test"""
    for (t, op, v) in p.constraints:
        ex = mir.expand(t, p)
        if isinstance(ex, tuple) and ex and ex[0] == "binop" and ex[1] == "Eq":
            s = str(ex)
            if "wrapping_sub" in s and "'arg', 2, 'arg2'" in s and "'arg', 3, 'arg3'" in s and "BitAnd" in s:
                return True
    return False


def run_all(chk, fsets, tier):
    import facts
    base = facts.load("default")
    have = [fs for fs in ("checks", "both") if fs in fsets or tier == "thorough"] or ["checks"]
    # ---- G3: which bodies differ, and how
    chk.rule("G3.confined", floor=10, doc="functions whose MIR differs between a feature set and the default differ only in the value operand of write_bits and in the argument assertion: same stream calls, same widths, same result shape on every path")
    chk.rule("G3.inventory", floor=1, doc="set of functions affected by `checks`")
    for fs in have:
        F = facts.load(fs)
        diff = []
        for path, bl in sorted(F.by_path.items()):
            b0 = base.by_path.get(path)
            if not b0 or len(bl) != 1 or len(b0) != 1:
                if not b0 and bl[0]["kind"] in ("Fn", "AssocFn"):
                    diff.append((path, None, bl[0]))
                continue
            if bl[0]["kind"] not in ("Fn", "AssocFn", "Closure"):
                continue
            if bl[0]["blocks"] != b0[0]["blocks"]:
                # ignore pure line-number shifts
                import json
                def strip(o):
                    if isinstance(o, dict):
                        return {k: strip(v) for k, v in o.items() if k not in ("line", "fn_line", "span")}
                    if isinstance(o, list):
                        return [strip(x) for x in o]
                    return o
                if strip(bl[0]["blocks"]) != strip(b0[0]["blocks"]):
                    diff.append((path, b0[0], bl[0]))
        chk.expect("G3.inventory", fs, 8 <= len(diff) <= 40, "feature set %s changes %d function bodies (expected the ~dozen cfg(checks)/cfg(no_copy_impls) sites)" % (fs, len(diff)),
                   sample={"features": fs, "changed": [d[0][-60:] for d in diff][:20]})
        for path, b0, b1 in diff:
            if b0 is None:
                chk.bad("G3.confined", "%s@%s" % (path, fs), "function %s exists only with features %s" % (path, fs))
                continue
            try:
                s0 = {stream_signature(p) for p in mir.Walker(b0, unroll=1).run() if p.end[0] in ("return", "cut")}
                s1 = {stream_signature(p) for p in mir.Walker(b1, unroll=1).run() if p.end[0] in ("return", "cut")}
            except mir.PathLimit:
                chk.bad("G3.confined", "%s@%s" % (path, fs), "too many paths in %s" % path)
                continue
            # the checks build may have extra panicking paths (the assertion); returning paths must coincide
            chk.expect("G3.confined", "%s@%s" % (path[-80:], fs), s0 == s1,
                       "%s: with features %s the function performs different stream operations, widths or result than the default build "
                       "(beyond the value operand of write_bits)" % (path, fs),
                       detail={"only_default": [str(x)[:200] for x in sorted(s0 - s1, key=str)[:2]], "only_" + fs: [str(x)[:200] for x in sorted(s1 - s0, key=str)[:2]]},
                       sample={"fn": path[-70:], "paths": len(s1)})
        # ---- G2: the assertion in BufBitWriter::write_bits
        chk.rule("G2.assert", floor=4, doc="both write_bits implementations panic exactly on value & ((1<<n)-1) != value under `checks`, and no successful path skips the test")
        if "checks" in facts.FEATURE_SETS[fs]:
            for e, ety in (("be", rn.BE), ("le", rn.LE)):
                b = F.one(name="write_bits", trait_is="traits::bits::BitWrite<%s>" % ety, impl_self="impls::buf_bit_writer::BufBitWriter<")
                okg = False
                skipped = 0
                for p in mir.walk(b):
                    if p.end[0] == "diverge" and rn.arg_assert_path(p):
                        okg = True
                    r = p.ret
                    if p.end[0] == "return" and isinstance(r, tuple) and r[0] == "agg" and r[3] == "Ok" and not assert_evaluated(p):
                        skipped += 1
                chk.expect("G2.assert", "%s@%s.every_path" % (e, fs), skipped == 0,
                           "BufBitWriter<%s>::write_bits under %s has %d successful path(s) that never evaluate `value & mask(n_bits) == value`: a dirty argument is accepted there" % (e.upper(), fs, skipped))
                chk.expect("G2.assert", "%s@%s" % (e, fs), okg, "BufBitWriter<%s>::write_bits has no `value & mask(n_bits) == value` assertion under %s" % (e.upper(), fs))
        # ---- G1
        if "checks" in facts.FEATURE_SETS[fs]:
            chk.rule("G1.clean", floor=40, doc="bit-range domain: at every write_bits(v, n) issued by code writers, bulk copies and io::Write under `checks`, v has no set bit at or above n")
            specs = [s for s in rn.writer_specs() + rn.reader_specs() + rn.code_specs() if s.group in ("copy", "io", "codes")]
            if "no_copy_impls" in facts.FEATURE_SETS[fs]:
                specs = [s for s in specs if s.group != "copy"]
            rules_bits.run_clean_writes(chk, F, fs, specs)
        # ---- G4
        chk.rule("G4.numeric", floor=100, doc="E3 obligations of the code writers/len functions and copy paths re-run on this feature set (no overflow that only a debug build would catch)")
        import rules_ivl
        specs = [s for s in rn.code_specs() if not s.key.startswith("vbyte.io_") and s.key not in rules_ivl.E7_COVERED]
        rules_ivl.run_domain_e7(chk, F, fs, tier, "G4.numeric", [k for k in rules_ivl.E7_COVERED if not k.startswith("vbyte.io_")])
        if "no_copy_impls" not in facts.FEATURE_SETS[fs]:
            specs += [s for s in rn.writer_specs() + rn.reader_specs() if s.group == "copy"]
        rn.run_specs(chk, F, specs, "G4.numeric", fs)
    chk.trust("rustc MIR, exporter, contracts, bit-range transfer functions (sa/bitrange.py), LP entailment; lemmas L4-L9 listed as assumptions")

"""A small abstract domain of strings for the value-partition interpreter (sa/ivl.py), used by C16 to interpret `Display` and
`FromStr` of `Codes` instead of matching the shape of their code.

A string is a tuple of atoms: a character (a one-character Python string), `Dec(n)` - the decimal digits of the abstract
unsigned integer n (at least one character, digits only) - or `Unk(tag)` - a non-empty run of characters that is none of the
characters the code under analysis tests for and equals no literal it compares with (an arbitrary unknown name).  A byte offset
into a string whose prefix contains a Dec / Unk atom is not a number: it is the symbolic position `Pos(string, k)` "just before
atom k", which is what find() returns and what slicing accepts.

The handlers implement the documented behaviour of the std functions on these values; a function or a situation they do not
cover raises Unsupported (the caller then falls back to its structural rule).
"""
import re
import ivl
from ivl import AI, Agg, Ref, Opaque, Frame, Unsupported, Undecided, Panic, mk_variant, UNIT, TY, tmax, tmin


class Dec:
    __slots__ = ("n",)

    def __init__(self, n):
        self.n = n

    def __repr__(self):
        return "<dec %r>" % (self.n,)


class Unk:
    __slots__ = ("tag",)

    def __init__(self, tag):
        self.tag = tag

    def __repr__(self):
        return "<unknown %s>" % self.tag


class SStr:
    __slots__ = ("atoms",)

    def __init__(self, atoms):
        self.atoms = tuple(atoms)

    def __repr__(self):
        return "str%r" % ("".join(a if isinstance(a, str) else repr(a) for a in self.atoms),)

    def literal(self):
        return "".join(self.atoms) if all(isinstance(a, str) for a in self.atoms) else None


class Pos:
    """byte offset of the boundary before atom k of the string with these atoms"""
    __slots__ = ("atoms", "k")

    def __init__(self, atoms, k):
        self.atoms, self.k = atoms, k

    def __repr__(self):
        return "<pos %d>" % self.k


class Fmt:
    def __init__(self):
        self.out = []


class FArgs:
    def __init__(self, atoms):
        self.atoms = tuple(atoms)


class FArg:
    def __init__(self, v):
        self.v = v


class SplitIter:
    def __init__(self, parts):
        self.parts, self.i = list(parts), 0


def deref(it, v):
    for _ in range(5):
        if isinstance(v, Ref):
            v = it.project(v.frame, v.frame.locals.get(v.local), v.proj)
    return v


def to_sstr(it, v):
    v = deref(it, v)
    if isinstance(v, SStr):
        return v
    if isinstance(v, Opaque) and isinstance(v.what, tuple) and v.what[0] == "str":
        return SStr(tuple(v.what[1]))
    raise Unsupported("not a string value: %r" % (v,))


def pattern_chars(it, p):
    """the characters a `char`, `[char; N]` or `&[char]` pattern matches, or ('str', SStr) for a string pattern"""
    p = deref(it, p)
    if isinstance(p, AI) and p.const() is not None:
        return {chr(p.const())}
    if isinstance(p, Agg) and p.kind == "array" and all(isinstance(x, AI) and x.const() is not None for x in p.fields):
        return {chr(x.const()) for x in p.fields}
    if isinstance(p, ivl.Slice):
        arr = deref(it, p.ref)
        return {chr(x.const()) for x in arr.fields[p.start:p.end]}
    if isinstance(p, (SStr, Opaque)):
        return ("str", to_sstr(it, p))
    raise Unsupported("pattern %r" % (p,))


def char_hits(atom, chars):
    """True / False: the atom is one of `chars`; never for Dec (digits) and Unk unless the pattern has digits"""
    if isinstance(atom, str):
        return atom in chars
    if isinstance(atom, Dec):
        if any(c.isdigit() for c in chars):
            raise Undecided("pattern matches digits")
        return False
    if isinstance(atom, Unk):
        return False
    raise Unsupported("atom %r" % (atom,))


def find_first(atoms, chars, start=0):
    for k in range(start, len(atoms)):
        if char_hits(atoms[k], chars):
            return k
    return None


def mk_pos(atoms, k):
    """a plain integer when every atom before k is a character, a symbolic position otherwise"""
    if all(isinstance(a, str) for a in atoms[:k]):
        n = len("".join(atoms[:k]).encode("utf8"))
        return AI("usize", n, n)
    return Pos(tuple(atoms), k)


def pos_index(s, v):
    """atom index denoted by an offset value into string s"""
    if isinstance(v, Pos):
        if v.atoms != s.atoms and v.atoms[:len(s.atoms)] != s.atoms and s.atoms[:len(v.atoms)] != v.atoms:
            raise Unsupported("offset into another string")
        return v.k
    if isinstance(v, AI) and v.const() is not None:
        n = v.const()
        acc = 0
        for k, a in enumerate(s.atoms):
            if acc == n:
                return k
            if not isinstance(a, str):
                raise Undecided("numeric offset past a run of unknown length")
            acc += len(a.encode("utf8"))
        if acc == n:
            return len(s.atoms)
        raise Panic("byte index out of range / not a char boundary")
    raise Unsupported("offset %r" % (v,))


# ---- handlers -------------------------------------------------------------------------------------------------------------
def h_new_display(it, name, args, fargs, fr, t):
    return FArg(deref(it, args[0]))


def decode_template(bs):
    out, i, bs = [], 0, list(bs)
    while i < len(bs):
        b = bs[i]
        if b == 0:
            return out
        if b < 0x80:
            out.append(("lit", bytes(bs[i + 1:i + 1 + b]).decode("utf8", "replace")))
            i += 1 + b
        elif b == 0xC0:
            out.append(("arg",))
            i += 1
        else:
            return None
    return out


def atoms_of_value(v):
    if isinstance(v, AI):
        if v.lo < 0:
            raise Unsupported("formatting a possibly negative integer")
        if v.const() is not None:
            return tuple(str(v.const()))
        return (Dec(v),)
    if isinstance(v, (SStr,)):
        return v.atoms
    if isinstance(v, Opaque) and isinstance(v.what, tuple) and v.what[0] == "str":
        return tuple(v.what[1])
    raise Unsupported("formatting %r" % (v,))


def h_args_new(it, name, args, fargs, fr, t):
    tpl = deref(it, args[0])
    if not (isinstance(tpl, Opaque) and isinstance(tpl.what, tuple) and tpl.what[0] == "bytes" and isinstance(tpl.what[1], tuple)):
        raise Unsupported("format template %r" % (tpl,))
    pieces = decode_template(tpl.what[1])
    if pieces is None:
        raise Unsupported("format template with formatting options")
    arr = deref(it, args[1]) if len(args) > 1 else None
    vals = list(arr.fields) if isinstance(arr, Agg) else []
    atoms = []
    k = 0
    for pc in pieces:
        if pc[0] == "lit":
            atoms.extend(pc[1])
        else:
            if k >= len(vals) or not isinstance(vals[k], FArg):
                raise Unsupported("format argument %d" % k)
            atoms.extend(atoms_of_value(vals[k].v))
            k += 1
    return FArgs(atoms)


def h_args_from_str(it, name, args, fargs, fr, t):
    return FArgs(to_sstr(it, args[0]).atoms)


def h_write_fmt(it, name, args, fargs, fr, t):
    f, a = deref(it, args[0]), deref(it, args[1])
    if not isinstance(f, Fmt) or not isinstance(a, FArgs):
        return NotImplemented
    f.out.extend(a.atoms)
    return mk_variant("std::result::Result", "Ok", [UNIT])


def h_write_str(it, name, args, fargs, fr, t):
    f = deref(it, args[0])
    if not isinstance(f, Fmt):
        return NotImplemented
    f.out.extend(to_sstr(it, args[1]).atoms)
    return mk_variant("std::result::Result", "Ok", [UNIT])


def h_display_int(it, name, args, fargs, fr, t):
    v, f = deref(it, args[0]), deref(it, args[1])
    if isinstance(f, Fmt) and isinstance(v, AI):
        f.out.extend(atoms_of_value(v))
        return mk_variant("std::result::Result", "Ok", [UNIT])
    return NotImplemented


def h_format(it, name, args, fargs, fr, t):
    return Opaque(("foreign", name))


def h_split(it, name, args, fargs, fr, t):
    s = to_sstr(it, args[0])
    chars = pattern_chars(it, args[1])
    if isinstance(chars, tuple):
        raise Unsupported("split on a string pattern")
    parts, cur = [], []
    for a in s.atoms:
        if char_hits(a, chars):
            parts.append(SStr(cur))
            cur = []
        else:
            cur.append(a)
    parts.append(SStr(cur))
    return SplitIter(parts)


def h_next(it, name, args, fargs, fr, t):
    r = deref(it, args[0])
    if isinstance(r, SplitIter):
        if r.i >= len(r.parts):
            return mk_variant("std::option::Option", "None", [])
        r.i += 1
        return mk_variant("std::option::Option", "Some", [r.parts[r.i - 1]])
    return NotImplemented


def h_split_once(it, name, args, fargs, fr, t):
    s = to_sstr(it, args[0])
    chars = pattern_chars(it, args[1])
    if isinstance(chars, tuple):
        raise Unsupported("split_once on a string pattern")
    k = find_first(s.atoms, chars) if not name.endswith("rsplit_once") else next((i for i in range(len(s.atoms) - 1, -1, -1) if char_hits(s.atoms[i], chars)), None)
    if k is None:
        return mk_variant("std::option::Option", "None", [])
    return mk_variant("std::option::Option", "Some", [Agg("tuple", None, None, None, [SStr(s.atoms[:k]), SStr(s.atoms[k + 1:])])])


def h_find(it, name, args, fargs, fr, t):
    s = to_sstr(it, args[0])
    chars = pattern_chars(it, args[1])
    if isinstance(chars, tuple):
        raise Unsupported("find of a string pattern")
    k = find_first(s.atoms, chars) if name.endswith("::find") else next((i for i in range(len(s.atoms) - 1, -1, -1) if char_hits(s.atoms[i], chars)), None)
    if k is None:
        return mk_variant("std::option::Option", "None", [])
    return mk_variant("std::option::Option", "Some", [mk_pos(s.atoms, k)])


def h_len(it, name, args, fargs, fr, t):
    v = deref(it, args[0])
    if not isinstance(v, (SStr,)) and not (isinstance(v, Opaque) and isinstance(v.what, tuple) and v.what[0] == "str"):
        return NotImplemented
    s = to_sstr(it, v)
    return mk_pos(s.atoms, len(s.atoms))


def h_is_empty(it, name, args, fargs, fr, t):
    v = deref(it, args[0])
    if not isinstance(v, (SStr,)) and not (isinstance(v, Opaque) and isinstance(v.what, tuple) and v.what[0] == "str"):
        return NotImplemented
    s = to_sstr(it, v)
    r = int(len(s.atoms) == 0)
    return AI("bool", r, r)


def h_index(it, name, args, fargs, fr, t):
    v = deref(it, args[0])
    if not isinstance(v, (SStr,)) and not (isinstance(v, Opaque) and isinstance(v.what, tuple) and v.what[0] == "str"):
        return NotImplemented
    s = to_sstr(it, v)
    idx = args[1]
    if not (isinstance(idx, Agg) and idx.name and idx.name.split("::")[-1] in ("RangeFrom", "Range", "RangeTo", "RangeFull", "RangeInclusive")):
        raise Unsupported("string index %r" % (idx,))
    nm = idx.name.split("::")[-1]
    lo = pos_index(s, idx.fields[0]) if nm in ("RangeFrom", "Range") else 0
    hi = pos_index(s, idx.fields[1]) if nm == "Range" else pos_index(s, idx.fields[0]) if nm == "RangeTo" else len(s.atoms)
    if lo > hi:
        raise Panic("slice index starts after its end")
    return SStr(s.atoms[lo:hi])


def h_strip(it, name, args, fargs, fr, t):
    s = to_sstr(it, args[0])
    pat = pattern_chars(it, args[1])
    pre = name.endswith("strip_prefix")
    if isinstance(pat, tuple):
        lit = pat[1].literal()
        if lit is None:
            raise Unsupported("strip of a non-literal pattern")
        seg = s.atoms[:len(lit)] if pre else s.atoms[len(s.atoms) - len(lit):] if len(lit) <= len(s.atoms) else None
        if seg is not None and len(lit) <= len(s.atoms) and all(isinstance(a, str) for a in seg):
            if "".join(seg) == lit:
                return mk_variant("std::option::Option", "Some", [SStr(s.atoms[len(lit):] if pre else s.atoms[:len(s.atoms) - len(lit)])])
            return mk_variant("std::option::Option", "None", [])
        if not lit:
            return mk_variant("std::option::Option", "Some", [s])
        # a Dec / Unk atom where the literal would have to be: a literal with a non-digit cannot match digits, nor an unknown name
        edge = (s.atoms[0] if pre else s.atoms[-1]) if s.atoms else None
        if edge is None:
            return mk_variant("std::option::Option", "None", [])
        if isinstance(edge, Dec) and not (lit[0] if pre else lit[-1]).isdigit():
            return mk_variant("std::option::Option", "None", [])
        if isinstance(edge, Unk):
            return mk_variant("std::option::Option", "None", [])
        raise Undecided("strip against a run of unknown length")
    if not s.atoms:
        return mk_variant("std::option::Option", "None", [])
    edge = s.atoms[0] if pre else s.atoms[-1]
    if char_hits(edge, pat):
        return mk_variant("std::option::Option", "Some", [SStr(s.atoms[1:] if pre else s.atoms[:-1])])
    return mk_variant("std::option::Option", "None", [])


def h_starts_ends(it, name, args, fargs, fr, t):
    r = h_strip(it, "strip_prefix" if name.endswith("starts_with") else "strip_suffix", args, fargs, fr, t)
    v = int(r.variant == "Some")
    return AI("bool", v, v)


def h_trim_matches(it, name, args, fargs, fr, t):
    s = to_sstr(it, args[0])
    chars = pattern_chars(it, args[1])
    if isinstance(chars, tuple):
        raise Unsupported("trim with a string pattern")
    atoms = list(s.atoms)
    if "end" in name or name.endswith("trim_matches"):
        while atoms and char_hits(atoms[-1], chars):
            atoms.pop()
    if "start" in name or name.endswith("trim_matches"):
        while atoms and char_hits(atoms[0], chars):
            atoms.pop(0)
    return SStr(atoms)


def h_trim(it, name, args, fargs, fr, t):
    s = to_sstr(it, args[0])
    atoms = list(s.atoms)
    ws = set(" \t\n\r")
    if not name.endswith("trim_start"):
        while atoms and isinstance(atoms[-1], str) and atoms[-1] in ws:
            atoms.pop()
    if not name.endswith("trim_end"):
        while atoms and isinstance(atoms[0], str) and atoms[0] in ws:
            atoms.pop(0)
    return SStr(atoms)


def str_eq(a, b):
    """True / False / None (undecided)"""
    la, lb = a.literal(), b.literal()
    if la is not None and lb is not None:
        return la == lb
    # atom-wise: an unknown name equals no literal; digits equal only digits
    if len(a.atoms) == len(b.atoms) and all((x is y) or (isinstance(x, str) and x == y) for x, y in zip(a.atoms, b.atoms)):
        return True
    for x, y in ((a, b), (b, a)):
        ly = y.literal()
        if ly is not None:
            if any(isinstance(z, Unk) for z in x.atoms):
                return False
            if any(isinstance(z, Dec) for z in x.atoms):
                # x = lit* Dec lit*: y must have the same literal prefix / suffix and digits in between
                pre = "".join(z for z in x.atoms[:next(i for i, z in enumerate(x.atoms) if isinstance(z, Dec))])
                suf_atoms = x.atoms[len(x.atoms) - next(i for i, z in enumerate(reversed(x.atoms)) if isinstance(z, Dec)):]
                suf = "".join(suf_atoms)
                if not ly.startswith(pre) or not ly.endswith(suf) or len(ly) < len(pre) + len(suf) + 1:
                    return False
                mid = ly[len(pre):len(ly) - len(suf)] if suf else ly[len(pre):]
                if not mid.isdigit():
                    return False
                return None
    return None


def h_eq(it, name, args, fargs, fr, t):
    vs = [deref(it, a) for a in args]
    if not all(isinstance(v, SStr) or (isinstance(v, Opaque) and isinstance(v.what, tuple) and v.what[0] == "str") for v in vs):
        return NotImplemented
    r = str_eq(to_sstr(it, vs[0]), to_sstr(it, vs[1]))
    if r is None:
        raise Undecided("string comparison")
    r = int(r == name.endswith("eq"))
    return AI("bool", r, r)


def h_parse(it, name, args, fargs, fr, t):
    s = to_sstr(it, args[0])
    dst = it.resolve_ty(fr, fargs[0]) if fargs else None
    if dst not in TY or dst == "bool":
        raise Unsupported("parse::<%s>" % (dst,))
    err = lambda: mk_variant("std::result::Result", "Err", [Opaque("ParseIntError")])
    atoms = list(s.atoms)
    if atoms and atoms[0] == "+":
        atoms = atoms[1:]
    if not atoms:
        return err()
    if len(atoms) == 1 and isinstance(atoms[0], Dec):
        n = atoms[0].n
        if n.hi <= tmax(dst):
            return mk_variant("std::result::Result", "Ok", [AI(dst, n.lo, n.hi, n.dir, n.aff)])
        if n.lo > tmax(dst):
            return err()
        raise Undecided("parsed number may not fit %s" % dst)
    if any(isinstance(a, Unk) for a in atoms):
        return err()
    if all(isinstance(a, str) for a in atoms):
        txt = "".join(atoms)
        if txt.isdigit() and txt.isascii():
            v = int(txt)
            return mk_variant("std::result::Result", "Ok", [AI(dst, v, v)]) if v <= tmax(dst) else err()
        if TY[dst][1] and txt.startswith("-") and txt[1:].isdigit():
            v = -int(txt[1:])
            return mk_variant("std::result::Result", "Ok", [AI(dst, v, v)]) if v >= tmin(dst) else err()
        return err()
    # digits mixed with literal characters
    if any(isinstance(a, str) and not a.isdigit() for a in atoms):
        return err()
    raise Undecided("parse of a composite digit string")


def handlers():
    hs = {
        "core::fmt::rt::Argument::<'_>::new_display": h_new_display, "core::fmt::rt::Argument::<'_>::new_debug": h_new_display,
        "std::fmt::Arguments::<'a>::new": h_args_new, "std::fmt::Arguments::<'a>::from_str": h_args_from_str,
        "core::fmt::Arguments::<'a>::new": h_args_new, "core::fmt::Arguments::<'a>::from_str": h_args_from_str,
        "std::fmt::Formatter::<'a>::write_fmt": h_write_fmt, "std::fmt::Formatter::<'a>::write_str": h_write_str,
        "std::fmt::Write::write_str": h_write_str, "std::fmt::Write::write_fmt": h_write_fmt,
        "std::fmt::Display::fmt": h_display_int, "std::fmt::Debug::fmt": h_display_int,
        "std::fmt::format": h_format, "alloc::fmt::format": h_format,
        "core::str::<impl str>::split": h_split, "std::iter::Iterator::next": h_next,
        "core::str::<impl str>::split_once": h_split_once, "core::str::<impl str>::rsplit_once": h_split_once,
        "core::str::<impl str>::find": h_find, "core::str::<impl str>::rfind": h_find,
        "core::str::<impl str>::len": h_len, "core::str::<impl str>::is_empty": h_is_empty,
        "std::ops::Index::index": h_index,
        "core::str::<impl str>::strip_prefix": h_strip, "core::str::<impl str>::strip_suffix": h_strip,
        "core::str::<impl str>::starts_with": h_starts_ends, "core::str::<impl str>::ends_with": h_starts_ends,
        "core::str::<impl str>::trim_end_matches": h_trim_matches, "core::str::<impl str>::trim_start_matches": h_trim_matches,
        "core::str::<impl str>::trim_matches": h_trim_matches,
        "core::str::<impl str>::trim": h_trim, "core::str::<impl str>::trim_start": h_trim, "core::str::<impl str>::trim_end": h_trim,
        "std::cmp::PartialEq::eq": h_eq, "std::cmp::PartialEq::ne": h_eq,
        "core::str::<impl str>::parse": h_parse,
    }
    return hs


def display(F, body, value, y0, y1):
    """Display::fmt interpreted on `value(it)` over the cell [y0, y1] -> atoms written"""
    it = ivl.Interp(F, y0, y1, handlers())
    h = Frame({"path": "formatter"}, {})
    f = Fmt()
    h.locals[0] = f
    r = it.call_body(body, [value(it), Ref(h, 0, ())], {}, 0)
    if not (isinstance(r, Agg) and r.variant == "Ok"):
        raise Unsupported("Display::fmt returned %r" % (r,))
    return tuple(f.out), it


def parse(F, body, s, y0, y1):
    it = ivl.Interp(F, y0, y1, handlers())
    return it.call_body(body, [s], {}, 0), it

#!/bin/sh
# confirm_seed.sh <PID> <seed dir from the agent> : confirm each mutant (suite passes, demo fails with patch, passes without)
# and file it under /verif/seeded/<PID><name>/.  Uses a scratch worktree that is removed afterwards.
pid=$1; sd=$2; map=${3:-ab}   # map: names under which mutants a and b are filed (e.g. "cd" for a second round)
wt=/tmp/cs-$pid
git -C /repo worktree remove --force $wt 2>/dev/null
git -C /repo worktree add -q --detach $wt HEAD || exit 2
export CARGO_NET_OFFLINE=true CARGO_TARGET_DIR=/tmp/cs-target
for m in a b; do
  [ -f $sd/${m}_patch.diff ] || continue
  cd $wt && git checkout -q -- . && git clean -fdq
  cp $sd/${m}_demo.rs tests/seed_demo_$m.rs
  res_clean=$(cargo test --offline --test seed_demo_$m 2>&1 | grep -E "^test result" | head -1)
  if ! git apply --whitespace=nowarn $sd/${m}_patch.diff; then echo "$pid$m: PATCH DOES NOT APPLY"; continue; fi
  res_demo=$(cargo test --offline --test seed_demo_$m 2>&1 | grep -E "^test result|error(\[|:)" | head -1)
  rm tests/seed_demo_$m.rs
  suite=$(cargo test --workspace --no-fail-fast --offline 2>&1 | grep -E "^test result" | awk '{p+=$4; f+=$6} END {print p" passed "f" failed"}')
  echo "$pid$m: clean-demo=[$res_clean] mutant-demo=[$res_demo] suite=[$suite]"
  case $m in a) mm=$(echo $map | cut -c1);; b) mm=$(echo $map | cut -c2);; esac
  out=/verif/seeded/$pid$mm
  mkdir -p $out
  cp $sd/${m}_patch.diff $out/patch.diff; cp $sd/${m}_demo.rs $out/demo.rs
  python3 - "$pid" "$m:$mm" "$sd/meta.json" "$out/meta.json" "$res_clean" "$res_demo" "$suite" <<'PY'
import json,sys
pid,m,src,dst,rc,rd,su=sys.argv[1:8]
m,filed=m.split(":")
try:
    meta=json.load(open(src)); mm=[x for x in meta.get("mutants",[]) if x.get("name")==m]
    mm=mm[0] if mm else {}
except Exception as e:
    mm={}
json.dump({"property":pid,"name":pid+filed,"summary":mm.get("summary"),"needs":mm.get("needs"),
 "confirmed":{"demo_on_clean_tree":rc,"demo_with_patch":rd,"existing_suite_with_patch":su,
 "how":"scratch worktree of /repo HEAD; cargo test --offline --test seed_demo_%s before/after git apply; cargo test --workspace --no-fail-fast --offline with the patch"%m}},open(dst,"w"),indent=1)
PY
done
cd / && git -C /repo worktree remove --force $wt

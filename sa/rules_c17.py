"""C17 — signed/natural mapping: Z1 implementations use the trait's default bodies, Z2 the bodies compute 2x / -2x-1 and
u/2 / -(u+1)/2 on every value of every width (value-partition interpreter, modular affine domain), Z3 the derived maps are
mutually inverse."""
import ivl
from ivl import AI

SIGNED = ["i8", "i16", "i32", "i64", "i128", "isize"]


def run_all(chk, fsets, tier):
    import facts
    for i, fs in enumerate(fsets):
        run_fs(chk, facts.load(fs), "" if fs == "default" else "@" + fs, i == 0)
    chk.assume("pointer-size types are analysed at the width of this target (64 bits); a 32-bit target instantiates the same generic body at the width covered by i32/u32")
    chk.trust("rustc MIR construction and the mirx exporter")
    chk.trust("contracts of the dependency common_traits: to_signed/to_unsigned reinterpret the same bits, ONE = 1, BITS = width")
    chk.trust("transfer functions of sa/ivl.py (modular affine forms, interval bounds)")


def run_fs(chk, F, sfx, first):
    """the rules on one feature set (code under cfg(feature = ...) is part of the mapping of that build)"""
    chk.rule("Z1.impls", floor=12, doc="ToNat is implemented for i8..i128 and isize, ToInt for u8..u128 and usize; the body analysed for a type is the one that type uses (its own override if it has one, else the trait's default body)")
    bodies = {}
    for tr, nm, tys in (("codes::ToNat", "to_nat", SIGNED), ("codes::ToInt", "to_int", ["u" + t[1:] for t in SIGNED])):
        have = sorted(i["self_ty"] for i in F.impls if (i.get("trait_def") or "") == tr)
        default = F.by_path.get("%s::%s" % (tr, nm), [])
        for t in tys:
            own = [b for b in F.find(name=nm) if b["kind"] == "AssocFn" and (b.get("impl_trait_def") or b.get("impl_trait") or "").startswith(tr) and b.get("impl_self") == t]
            body = own[0] if len(own) == 1 else default[0] if (not own and len(default) == 1) else None
            bodies[(nm, t)] = body
            chk.expect("Z1.impls", "%s for %s%s" % (tr, t, sfx), t in have and body is not None,
                       "%s is not implemented for %s, or its %s body cannot be identified (implementors: %s)" % (tr, t, nm, have),
                       sample={"trait": tr, "type": t, "body": body["path"] if body else None})
    chk.rule("Z2.formula", floor=24, doc="abstract interpretation of the generic body with Self := each width, the argument ranging over a whole sign (to_nat) or parity (to_int) class: the result is EXACTLY the affine map 2x | -2x-1 | u/2 | -(u+1)/2 in the result type, with no wrap-around on any value of the class")
    chk.rule("Z3.inverse", floor=24, doc="from the maps derived by Z2: to_int(to_nat(x)) = x on both sign classes and to_nat(to_int(u)) = u on both parity classes (composition of affine maps, class membership from the derived ranges), hence mutually inverse bijections over the whole type")
    for st in SIGNED:
        ut = "u" + st[1:]
        w = ivl.TY[st][0]
        M = (1 << (w - 1)) - 1
        got = {}
        tn, ti = bodies.get(("to_nat", st)), bodies.get(("to_int", ut))
        if tn is None or ti is None:
            continue
        for cls, lo, hi, body, ty, a, b, want in (("nonneg", 0, M, tn, st, 1, 0, (2, 0)), ("neg", -M - 1, -1, tn, st, 1, 0, (-2, -1)),
                                                  ("even", 0, M, ti, ut, 2, 0, (1, 0)), ("odd", 0, M, ti, ut, 2, 1, (-1, -1))):
            key = "%s.%s%s" % (ty, cls, sfx)
            it = ivl.Interp(F, lo, hi)
            try:
                r = it.call_body(body, [it.input(ty, a, b)], {"Self": ty})
            except (ivl.Unsupported, ivl.Undecided, ivl.Panic) as e:
                chk.bad("Z2.formula", key, "%s on the %s values of %s: %s: %s" % (body["path"], cls, ty, type(e).__name__, e))
                continue
            rty = ut if ty == st else st
            exact = isinstance(r, AI) and r.dir is not None and r.aff is not None and r.ty == rty
            what = {"nonneg": "2x", "neg": "-2x-1", "even": "u/2", "odd": "-(u+1)/2"}[cls]
            chk.expect("Z2.formula", key, exact and tuple(r.aff) == want,
                       "%s on the %s values of %s computes %r, expected exactly %s (affine form %s in the class variable) of type %s" % (body["path"], cls, ty, r, what, want, rty),
                       sample={"fn": body["path"], "type": ty, "class": cls, "result": repr(r) if w <= 16 else "%s affine %s" % (r.ty, r.aff)})
            if exact:
                got[cls] = r
        if len(got) != 4:
            chk.bad("Z3.inverse", st + sfx, "maps of width %d not all derived" % w)
            continue
        # to_int(to_nat(x)) = x
        for cls in ("nonneg", "neg"):
            f = got[cls]
            a1, b1 = f.aff
            okc = a1 % 2 == 0
            par = b1 % 2
            g = got["odd" if par else "even"]
            # u = a1*x + b1 = 2y + par  =>  y = (a1/2) x + (b1 - par)/2, which must lie in [0, M] (the class of g)
            ya, yb = a1 // 2, (b1 - par) // 2
            xs = (0, M) if cls == "nonneg" else (-M - 1, -1)
            ys = sorted((ya * xs[0] + yb, ya * xs[1] + yb))
            comp = (g.aff[0] * ya, g.aff[0] * yb + g.aff[1])
            chk.expect("Z3.inverse", "%s.to_int(to_nat).%s%s" % (st, cls, sfx), okc and ys[0] >= 0 and ys[1] <= M and comp == (1, 0),
                       "to_int(to_nat(x)) on the %s values of %s is the map %s*x + %s, not the identity" % (cls, st, comp[0], comp[1]), sample={"type": st, "class": cls, "composition": comp})
        # to_nat(to_int(u)) = u, u = 2y + par
        for cls, par in (("even", 0), ("odd", 1)):
            g = got[cls]
            tgt = "nonneg" if g.lo >= 0 else "neg" if g.hi <= -1 else None
            ok = tgt is not None
            comp = None
            if ok:
                f = got[tgt]
                comp = (f.aff[0] * g.aff[0], f.aff[0] * g.aff[1] + f.aff[1])
                ok = comp == (2, par)
            chk.expect("Z3.inverse", "%s.to_nat(to_int).%s%s" % (ut, cls, sfx), ok,
                       "to_nat(to_int(u)) on the %s values of %s is %s in y (u = 2y+%d), not u itself" % (cls, ut, comp, par), sample={"type": ut, "class": cls, "composition": comp})

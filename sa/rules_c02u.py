"""C02 — read_unary decided by interpretation (sa/ivl.py): the readers' read_unary interpreted on model streams in which the
terminating word is SYMBOLIC (every word with its first one at a given place, at once), for every start offset and 0..=2 all-zero
words in between: the result is the number of zeros before the first one and the position advances by result + 1."""
import ivl
from ivl import AI, Agg, Ref, Frame, Opaque, mk_variant, UNIT, Unsupported, Undecided, Panic
import rules_num as rn

BASE = 5          # the model stream starts at this word of the backend


def unbuffered_cases(e, offsets):
    """(offset, list of word makers, expected zeros): a word maker is ("const", v) or ("cell", lo, hi, a, b) = the word a*y + b, y in [lo, hi]"""
    for o in offsets:
        rem = 64 - o                                  # bits of the first word after the offset
        ones_before = (1 << o) - 1                    # the bits before the offset are all ones (already consumed; must be ignored)
        for j in (0, 1, 2, 3):                        # number of words without a one before the terminating word
            span = rem if j == 0 else 64              # bits of the terminating word that belong to the code
            for k in range(span):                     # place of the first one inside those bits, counted from the end of the word
                zeros_here = span - 1 - k
                before = 0 if j == 0 else rem + 64 * (j - 1)
                if e == "be":
                    # stream-order word: [o ones][rem bits]; the rem bits as a number y with its top one at bit k
                    lo, hi = 1 << k, (1 << (k + 1)) - 1
                    if j == 0:
                        term = ("cell", lo, hi, 1, ones_before << rem)
                        words = [term]
                    else:
                        first = ("const", ones_before << rem)
                        words = [first] + [("const", 0)] * (j - 1) + [("cell", lo, hi, 1, 0)]
                else:
                    # LE: the first stream bit is the least significant; bits before the offset are the low o bits
                    t = zeros_here                     # trailing zeros of the code bits of the terminating word
                    width = span - t - 1               # free bits above the one
                    if j == 0:
                        term = ("cell", 0, (1 << width) - 1, 1 << (o + t + 1), ones_before + (1 << (o + t)))
                        words = [term]
                    else:
                        first = ("const", ones_before)
                        words = [first] + [("const", 0)] * (j - 1) + [("cell", 0, (1 << width) - 1, 1 << (t + 1), 1 << t)]
                yield o, words, before + zeros_here


def run_unbuffered(chk, F, tier, rule="R9.unary"):
    chk.rule(rule, floor=10, doc="read_unary of the unbuffered readers interpreted on model streams whose terminating word is symbolic (all words with their first one at a given place at once), for every start offset, with 0..=3 words without a one in between, and arbitrary consumed bits before the offset: seeks to word bit_index/64, returns the number of zeros before the first one, advances by result + 1")
    offsets = list(range(64))
    for e, ety in (("be", rn.BE), ("le", rn.LE)):
        b = F.one(name="read_unary", trait_is="traits::bits::BitRead<%s>" % ety, impl_self="impls::bit_reader::BitReader<")
        adt = F.adts["impls::bit_reader::BitReader"]
        flds = [f["name"] for f in adt["variants"][0]["fields"]]
        probs, n = [], 0
        refused = None
        for o, words, want in unbuffered_cases(e, offsets):
            cell = [w for w in words if w[0] == "cell"][0]
            state = {"cursor": None, "seeks": []}

            def set_word_pos(it, name, args, fargs, fr, t, state=state):
                c = args[1].const() if isinstance(args[1], AI) else None
                state["seeks"].append(c)
                state["cursor"] = c
                return mk_variant("std::result::Result", "Ok", [UNIT])

            def read_word(it, name, args, fargs, fr, t, state=state, words=words):
                c = state["cursor"]
                if c is None:
                    raise Unsupported("read_word before any seek")
                state["cursor"] = c + 1
                i = c - BASE
                if i < 0:
                    return mk_variant("std::result::Result", "Ok", [AI("u64", (1 << 64) - 1, (1 << 64) - 1)])
                if i >= len(words):
                    return mk_variant("std::result::Result", "Ok", [AI("u64", (1 << 64) - 1, (1 << 64) - 1)])       # whatever follows the code
                w = words[i]
                if w[0] == "const":
                    return mk_variant("std::result::Result", "Ok", [AI("u64", w[1], w[1])])
                return mk_variant("std::result::Result", "Ok", [it.input("u64", w[3], w[4])])
            ident = lambda it, name, args, fargs, fr, t: args[0]
            hs = {"traits::words::WordSeek::set_word_pos": set_word_pos, "traits::words::WordRead::read_word": read_word,
                  "common_traits::Integer::to_be": ident, "common_traits::Integer::to_le": ident,
                  "core::num::<impl u64>::to_be": ident, "core::num::<impl u64>::to_le": ident}
            it = ivl.Interp(F, cell[1], cell[2], hs)
            h = Frame({"path": "reader"}, {})
            start = 64 * BASE + o
            vals = {"data": Opaque("the word source"), "bit_index": AI("u64", start, start)}
            h.locals[0] = Agg("adt", "impls::bit_reader::BitReader", "BitReader", 0, [vals.get(f, UNIT) for f in flds])
            env = {g: g for g in (b.get("generics") or [])}
            env["E"] = ety
            what = "%s, offset %d, %d word(s) before the terminating one, expected %d" % (e.upper(), o, len(words) - 1, want)
            try:
                r = it.call_body(b, [Ref(h, 0, ())], env, 0)
            except (Unsupported, Undecided) as ex:
                refused = "%s: %s" % (what, ex)
                break
            except Panic as ex:
                probs.append("%s: panics (%s)" % (what, ex))
                continue
            n += 1
            pos = h.locals[0].fields[flds.index("bit_index")]
            okr = isinstance(r, Agg) and r.variant == "Ok" and isinstance(r.fields[0], AI) and r.fields[0].const() == want
            okp = isinstance(pos, AI) and pos.const() == start + want + 1
            oks = state["seeks"][:1] == [BASE]
            if not (okr and okp and oks):
                probs.append("%s: returns %r, position %r (expected %d), seeks %s" % (what, r, pos, start + want + 1, state["seeks"]))
        if refused:
            chk.expect(rule, "bitreader.%s" % e, False, "BitReader<%s>::read_unary cannot be interpreted: %s" % (e.upper(), refused))
        else:
            chk.expect(rule, "bitreader.%s" % e, not probs and n > 0, "BitReader<%s>::read_unary: %s" % (e.upper(), "; ".join(probs[:3])),
                       detail={"problems": probs[:10]}, sample={"reader": "BitReader<%s>" % e.upper(), "cases": n, "offsets": len(offsets)})


DOUBLE = {"u8": "u16", "u16": "u32", "u32": "u64", "u64": "u128"}


def run_buffered(chk, F, tier, rule="R9.unary"):
    """BufBitReader::read_unary: buffer states with `bits` valid bits (every count 0..2W-1 for the small words, a spread for the large
    ones); the first one either inside the buffered bits (the buffer symbolic: all buffers with their first one at that place) or in a
    later word (symbolic) after 0..=2 zero words."""
    words_t = ("u8", "u16", "u32", "u64")
    for e, ety in (("be", rn.BE), ("le", rn.LE)):
        b = F.one(name="read_unary", trait_is="traits::bits::BitRead<%s>" % ety, impl_self="impls::buf_bit_reader::BufBitReader<")
        adt = F.adts["impls::buf_bit_reader::BufBitReader"]
        flds = [f["name"] for f in adt["variants"][0]["fields"]]
        ftys = {f["name"]: f["ty"] for f in adt["variants"][0]["fields"]}
        for word in words_t:
            W = ivl.TY[word][0]
            dbl = DOUBLE[word]
            W2 = 2 * W
            counts = list(range(W2)) if W <= 16 else sorted({0, 1, 2, W - 1, W, W + 1, W2 - 2, W2 - 1, 13, W + 13})
            probs, n, refused = [], 0, None
            for bits in counts:
                cases = []
                # (a) the first one is among the buffered bits: z zeros, a one, then bits - z - 1 free bits
                for z in range(bits):
                    free = bits - z - 1
                    if e == "be":
                        # valid bits are the top `bits` bits; below them zeros
                        a, c = 1 << (W2 - bits), (1 << free) << (W2 - bits)
                    else:
                        a, c = 1 << (z + 1), 1 << z
                    cases.append((("cell", 0, (1 << free) - 1, a, c), [], z, free))
                # (b) no one among the buffered bits: j zero words, then a word with z zeros, a one and W - z - 1 free bits
                for j in (0, 1, 2):
                    for z in range(W):
                        free = W - z - 1
                        if e == "be":
                            a, c = 1, 1 << free
                        else:
                            a, c = 1 << (z + 1), 1 << z
                        cases.append((("const", 0), [("const", 0)] * j + [("cell", 0, (1 << free) - 1, a, c)], bits + W * j + z, free))
                for buf0, words, want, free in cases:
                    cell = buf0 if buf0[0] == "cell" else words[-1]
                    fetched = []

                    def read_word(it, name, args, fargs, fr, t, words=words, fetched=fetched):
                        i = len(fetched)
                        fetched.append(i)
                        if i >= len(words):
                            raise Unsupported("a word fetched after the terminating one")
                        w = words[i]
                        return mk_variant("std::result::Result", "Ok", [AI(word, 0, 0) if w[0] == "const" else it.input(word, w[3], w[4])])
                    ident = lambda it, name, args, fargs, fr, t: args[0]
                    hs = {"traits::words::WordRead::read_word": read_word, "common_traits::Integer::to_be": ident, "common_traits::Integer::to_le": ident}
                    it = ivl.Interp(F, cell[1], cell[2], hs)
                    h = Frame({"path": "reader"}, {})
                    vals = {"backend": Opaque("the word source"), "bits_in_buffer": AI("usize", bits, bits),
                            "buffer": AI(dbl, 0, 0) if buf0[0] == "const" else it.input(dbl, buf0[3], buf0[4])}
                    h.locals[0] = Agg("adt", "impls::buf_bit_reader::BufBitReader", "BufBitReader", 0, [vals.get(f, UNIT) for f in flds])
                    env = {g: g for g in (b.get("generics") or [])}
                    env["E"] = ety
                    env["<WR as traits::words::WordRead>::Word"] = word
                    env[ftys["buffer"]] = dbl
                    what = "%s, word %s, %d buffered bits, %d word(s) fetched, expected %d" % (e.upper(), word, bits, len(words), want)
                    try:
                        r = it.call_body(b, [Ref(h, 0, ())], env, 0)
                    except (Unsupported, Undecided) as ex:
                        refused = "%s: %s" % (what, ex)
                        break
                    except Panic as ex:
                        probs.append("%s: panics (%s)" % (what, ex))
                        continue
                    n += 1
                    nb = h.locals[0].fields[flds.index("bits_in_buffer")]
                    okr = isinstance(r, Agg) and r.variant == "Ok" and isinstance(r.fields[0], AI) and r.fields[0].const() == want
                    okb = isinstance(nb, AI) and nb.const() == free and len(fetched) == len(words)
                    # the buffer afterwards: the free bits y that follow the one, in the valid window, zeros elsewhere (flagged only on a definite difference)
                    bf = h.locals[0].fields[flds.index("buffer")]
                    want_a = (1 << (W2 - free)) % (1 << W2) if e == "be" else 1
                    okf = True
                    if isinstance(bf, AI):
                        if free == 0:
                            okf = bf.const() in (0, None) and bf.lo <= 0 <= bf.hi
                        elif bf.aff is not None:
                            okf = (bf.aff[0] - want_a) % (1 << W2) == 0 and bf.aff[1] % (1 << W2) == 0
                        elif bf.const() is not None:
                            okf = False
                    if not (okr and okb and okf):
                        probs.append("%s: returns %r, %r bits buffered afterwards (expected %d), buffer %r, %d word(s) fetched" % (what, r, nb, free, bf, len(fetched)))
                if refused:
                    break
            key = "reader.%s@%s" % (e, word)
            if refused:
                chk.expect(rule, key, False, "BufBitReader<%s>::read_unary cannot be interpreted: %s" % (e.upper(), refused))
            else:
                chk.expect(rule, key, not probs and n > 0, "BufBitReader<%s>::read_unary: %s" % (e.upper(), "; ".join(probs[:3])),
                           detail={"problems": probs[:10]}, sample={"reader": "BufBitReader<%s> over %s" % (e.upper(), word), "cases": n})

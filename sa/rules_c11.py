"""C11 — byte-stream word adapter: transfer-count discipline (A1), error propagation (A2), byte-order pairing (A3), positions (A4)."""
import mir
import codeclass as cc
import rules_result as rr
from rules_c10 import is_arg, peel_ref

ADAPTER = "impls::word_adapter::WordAdapter<"
PARTIAL = ("std::io::Write::write", "std::io::Read::read", "std::io::Write::write_vectored", "std::io::Read::read_vectored")
WHOLE = ("std::io::Write::write_all", "std::io::Read::read_exact")


def adapter_methods(F):
    out = {}
    for b in F.find(impl_self=ADAPTER):
        if b["kind"] == "AssocFn" and (b.get("impl_trait_def") or "").startswith("traits::words::"):
            out[b["path"].split("::")[-1]] = b
    return out


def count_used(path, ev):
    """is the Ok(count) of a partial-transfer call used on this path"""
    r = ev[3]
    ok = ("okval", r)
    idx = path.events.index(ev)
    for e in path.events[idx + 1:]:
        if e[0] == "call" and any(mir.mentions(a, lambda x: x == ok) for a in e[2]):
            return True
        if e[0] == "store" and mir.mentions(e[2], lambda x: x == ok):
            return True
    for (t, op, v) in path.constraints:
        if mir.mentions(t, lambda x: x == ok):
            return True
    if path.ret is not None and mir.mentions(path.ret, lambda x: x == ok):
        return True
    return False


def check_transfer_counts(chk, F, bodies, rule):
    """A1: every call that may transfer fewer bytes than asked has its count used; whole-transfer calls satisfy it by contract"""
    n_whole = 0
    for b in bodies:
        paths = mir.Walker(b, unroll=1).run()
        sites = {}
        for p in paths:
            for e in p.calls():
                if e[1] in PARTIAL:
                    used = count_used(p, e)
                    # only paths that go on after the Ok branch matter
                    went_on = any(t == ("discr", ("try", e[3])) and op == "==" and v == 0 for (t, op, v) in p.constraints) or \
                        not any(t == ("discr", ("try", e[3])) for (t, op, v) in p.constraints)
                    s = sites.setdefault((e[1], e[5]), {"used": True, "seen": False})
                    if went_on:
                        s["seen"] = True
                        s["used"] = s["used"] and used
                elif e[1] in WHOLE:
                    sites.setdefault((e[1], e[5]), {"used": True, "seen": True, "whole": True})
        ords = {}
        for (callee, line), s in sorted(sites.items(), key=lambda kv: (kv[0][0], kv[0][1] or 0)):
            o = ords.get(callee, 0)
            ords[callee] = o + 1
            key = "%s|%s#%d" % (b["path"], callee.split("::")[-1], o)
            if s.get("whole"):
                n_whole += 1
                chk.ok(rule, key, sample={"fn": b["path"], "call": callee, "contract": "std: transfers the whole buffer or returns Err"})
            else:
                chk.expect(rule, key, s["used"],
                           "%s calls %s, which may transfer fewer bytes than asked, and never looks at the returned count: a short transfer is silently accepted"
                           % (b["path"], callee), detail={"fn": b["path"], "callee": callee})
    return n_whole


def run(chk, F, tier):
    M = adapter_methods(F)
    chk.rule("A1.counts", floor=2, doc="std I/O calls in the adapter: partial-transfer calls must use their count; write_all/read_exact are whole-transfer by contract")
    chk.rule("A2.errors", floor=5, doc="every io::Result in the adapter is propagated")
    chk.rule("A3.byteorder", floor=3, doc="write_word/read_word use the same byte order and whole words; the word written is the argument")
    chk.rule("A4.positions", floor=2, doc="word_pos = div_ceil(stream_position, BYTES); set_word_pos seeks to word*BYTES with the same constant")
    for need in ("read_word", "write_word", "flush", "word_pos", "set_word_pos"):
        if need not in M:
            chk.bad("A2.errors", "anchor:" + need, "WordAdapter::%s not found" % need)
            return
    check_transfer_counts(chk, F, [M[k] for k in sorted(M)], "A1.counts")
    # the adapter must perform its transfers through the wrapped object only
    for name, b in sorted(M.items()):
        d = rr.discipline(F, b)
        for (callee, line), ent in sorted(d.items(), key=lambda kv: (kv[0][0], kv[0][1] or 0)):
            bad = ent["kinds"] - rr.OK_KINDS
            chk.expect("A2.errors", "%s|%s#%d" % (name, callee.split("::")[-1], ent["ordinal"]), not bad,
                       "WordAdapter::%s: result of %s is %s" % (name, callee, sorted(bad)), sample={"fn": name, "callee": callee, "kinds": sorted(ent["kinds"])})
    # A3
    def order_of(paths, prefix):
        s = set()
        for p in paths:
            for e in p.calls():
                last = e[1].split("::")[-1]
                if last.startswith(prefix) and last.endswith("_bytes"):
                    s.add(last[len(prefix):-len("_bytes")])
        return s
    wp = [p for p in mir.walk(M["write_word"]) if p.end[0] == "return"]
    rp = [p for p in mir.walk(M["read_word"]) if p.end[0] == "return"]
    wo, ro = order_of(wp, "to_"), order_of(rp, "from_")
    chk.expect("A3.byteorder", "pairing", len(wo) == 1 and wo == ro, "write_word serialises with to_%s_bytes but read_word deserialises with from_%s_bytes" % (sorted(wo), sorted(ro)),
               sample={"write": sorted(wo), "read": sorted(ro)})
    okw = True
    why = ""
    for p in wp:
        tb = [e for e in p.calls() if e[1].split("::")[-1].startswith("to_") and e[1].endswith("_bytes")]
        tr = [e for e in p.calls() if e[1] in PARTIAL + WHOLE]
        if len(tb) != 1 or not is_arg(tb[0][2][0], 2):
            okw, why = False, "serialises %s, not the word argument" % ([mir.fmt(e[2][0]) for e in tb])
        elif len(tr) != 1 or not mir.mentions(mir.expand(tr[0][2][1], p), lambda x: x == ("app", tb[0][1], (("arg", 2, "word"),))):
            okw, why = False, "the buffer handed to the sink is not the whole serialised word"
    chk.expect("A3.byteorder", "write-whole-word", okw, "WordAdapter::write_word: " + why)
    okr = True
    for p in rp:
        if not (isinstance(p.ret, tuple) and p.ret[0] == "agg" and p.ret[3] == "Ok"):
            continue
        fb = [e for e in p.calls() if e[1].split("::")[-1].startswith("from_") and e[1].endswith("_bytes")]
        rx = [e for e in p.calls() if e[1] in PARTIAL + WHOLE]
        if len(fb) != 1 or len(rx) != 1 or p.ret[4][0] != fb[0][3]:
            okr, why = False, "Ok value is not from_*_bytes of the buffer"
            continue
        # the deserialised buffer is the local that read_exact filled (whole W::Bytes)
        buf_read = mir.expand(rx[0][2][1], p)
        src = fb[0][8][0] if len(fb[0]) > 8 else fb[0][2][0]
        if not (isinstance(src, tuple) and src[0] == "after"):
            okr, why = False, "deserialises %s, which read_exact did not fill" % mir.fmt(src)
    chk.expect("A3.byteorder", "read-whole-word", okr, "WordAdapter::read_word: " + why)
    # A4
    wps = [p for p in mir.walk(M["word_pos"]) if p.end[0] == "return" and p.ret[0] == "agg" and p.ret[3] == "Ok"]
    sps = [p for p in mir.walk(M["set_word_pos"]) if p.end[0] == "return"]
    c1 = c2 = None
    okp = len(wps) == 1
    if okp:
        ex = mir.expand(wps[0].ret[4][0], wps[0])
        okp = ex[0] == "app" and ex[1].endswith("div_ceil") and ex[2][0][0] == "okval" and ex[2][0][1][0] == "app" and ex[2][0][1][1] == "std::io::Seek::stream_position"
        c1 = cc.strip_casts(ex[2][1]) if okp else None
    chk.expect("A4.positions", "word_pos", okp and c1 is not None and c1[0] == "uneval" and c1[1].endswith("::BYTES"),
               "word_pos is not stream_position().div_ceil(W::BYTES): %s" % (mir.fmt(wps[0].ret) if wps else None))
    oks = False
    for p in sps:
        sk = [e for e in p.calls() if e[1] == "std::io::Seek::seek"]
        if len(sk) == 1:
            a = sk[0][2][1]
            if a[0] == "agg" and a[3] == "Start" and a[4][0][0] == "binop" and a[4][0][1] == "Mul":
                x, y = cc.strip_casts(a[4][0][2]), cc.strip_casts(a[4][0][3])
                if is_arg(x, 2):
                    c2 = y
                elif is_arg(y, 2):
                    c2 = x
                oks = c2 is not None
    chk.expect("A4.positions", "set_word_pos", oks and c2 == c1, "set_word_pos does not seek to word_index * the same BYTES constant word_pos divides by (%s vs %s)"
               % (mir.fmt(c2) if c2 else None, mir.fmt(c1) if c1 else None), sample={"const": mir.fmt(c1) if c1 else None})


def run_all(chk, fsets, tier):
    import facts
    run(chk, facts.load(fsets[0]), tier)

"""C11 — byte-stream word adapter: transfer-count discipline (A1), error propagation (A2), byte-order pairing (A3), positions (A4)."""
import mir
import codeclass as cc
import rules_result as rr
from rules_c10 import is_arg, peel_ref

ADAPTER = "impls::word_adapter::WordAdapter<"
PARTIAL = ("std::io::Write::write", "std::io::Read::read", "std::io::Write::write_vectored", "std::io::Read::read_vectored")
WHOLE = ("std::io::Write::write_all", "std::io::Read::read_exact")


def adapter_methods(F):
    out = {}
    for b in F.find(impl_self=ADAPTER):
        if b["kind"] == "AssocFn" and (b.get("impl_trait_def") or "").startswith("traits::words::"):
            out[b["path"].split("::")[-1]] = b
    return out


def payload_terms(r):
    return (("okval", r), ("field", ("variant", r, "Ok"), "0"))


def nothing_remains_after(path, ev):
    """after partial-transfer call `ev` on an Ok-returning path: is there a later true test that nothing remains
    (is_empty(..) true, len == 0, or count == len)?"""
    idx = path.events.index(ev)
    later_calls = {e[3]: e for e in path.events[idx + 1:] if e[0] == "call"}
    pay = payload_terms(ev[3])
    for (t, op, v) in path.constraints:
        true_ = (op == "notin" and v == (0,)) or (op == "==" and v == 1)
        false_ = (op == "==" and v == 0)
        # is_empty(x) evaluated after the call
        if t in later_calls and later_calls[t][1].endswith("::is_empty") and true_:
            return True
        if t[0] == "unop" and t[1] == "Not" and t[2] in later_calls and later_calls[t[2]][1].endswith("::is_empty") and false_:
            return True
        if t[0] == "binop" and t[1] in ("Eq", "Ne", "Lt", "Ge"):
            a, b = t[2], t[3]
            is_len = lambda z: isinstance(z, tuple) and ((z[0] == "ret" and z[2].endswith("::len")) or (z[0] == "unop" and z[1] == "PtrMetadata"))
            has_pay = lambda z: any(mir.mentions(z, lambda x: x == q) for q in pay)
            if t[1] == "Eq" and true_ and ((is_len(a) and (cc.const_int(b) == 0 or has_pay(b))) or (is_len(b) and (cc.const_int(a) == 0 or has_pay(a)))):
                return True
            if t[1] == "Ne" and false_ and ((is_len(a) and (cc.const_int(b) == 0 or has_pay(b))) or (is_len(b) and (cc.const_int(a) == 0 or has_pay(a)))):
                return True
    return False


def check_transfer_counts(chk, F, bodies, rule):
    """A1: a call that may transfer fewer bytes than asked (Read::read / Write::write) must not be followed by a
    success return unless a later test establishes that nothing remains; write_all/read_exact satisfy this by contract"""
    for b in bodies:
        paths = mir.Walker(b, unroll=1).run()
        sites = {}
        for p in paths:
            is_ok_ret = p.end[0] == "return" and isinstance(p.ret, tuple) and not (p.ret[0] == "from_residual") and \
                not (p.ret[0] == "agg" and p.ret[3] == "Err")
            part = [e for e in p.calls() if e[1] in PARTIAL]
            for e in p.calls():
                if e[1] in WHOLE:
                    sites.setdefault((e[1], e[5]), {"ok": True, "whole": True})
            if part:
                last = part[-1]
                s = sites.setdefault((last[1], last[5]), {"ok": True})
                if is_ok_ret and not nothing_remains_after(p, last):
                    s["ok"] = False
        ords = {}
        for (callee, line), s in sorted(sites.items(), key=lambda kv: (kv[0][0], kv[0][1] or 0)):
            o = ords.get(callee, 0)
            ords[callee] = o + 1
            key = "%s|%s#%d" % (b["path"], callee.split("::")[-1], o)
            if s.get("whole"):
                chk.ok(rule, key, sample={"fn": b["path"], "call": callee, "contract": "std: transfers the whole buffer or returns Err"})
            else:
                chk.expect(rule, key, s["ok"],
                           "%s calls %s, which may transfer fewer bytes than asked, and then reports success on a path where nothing "
                           "establishes that the whole buffer was transferred: a short transfer is silently accepted" % (b["path"], callee),
                           detail={"fn": b["path"], "callee": callee})


def run(chk, F, tier):
    M = adapter_methods(F)
    chk.rule("A1.counts", floor=2, doc="std I/O calls in the adapter: partial-transfer calls must use their count; write_all/read_exact are whole-transfer by contract")
    chk.rule("A2.errors", floor=5, doc="every io::Result in the adapter is propagated")
    chk.rule("A3.byteorder", floor=3, doc="write_word/read_word use the same byte order and whole words; the word written is the argument")
    chk.rule("A4.positions", floor=2, doc="abstract interpretation for W in {u8..u128} and every stream position (residue classes): word_pos() = ceil(stream_position / BYTES); set_word_pos(w) seeks to SeekFrom::Start(w * BYTES)")
    for need in ("read_word", "write_word", "flush", "word_pos", "set_word_pos"):
        if need not in M:
            chk.bad("A2.errors", "anchor:" + need, "WordAdapter::%s not found" % need)
            return
    check_transfer_counts(chk, F, [M[k] for k in sorted(M)], "A1.counts")
    # the adapter must perform its transfers through the wrapped object only
    for name, b in sorted(M.items()):
        d = rr.discipline(F, b)
        for (callee, line), ent in sorted(d.items(), key=lambda kv: (kv[0][0], kv[0][1] or 0)):
            bad = ent["kinds"] - rr.OK_KINDS - {"matched-ok"}
            chk.expect("A2.errors", "%s|%s#%d" % (name, callee.split("::")[-1], ent["ordinal"]), not bad,
                       "WordAdapter::%s: result of %s is %s" % (name, callee, sorted(bad)), sample={"fn": name, "callee": callee, "kinds": sorted(ent["kinds"])})
    # A3
    def order_of(paths, prefix):
        s = set()
        for p in paths:
            for e in p.calls():
                last = e[1].split("::")[-1]
                if last.startswith(prefix) and last.endswith("_bytes"):
                    s.add(last[len(prefix):-len("_bytes")])
        return s
    wp = [p for p in mir.walk(M["write_word"]) if p.end[0] == "return"]
    rp = [p for p in mir.walk(M["read_word"]) if p.end[0] == "return"]
    wo, ro = order_of(wp, "to_"), order_of(rp, "from_")
    chk.expect("A3.byteorder", "pairing", len(wo) == 1 and wo == ro, "write_word serialises with to_%s_bytes but read_word deserialises with from_%s_bytes" % (sorted(wo), sorted(ro)),
               sample={"write": sorted(wo), "read": sorted(ro)})
    okw = True
    why = ""
    for p in wp:
        tb = [e for e in p.calls() if e[1].split("::")[-1].startswith("to_") and e[1].endswith("_bytes")]
        tr = [e for e in p.calls() if e[1] in PARTIAL + WHOLE]
        if len(tb) != 1 or not is_arg(tb[0][2][0], 2):
            okw, why = False, "serialises %s, not the word argument" % ([mir.fmt(e[2][0]) for e in tb])
        elif not tr:
            emp = {e[3] for e in p.calls() if e[1].endswith("::is_empty")}
            if not any(t in emp and ((o == "notin" and v == (0,)) or (o == "==" and v == 1)) for (t, o, v) in p.constraints):
                okw, why = False, "a path reports success without handing anything to the sink"
        elif any(not mir.mentions(mir.expand(x[8][1], p), lambda z: z == ("app", tb[0][1], (("arg", 2, "arg2"),))) for x in tr[:1]):
            okw, why = False, "the buffer handed to the sink does not come from the serialised word"
    chk.expect("A3.byteorder", "write-whole-word", okw, "WordAdapter::write_word: " + why)
    okr = True
    for p in rp:
        if not (isinstance(p.ret, tuple) and p.ret[0] == "agg" and p.ret[3] == "Ok"):
            continue
        fb = [e for e in p.calls() if e[1].split("::")[-1].startswith("from_") and e[1].endswith("_bytes")]
        rx = [e for e in p.calls() if e[1] in PARTIAL + WHOLE]
        if len(fb) != 1 or len(rx) != 1 or p.ret[4][0] != fb[0][3]:
            okr, why = False, "Ok value is not from_*_bytes of the buffer"
            continue
        # the deserialised buffer is the local that read_exact filled (whole W::Bytes)
        buf_read = mir.expand(rx[0][2][1], p)
        src = fb[0][8][0] if len(fb[0]) > 8 else fb[0][2][0]
        if not (isinstance(src, tuple) and src[0] == "after"):
            okr, why = False, "deserialises %s, which read_exact did not fill" % mir.fmt(src)
    chk.expect("A3.byteorder", "read-whole-word", okr, "WordAdapter::read_word: " + why)
    # A4: decided by abstract interpretation of the two bodies for every word size (not by the shape of the arithmetic):
    # word_pos() = ceil(stream_position / BYTES) and set_word_pos(w) seeks to w * BYTES, for every position / index
    import ivl
    from ivl import AI, Agg, Opaque, mk_variant

    def run_body(body, wty, y0, y1, a, b0, seen):
        it = ivl.Interp(F, y0, y1)

        def h_pos(it_, name, args, fargs, fr, t):
            return mk_variant("std::result::Result", "Ok", [it_.input("u64", a, b0)])

        def h_seek(it_, name, args, fargs, fr, t):
            seen.append(args[1])
            return mk_variant("std::result::Result", "Ok", [AI("u64", 0, 0)])
        it.handlers = {"std::io::Seek::stream_position": h_pos, "std::io::Seek::seek": h_seek}
        args = [Opaque("adapter")] + ([it.input("u64", a, b0)] if body is M["set_word_pos"] else [])
        return it.call_body(body, args, {"W": wty, "B": "<backend>"}, 0)

    okp, okv, whyp, whys = True, True, None, None
    for wty in ("u8", "u16", "u32", "u64", "u128"):
        nb = ivl.TY[wty][0] // 8
        try:
            for r in range(nb):
                ymax = ((1 << 64) - 1 - r) // nb
                res = run_body(M["word_pos"], wty, 0, ymax, nb, r, [])
                v = res.fields[0] if isinstance(res, Agg) and res.variant == "Ok" else None
                want = (1, 1 if r else 0)
                if not (isinstance(v, AI) and v.aff is not None and v.dir is not None and tuple(v.aff) == want):
                    okp, whyp = False, "for %s words and stream positions %d*y + %d word_pos() is %r, not y + %d" % (wty, nb, r, v, want[1])
            seen = []
            ymax = ((1 << 64) - 1) // nb
            res = run_body(M["set_word_pos"], wty, 0, ymax, 1, 0, seen)
            tgt = seen[0].fields[0] if len(seen) == 1 and isinstance(seen[0], Agg) and seen[0].variant == "Start" and seen[0].fields else None
            if not (isinstance(tgt, AI) and tgt.aff is not None and tgt.dir is not None and tuple(tgt.aff) == (nb, 0)):
                okv, whys = False, "for %s words set_word_pos(w) seeks to %r, not to SeekFrom::Start(%d*w)" % (wty, seen, nb)
        except (ivl.Unsupported, ivl.Undecided, ivl.Panic) as ex:
            okp = okv = False
            whyp = whys = "%s words: %s: %s" % (wty, type(ex).__name__, ex)
    chk.expect("A4.positions", "word_pos", okp, "WordAdapter::word_pos is not ceil(stream_position / W::BYTES): %s" % whyp, sample={"words": "u8..u128", "classes": "all residues"})
    chk.expect("A4.positions", "set_word_pos", okv, "WordAdapter::set_word_pos: %s" % whys)


def run_all(chk, fsets, tier):
    import facts
    run(chk, facts.load(fsets[0]), tier)
    # bytes handed to the sink reach it only if the bit writer flushes the adapter on every flush/drop/unwrap
    import deps
    deps.writer_structure(chk, facts.load(fsets[0]), ("W3.drop",), "A5.flush", "flush, drop and into_inner of the bit writer end by flushing the word sink, whose error is reported (C01)")

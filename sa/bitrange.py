"""Bit-range summaries (DESIGN.md 3.3 item 3): for a word-valued term, affine bounds lo, hi such that every set bit of the
value lies in a position lo <= i < hi.  Ranges are derived from the term structure (shifts, masks, casts, constants,
contracts of reads) and compared with the linear store of the path (exact LP entailment).  They decide structural
clauses only: which positions CAN be non-zero, never which values the bits have.

A range is a pair (lo, hi) of numabs.Aff.  hi may exceed the type's width and lo may be negative: both are harmless
(the claim is about bits outside [lo, hi)).  `full(w)` = (0, w).
"""
import lp
import mir
from numabs import Aff, le, const


OPTRAITS = {"std::ops::Shl::shl": "Shl", "std::ops::Shr::shr": "Shr", "std::ops::Sub::sub": "Sub", "std::ops::Add::add": "Add",
            "std::ops::BitAnd::bitand": "BitAnd", "std::ops::BitOr::bitor": "BitOr", "std::ops::BitXor::bitxor": "BitXor", "std::ops::Not::not": "Not"}


class Ranges:
    def __init__(self, num, store, entry_ranges=None):
        self.num = num
        self.store = store          # closed linear constraints of the path at the point of interest
        self.entry = entry_ranges or {}
        self.cache = {}

    # -- order helpers ------------------------------------------------------
    def ent_le(self, a, b):
        g = le(a, b)
        return lp.entails(self.num.close(self.store, [g]), g)

    def amin(self, a, b):
        if self.ent_le(a, b):
            return a
        if self.ent_le(b, a):
            return b
        return None

    def amax(self, a, b):
        if self.ent_le(a, b):
            return b
        if self.ent_le(b, a):
            return a
        return None

    def width(self, t):
        return self.num.cfg.width(self.num.ty_of(t))

    def aff_exact(self, t):
        """affine form of t; a narrowing cast is the identity when the store shows that the value fits the target"""
        num = self.num
        if isinstance(t, tuple) and t and t[0] == "cast":
            src = self.aff_exact(t[1])
            wt = num.cfg.width(t[2])
            if src is not None and wt is not None and self.ent_le(src, const((1 << wt) - 1)) and self.ent_le(const(0), src):
                return src
        return num.aff(t)

    def full(self, t):
        w = self.width(t)
        return (const(0), const(w)) if w else None

    # -- ranges --------------------------------------------------------------
    def rng(self, t):
        if t in self.cache:
            return self.cache[t]
        r = self._rng(t)
        self.cache[t] = r
        return r

    def _rng(self, t):
        num = self.num
        if not isinstance(t, tuple) or not t:
            return None
        if t in self.entry:
            return self.entry[t]
        lg = self.ilog2_of(t)
        if lg is not None and t[0] != "const":
            # r = ilog2(t): t < 2^(r+1)
            return (const(0), lg + const(1))
        rf = getattr(num, "range_facts", None)
        if rf and t in rf:
            return rf[t]
        k = t[0]
        if k == "const":
            if isinstance(t[1], bool):
                return (const(0), const(1 if t[1] else 0))
            if isinstance(t[1], int) and t[1] >= 0:
                v = t[1]
                if v == 0:
                    return (const(0), const(0))
                return (const((v & -v).bit_length() - 1), const(v.bit_length()))
            return None
        if k == "uneval":
            nm = t[1].split("::")[-1]
            if nm == "ZERO":
                return (const(0), const(0))
            if nm == "ONE":
                return (const(0), const(1))
            return self.full(t)
        if k == "cast":
            r = self.rng(t[1])
            wt = num.cfg.width(t[2])
            if r is None:
                # an integer-valued source: its magnitude bounds the top bit only loosely; use the target width
                ws = self.width(t[1])
                if ws is not None and wt is not None:
                    return (const(0), const(min(ws, wt)))
                return (const(0), const(wt)) if wt else None
            lo, hi = r
            if wt is not None:
                m = self.amin(hi, const(wt))
                hi = m if m is not None else hi
            return (lo, hi)
        if k == "binop":
            op = t[1]
            if op in ("Shl", "ShlUnchecked"):
                r, kk = self.rng(t[2]), self.aff_exact(t[3])
                if r is None or kk is None:
                    return self.full(t)
                hi = r[1] + kk
                w = self.width(t[2])
                if w is not None:
                    m = self.amin(hi, const(w))      # bits shifted beyond the width are lost
                    hi = m if m is not None else hi
                return (r[0] + kk, hi)
            if op in ("Shr", "ShrUnchecked"):
                r, kk = self.rng(t[2]), self.aff_exact(t[3])
                if r is None or kk is None:
                    return self.full(t)
                lo = r[0] - kk
                m = self.amax(lo, const(0))
                return (m if m is not None else lo, r[1] - kk)
            if op == "BitXor":
                # x ^ (1 << ilog2(x)) clears the top bit: the result is < 2^ilog2(x)
                for x, m in ((t[2], t[3]), (t[3], t[2])):
                    m2 = m
                    while isinstance(m2, tuple) and m2[0] == "cast":
                        m2 = m2[1]
                    if isinstance(m2, tuple) and m2[0] == "binop" and m2[1] == "Shl" and m2[2][0] == "const" and m2[2][1] == 1:
                        lg = self.ilog2_of(x)
                        kk = num.aff(m2[3])
                        if lg is not None and kk is not None and self.ent_le(lg, kk) and self.ent_le(kk, lg):
                            return (const(0), kk)
            if op in ("BitOr", "BitXor"):
                a, b = self.rng(t[2]), self.rng(t[3])
                if a is None or b is None:
                    return self.full(t)
                if self.empty(a):
                    return b
                if self.empty(b):
                    return a
                lo, hi = self.amin(a[0], b[0]), self.amax(a[1], b[1])
                f = self.full(t)
                return (lo if lo is not None else (f[0] if f else const(0)), hi if hi is not None else (f[1] if f else a[1]))
            if op == "BitAnd":
                a, b = self.rng(t[2]), self.rng(t[3])
                if a is None:
                    return b or self.full(t)
                if b is None:
                    return a
                lo = self.amax(a[0], b[0]) or a[0]
                hi = self.amin(a[1], b[1]) or a[1]
                return (lo, hi)
            if op in ("Sub", "Add", "Mul", "Div", "Rem"):
                # arithmetic: (1 << n) - 1 is the mask [0, n)
                if op == "Sub" and t[2][0] == "binop" and t[2][1] == "Shl" and t[2][2][0] in ("const", "uneval") and t[3][0] in ("const", "uneval"):
                    one, sub1 = self.rng(t[2][2]), self.rng(t[3])
                    kk = self.aff_exact(t[2][3])
                    is1 = lambda r: r is not None and r[0].is_const() and r[0].k == 0 and r[1].is_const() and r[1].k == 1
                    w = self.width(t[2][2])
                    # (1 << k) - 1 with k < width (an overflowing shift would panic or wrap: not a mask then)
                    if is1(one) and is1(sub1) and kk is not None and w is not None and self.ent_le(kk, const(w - 1)):
                        return (const(0), kk)
                return self.full(t)
            return self.full(t)
        if k == "unop":
            if t[1] == "Not":
                # !(MAX << a << b ..)  =  mask of the a + b + .. low bits
                L = self.ones_from(t[2])
                if L is not None:
                    return (const(0), L)
                return self.full(t)
            return self.full(t)
        if k == "wordop":
            if t[1] in ("rotate_right", "rotate_left") and len(t) > 3:
                r, kk, w = self.rng(t[2]), self.aff_exact(t[3]), self.width(t[2])
                if r is not None and kk is not None and w is not None:
                    lo, hi = r
                    if t[1] == "rotate_right":
                        if self.ent_le(hi, kk) and self.ent_le(kk, const(w)):      # everything wraps to the top
                            return (lo + const(w) - kk, hi + const(w) - kk)
                        if self.ent_le(kk, lo):                                     # nothing wraps
                            return (lo - kk, hi - kk)
                    else:
                        if self.ent_le(hi + kk, const(w)):
                            return (lo + kk, hi + kk)
                        if self.ent_le(const(w), lo + kk) and self.ent_le(kk, const(w)):
                            return (lo + kk - const(w), hi + kk - const(w))
            return self.full(t)
        if k == "ret" and t[2].startswith("std::ops::") and t[2] in OPTRAITS:
            # operator-trait call on a word type (generic code): same meaning as the primitive operator
            for e in getattr(num, "ctx_events", []):
                if e[0] == "call" and e[3] == t:
                    args = e[8] if len(e) > 8 and e[8] else e[2]
                    if len(args) == 2 and OPTRAITS[t[2]] != "Not":
                        return self.rng(("binop", OPTRAITS[t[2]], args[0], args[1]))
                    if len(args) == 1 and OPTRAITS[t[2]] == "Not":
                        return self.rng(("unop", "Not", args[0]))
            return self.full(t)
        if k == "ret" and t[2].endswith("::wrapping_sub"):
            for e in getattr(num, "ctx_events", []):
                if e[0] == "call" and e[3] == t and len(e[2]) == 2:
                    a, b = e[2]
                    if b[0] == "const" and b[1] == 1 and a[0] == "binop" and a[1] == "Shl" and a[2][0] == "const" and a[2][1] == 1:
                        kk = num.aff(a[3])
                        if kk is not None:
                            return (const(0), kk)
            return self.full(t)
        if k in ("okval", "field"):
            # results of reads: Ok(read_bits(n)) / Ok(peek_bits(n)) have their set bits in [0, n)
            src = t[1] if k == "okval" else (t[1][1] if (t[1][0] == "variant" and t[1][2] == "Ok") else None)
            if src is not None:
                for e in getattr(num, "ctx_events", []):
                    if e[0] == "call" and e[3] == src and e[1] in ("traits::bits::BitRead::read_bits", "traits::bits::BitRead::peek_bits"):
                        n = num.aff(e[2][1])
                        if n is not None:
                            return (const(0), n)
            return self.full(t)
        if k == "after":
            return self.full(t[2]) if len(t) > 2 else None
        if k in ("lin", "havoc", "arg", "ret", "deref", "local", "index"):
            return self.full(t)
        return self.full(t)

    def ones_from(self, t, depth=0):
        """affine L such that exactly the bits L..width of t are set (all-ones shifted left), or None"""
        if not isinstance(t, tuple) or not t or depth > 8:
            return None
        w = self.width(t)
        if w is None:
            return None
        if t[0] == "uneval" and t[1].endswith("::MAX"):
            return const(0)
        if t[0] == "const" and isinstance(t[1], int) and not isinstance(t[1], bool) and t[1] == (1 << w) - 1:
            return const(0)
        if t[0] == "binop" and t[1] in ("Shl", "ShlUnchecked"):
            L = self.ones_from(t[2], depth + 1)
            kk = self.aff_exact(t[3])
            if L is not None and kk is not None and self.ent_le(const(0), kk):
                return L + kk
        if t[0] == "ret" and t[2] == "std::ops::Shl::shl":
            for e in getattr(self.num, "ctx_events", []):
                if e[0] == "call" and e[3] == t:
                    args = e[8] if len(e) > 8 and e[8] else e[2]
                    if len(args) == 2:
                        return self.ones_from(("binop", "Shl", args[0], args[1]), depth + 1)
        return None

    def ilog2_of(self, t):
        """affine form of ilog2(t) when the path computed it"""
        for e in getattr(self.num, "ctx_events", []):
            if e[0] == "call" and e[1].endswith("::ilog2") and e[2] and e[2][0] == t:
                return self.num.aff(e[3])
        return None

    def empty(self, r):
        return r is not None and self.ent_le(r[1], r[0])

    def disjoint(self, a, b):
        """ranges provably do not overlap"""
        if a is None or b is None:
            return False
        return self.empty(a) or self.empty(b) or self.ent_le(a[1], b[0]) or self.ent_le(b[1], a[0])

    def within(self, r, lo=None, hi=None):
        """every possibly-set bit lies in [lo, hi)"""
        if r is None:
            return False
        if self.empty(r):
            return True
        ok = True
        if lo is not None:
            ok = ok and self.ent_le(lo, r[0])
        if hi is not None:
            ok = ok and self.ent_le(r[1], hi)
        return ok

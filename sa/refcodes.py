"""Independent executable *definitions* of the codes, written from the module
documentation of src/codes (mod.rs lines 9-86 and the headers of gamma.rs,
delta.rs, zeta.rs, minimal_binary.rs).  Used only on constant data of the
source (tables, documented examples) — never to run library code.

A codeword is a list of bits in *stream order* (first bit of the stream first).
Endianness conventions (src/codes/mod.rs, src/traits/mod.rs):
  BE: a w-bit field is emitted most significant bit first;
  LE: a w-bit field is emitted least significant bit first;
  unary(n) is n zeros followed by a one in both;
  minimal binary: the l-bit prefix is emitted first, the extra bit last, in both.
"""


def unary(n):
    return [0] * n + [1]


def field(e, x, w):
    assert 0 <= x < (1 << w) or w == 0 and x == 0, (x, w)
    bits = [(x >> i) & 1 for i in range(w)]      # LSB first
    return bits if e == "le" else bits[::-1]


def ilog2(x):
    assert x >= 1
    return x.bit_length() - 1


def gamma(e, n):
    lam = ilog2(n + 1)
    return unary(lam) + field(e, (n + 1) - (1 << lam), lam)


def delta(e, n):
    lam = ilog2(n + 1)
    return gamma(e, lam) + field(e, (n + 1) - (1 << lam), lam)


def minimal_binary(e, x, u):
    """minimal_binary.rs header: s = ceil(log2 u); x < 2^s - u: x in s-1 bits; else x - u + 2^s in s bits
    (emitted as the (s-1)-bit prefix followed by the last bit; for u a power of two every word is a plain s-bit field)."""
    assert 0 <= x < u
    s = (u - 1).bit_length()
    t = (1 << s) - u
    if x < t:
        return field(e, x, s - 1)
    if t == 0:
        return field(e, x, s)
    y = x - u + (1 << s)
    return field(e, y >> 1, s - 1) + [y & 1]


def zeta(e, n, k):
    h = ilog2(n + 1) // k
    lo = 1 << (h * k)
    hi = 1 << ((h + 1) * k)
    return unary(h) + minimal_binary(e, n + 1 - lo, hi - lo)


def pack(e, bits):
    """the integer v such that write_bits(v, len(bits)) emits `bits` in stream order"""
    v = 0
    if e == "be":
        for b in bits:
            v = (v << 1) | b
    else:
        for i, b in enumerate(bits):
            v |= b << i
    return v


def window_bits(e, idx, width):
    """stream-order bits of a `width`-bit peeked window whose numeric value is idx"""
    return field(e, idx, width)


def decode_table(code, e, read_bits):
    """expected decode table: idx -> (value, length) or None, built from the *encoder* definition only"""
    table = {}
    v = 0
    words = {}
    # every codeword of length <= read_bits belongs to a value < 2^(read_bits+1) (len >= log2(v+1))
    while v < (1 << (read_bits + 1)):
        w = code(e, v)
        if len(w) <= read_bits:
            words[tuple(w)] = v
        v += 1
    out = []
    for idx in range(1 << read_bits):
        bits = window_bits(e, idx, read_bits)
        hit = None
        for l in range(1, read_bits + 1):
            vv = words.get(tuple(bits[:l]))
            if vv is not None:
                hit = (vv, l)
                break
        out.append(hit)
    return out


DOC_TABLE = None

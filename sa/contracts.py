"""Contracts of std / common_traits / crate trait primitives used by the numeric interpreter (DESIGN.md 3.3).

Each entry: callee def path -> {"pre": fn(num, ev, cfg) -> [(text, [goal constraints] | None)],
                               "post": fn(num, ev) -> [constraints],
                               "fork": fn(walker, st, term, args) -> [fork dicts]}
One line of justification per entry.  `ev` is a walker call event:
  (call, callee, args, result term, resolved callee, line, fn term, generic args, resolved args, dest type)
"""
import mir
from fractions import Fraction
from numabs import Aff, le, lt, const, SIGNED

C = {}


def reg(names, **kw):
    for n in ([names] if isinstance(names, str) else names):
        C[n] = dict(kw)


def _aff(num, t):
    return num.aff(t)


def _deref(t):
    while isinstance(t, tuple) and t[0] == "ref":
        t = t[1]
    return t


# --- shifts on generic words: `<W as Shl<T>>::shl(x, n)` panics in debug builds (and wraps the amount in release) when n >= width
def shift_pre(num, ev, cfg):
    ga = ev[7]
    w = cfg.width(ga[0]) if ga else None
    rhs = ev[2][1] if len(ev[2]) > 1 else None
    a = num.aff(rhs) if rhs is not None else None
    if w is None or a is None:
        return [("shift amount of %s on %s in range" % (ev[1].split("::")[-1], ga[0] if ga else "?"), None)]
    goals = [lt(a, const(w))]
    if num.ty_of(rhs) in SIGNED:
        goals.append(le(const(0), a))
    return [("shift amount %s < %d (width of %s)" % (mir.fmt(rhs)[:40], w, ga[0][-30:]), goals)]


reg(["std::ops::Shl::shl", "std::ops::Shr::shr", "std::ops::ShlAssign::shl_assign", "std::ops::ShrAssign::shr_assign"], pre=shift_pre)


# --- rotate_left/right take the amount modulo the width: no precondition (std docs)
# --- ilog2 panics on zero (std docs); result = floor(log2 x) in [0, width-1]
def ilog2_pre(num, ev, cfg):
    a = num.aff(ev[2][0])
    if a is None:
        return [("ilog2 argument is non-zero", None)]
    return [("ilog2 argument %s >= 1" % mir.fmt(ev[2][0])[:40], [le(const(1), a)])]


def ilog2_post(num, ev):
    r = num.aff(ev[3])
    ty = num.ty_of(ev[2][0])
    w = num.cfg.width(ty) or 64
    if r is None:
        return []
    return [le(const(0), r), le(r, const(w - 1))]


reg(["core::num::<impl u64>::ilog2", "core::num::<impl usize>::ilog2", "core::num::<impl u32>::ilog2"], pre=ilog2_pre, post=ilog2_post)


# --- leading/trailing zeros: in [0, width] (std docs)
def known_nonzero(num, x):
    """has the path tested x != ZERO (PartialEq::ne true / eq false against the type's ZERO or literal 0)"""
    x = canon_slice(x) if "canon_slice" in globals() else x
    for e in getattr(num, "ctx_events", []):
        if e[0] == "call" and (e[1].endswith("PartialEq::ne") or e[1].endswith("PartialEq::eq")) and len(e[8]) == 2:
            a, b = canon_slice(e[8][0]), canon_slice(e[8][1])
            other = b if a == x else a if b == x else None
            if other is None:
                continue
            zero = (other[0] == "uneval" and other[1].endswith("::ZERO")) or (other[0] == "const" and other[1] == 0)
            if not zero:
                continue
            want_true = e[1].endswith("::ne")
            for (t, op, v) in getattr(num, "ctx_cons", []):
                if t == e[3]:
                    truth = (op == "notin" and tuple(v) == (0,)) or (op == "==" and v == 1)
                    if truth == want_true:
                        return True
    # primitive comparison x == 0 / x != 0 taken on the path
    for (t, op, v) in getattr(num, "ctx_cons", []):
        if isinstance(t, tuple) and t and t[0] == "binop" and t[1] in ("Eq", "Ne"):
            a, b = canon_slice(t[2]), canon_slice(t[3])
            other = b if a == x else a if b == x else None
            if other is None or not ((other[0] == "uneval" and other[1].endswith("::ZERO")) or (other[0] == "const" and other[1] == 0)):
                continue
            truth = (op == "notin" and tuple(v) == (0,)) or (op == "==" and v == 1)
            if truth == (t[1] == "Ne"):
                return True
    return False


def zeros_post(num, ev):
    r = num.aff(ev[3])
    ga = ev[7]
    ty = num.ty_of(ev[2][0]) or (ga[0] if ga else None)
    w = num.cfg.width(ty) or (num.cfg.width(ga[0]) if ga else None)
    if r is None or w is None:
        return [le(const(0), r)] if r is not None else []
    # a non-zero word has fewer than `width` leading/trailing zeros
    if known_nonzero(num, ev[8][0]):
        return [le(const(0), r), le(r, const(w - 1))]
    return [le(const(0), r), le(r, const(w))]


reg(["common_traits::Integer::leading_zeros", "common_traits::Integer::trailing_zeros", "core::num::<impl u64>::leading_zeros",
     "core::num::<impl u64>::trailing_zeros"], post=zeros_post)


# --- From<bool> / From<smaller unsigned> for integers: value-preserving (std docs); a bool becomes 0 or 1
def from_post(num, ev):
    r = num.aff(ev[3])
    ga = ev[7] or []
    if r is None or len(ga) < 2:
        return []
    dst, src = ga[0], ga[1]
    if src == "bool":
        return [le(const(0), r), le(r, const(1))]
    ws, wd = num.cfg.width(src), num.cfg.width(dst)
    a = num.aff(ev[2][0]) if ev[2] else None
    if ws is not None and wd is not None and a is not None and not str(src).startswith("i") and ws <= wd:
        return [le(r, a), le(a, r)]
    return []


reg(["std::convert::From::from"], post=from_post)


# --- min: result <= both operands (std docs)
def min_post(num, ev):
    r, a, b = num.aff(ev[3]), num.aff(ev[2][0]), num.aff(ev[2][1])
    out = []
    if r is not None and a is not None:
        out.append(le(r, a))
    if r is not None and b is not None:
        out.append(le(r, b))
    return out


reg(["std::cmp::Ord::min", "std::cmp::min", "core::cmp::min"], post=min_post)


# --- wrapping_sub: result is an arbitrary value of the type (no panic) -- nothing to add

# --- IntoIterator for an iterator is the identity (std blanket impl `impl<I: Iterator> IntoIterator for I`)
def into_iter_fork(w, st, t, args):
    a = args[0]
    if isinstance(a, tuple) and a[0] == "agg" and a[2] in ("std::ops::Range", "core::ops::Range"):
        return [{"res": a}]
    return None


reg(["std::iter::IntoIterator::into_iter"], fork=into_iter_fork)


# --- Range<usize|u64>::next: Some(start) and start += 1 when start < end, else None (std impl of Step for integers)
def range_next_fork(w, st, t, args):
    a = args[0]
    if not (isinstance(a, tuple) and a[0] == "ref"):
        return None
    tgt = a[1]
    if tgt[0] == "local" and len(tgt) > 2 and tgt[2] == w.body.path:
        r = st["env"].get(tgt[1])
        if isinstance(r, tuple) and r[0] == "agg" and r[2] in ("std::ops::Range", "core::ops::Range") and len(r[4]) == 2:
            start, end = r[4]
            one = ("const", 1, w.num.ty_of(start) or "usize")
            nxt = r[:4] + ((("binop", "Add", start, one), end),) + r[5:]
            some = {"cons": [(("binop", "Lt", start, end), "==", 1)],
                    "res": ("agg", "adt", "std::option::Option", "Some", (start,), ("0",)), "env": {tgt[1]: nxt}}
            none = {"cons": [(("binop", "Lt", start, end), "==", 0)],
                    "res": ("agg", "adt", "std::option::Option", "None", (), ())}
            return [some, none]
    return None


reg(["std::iter::Iterator::next"], fork=range_next_fork)


# --- crate trait contracts (src/traits/bits.rs docs): read_bits/write_bits take n <= 64; write_bits returns n; write_unary returns v+1
def n_le_64(argi, what):
    def pre(num, ev, cfg):
        a = num.aff(ev[2][argi])
        if a is None:
            return [(what, None)]
        return [("%s: %s <= 64" % (what, mir.fmt(ev[2][argi])[:40]), [le(a, const(64))])]
    return pre


def write_bits_post(num, ev):
    r = num.aff(("okval", ev[3]))
    n = num.aff(ev[2][2])
    if r is None or n is None:
        return []
    return [le(r, n), le(n, r)]


def write_unary_pre(num, ev, cfg):
    a = num.aff(ev[2][1])
    if a is None:
        return [("write_unary value below u64::MAX", None)]
    return [("write_unary: %s < u64::MAX" % mir.fmt(ev[2][1])[:40], [le(a, const((1 << 64) - 2))])]


def write_unary_post(num, ev):
    r = num.aff(("okval", ev[3]))
    v = num.aff(ev[2][1])
    if r is None or v is None:
        return []
    return [le(r, v + const(1)), le(v + const(1), r)]


reg("traits::bits::BitRead::read_bits", pre=n_le_64(1, "read_bits width"))
reg("traits::bits::BitWrite::write_bits", pre=n_le_64(2, "write_bits width"), post=write_bits_post)
reg("traits::bits::BitWrite::write_unary", pre=write_unary_pre, post=write_unary_post)


def peek_pre(num, ev, cfg):
    a = num.aff(ev[2][1])
    if a is None:
        return [("peek_bits width", None)]
    return [("peek_bits: %s >= 1" % mir.fmt(ev[2][1])[:40], [le(const(1), a)])]


reg("traits::bits::BitRead::peek_bits", pre=peek_pre)


# ---------------------------------------------------------------------------
# slice lengths: pseudo-atom ('slen', X) is the length of the slice/array denoted by term X (references stripped).
# The event context (earlier calls on the path) is available as num.ctx_events.

def canon_slice(t):
    while isinstance(t, tuple) and t and t[0] in ("ref", "deref", "after", "coerce"):
        t = t[2] if t[0] == "after" else t[1]
    return t


def producer(num, t):
    """call event that produced (the base of) term t, looking through references and IntoIterator::into_iter"""
    t = canon_slice(t)
    seen = 0
    while isinstance(t, tuple) and t and t[0] == "ret" and seen < 8:
        seen += 1
        ev = None
        for e in getattr(num, "ctx_events", []):
            if e[0] == "call" and e[3] == t:
                ev = e
                break
        if ev is None:
            return None
        if ev[1].endswith("IntoIterator::into_iter") and ev[8]:
            t = canon_slice(ev[8][0])
            continue
        return ev
    return None


def slen(num, t):
    x = canon_slice(t)
    if isinstance(x, tuple) and x and x[0] == "repeat":
        try:
            return const(int(str(x[2]).split("_")[0]))
        except ValueError:
            pass
    if isinstance(x, tuple) and x and x[0] == "agg" and x[1] == "array":
        return const(len(x[4]))
    return num.atom(("slen", x), lambda a: [le(const(0), a)])


def array_len(ty):
    """N of `[T; N]` (possibly behind references)"""
    import re
    m = re.search(r"\[[^;\]]+;\s*(\d+)\]", ty or "")
    return int(m.group(1)) if m else None


def len_post(num, ev):
    r = num.aff(ev[3])
    if r is None:
        return []
    l = slen(num, ev[8][0])
    return [le(r, l), le(l, r)]


reg(["core::slice::<impl [T]>::len", "common_traits::Sequence::len", "std::vec::Vec::<T, A>::len", "alloc::vec::Vec::<T, A>::len"], post=len_post)


def chunks_k(num, it_term):
    ev = producer(num, it_term)
    if ev is not None and (ev[1].endswith("::chunks_exact") or ev[1].endswith("::chunks_exact_mut")):
        return num.aff(ev[2][1])
    return None


def remainder_post(num, ev):
    k = chunks_k(num, ev[8][0])
    if k is None:
        return []
    l = slen(num, ev[3])
    return [le(l, k - const(1))]


reg(["std::slice::ChunksExact::<'a, T>::remainder", "std::slice::ChunksExactMut::<'a, T>::into_remainder"], post=remainder_post)


def split_at_pre(num, ev, cfg):
    mid, l = num.aff(ev[2][1]), slen(num, ev[8][0])
    if mid is None:
        return [("split point is an integer", None)]
    return [("split point %s <= len" % mir.fmt(ev[2][1])[:40], [le(mid, l)])]


def split_at_post(num, ev):
    """std: split_at(mid) -> ([0, mid), [mid, len)); panics if mid > len"""
    mid, l = num.aff(ev[2][1]), slen(num, ev[8][0])
    if mid is None:
        return []
    a, b = slen(num, ("field", ev[3], "0")), slen(num, ("field", ev[3], "1"))
    return [le(a, mid), le(mid, a), le(b, l - mid), le(l - mid, b)]


reg(["core::slice::<impl [T]>::split_at", "core::slice::<impl [T]>::split_at_mut"], pre=split_at_pre, post=split_at_post)


def multiple_of(num, slice_term, k):
    """the length of this slice is a multiple of the constant k: it is the first part of a split_at(mid) whose split point is an
    integer combination with all coefficients divisible by k (len - len % k is k * (len / k))"""
    t = canon_slice(slice_term)
    if isinstance(t, tuple) and t and t[0] == "field" and str(t[2]) == "0":
        ev = producer(num, t[1])
        if ev is not None and (ev[1].endswith("::split_at") or ev[1].endswith("::split_at_mut")):
            a = num.aff(ev[2][1])
            if a is not None:
                # results of len() calls are the length of their argument: several calls on one slice are one quantity
                b = Aff({}, a.k)
                for at, c in a.co.items():
                    sub = None
                    if isinstance(at, tuple) and at and at[0] == "ret":
                        for e2 in getattr(num, "ctx_events", []):
                            if e2[0] == "call" and e2[3] == at and e2[1].split("::")[-1] == "len" and e2[8]:
                                sub = slen(num, e2[8][0])
                    b = b + (sub.scale(c) if sub is not None else Aff({at: c}, 0))
                a = b
            if a is not None and k > 0 and all(Fraction(c) % k == 0 for c in a.co.values()) and Fraction(a.k) % k == 0:
                return True
    return False


def next_post(num, ev):
    k = chunks_k(num, ev[8][0])
    if k is None:
        pev = producer(num, ev[8][0])
        if pev is not None and pev[1] == "std::iter::Iterator::enumerate" and pev[8]:
            # enumerate() over the elements of a slice: the index of an item is below the number of elements
            src = producer(num, pev[8][0])
            if src is not None and src[1].split("::")[-1] in ("iter", "iter_mut") and "slice" in src[1] and src[8]:
                n = slen(num, src[8][0])
                out = []
                for payload in (("field", ("variant", ev[3], "Some"), "0"), ("okval", ev[3])):
                    i = num.aff(("field", payload, "0"))
                    if i is not None:
                        out += [le(const(0), i), le(i, n - const(1))]
                return out
        if pev is not None and (pev[1].endswith("::chunks") or pev[1].endswith("::chunks_mut")):
            # chunks(k): every chunk has between 1 and k elements; exactly k when the length is a multiple of k
            kk = num.aff(pev[2][1])
            if kk is None:
                return []
            out = []
            exact = kk.is_const() and multiple_of(num, pev[8][0], int(kk.k))
            for payload in (("field", ("variant", ev[3], "Some"), "0"), ("okval", ev[3])):
                l = slen(num, payload)
                out += [le(l, kk), le(kk if exact else const(1), l)]
            return out
        return []
    out = []
    for payload in (("field", ("variant", ev[3], "Some"), "0"), ("okval", ev[3])):
        l = slen(num, payload)
        out += [le(l, k), le(k, l)]
    return out


C["std::iter::Iterator::next"]["post"] = next_post


# chunks_exact(k) panics when k == 0 (std docs)
def chunks_pre(num, ev, cfg):
    k = num.aff(ev[2][1])
    if k is None:
        return [("chunk size is non-zero", None)]
    return [("chunk size %s >= 1" % mir.fmt(ev[2][1])[:40], [le(const(1), k)])]


reg(["core::slice::<impl [T]>::chunks_exact", "core::slice::<impl [T]>::chunks_exact_mut"], pre=chunks_pre)


# `<[u8; N]>::try_from(&[u8])` is Ok iff the slice has exactly N elements (std docs); unwrap/expect panic on Err
def unwrap_pre(num, ev, cfg):
    src = producer(num, ev[8][0])
    if src is not None and (src[1].endswith("TryInto::try_into") or src[1].endswith("TryFrom::try_from")):
        n = array_len(src[9])
        if n is not None:
            l = slen(num, src[8][0])
            return [("unwrap of try_into::<[_; %d]>(%s): slice length == %d" % (n, mir.fmt(canon_slice(src[8][0]))[:40], n),
                     [le(l, const(n)), le(const(n), l)])]
    return [("unwrap/expect of %s cannot fail" % mir.fmt(ev[8][0])[:50], None)]


reg(["std::result::Result::<T, E>::unwrap", "std::result::Result::<T, E>::expect", "std::option::Option::<T>::unwrap",
     "std::option::Option::<T>::expect"], pre=unwrap_pre)


# copy_from_slice panics when the lengths differ (std docs)
def copy_from_slice_pre(num, ev, cfg):
    a, b = slen(num, ev[8][0]), slen(num, ev[8][1])
    return [("copy_from_slice: len(%s) == len(%s)" % (mir.fmt(canon_slice(ev[8][0]))[:30], mir.fmt(canon_slice(ev[8][1]))[:30]),
             [le(a, b), le(b, a)])]


reg(["core::slice::<impl [T]>::copy_from_slice"], pre=copy_from_slice_pre)


# slicing an array/slice with a range: bounds (std docs); resulting length
def index_range(num, ev):
    base = ev[8][0]
    rng = ev[8][1] if len(ev[8]) > 1 else None
    if not (isinstance(rng, tuple) and rng[0] == "agg" and rng[2] in ("std::ops::RangeFrom", "std::ops::RangeTo", "std::ops::Range")):
        return None
    bt = num.ty_of(canon_slice(base)) or (ev[7][0] if ev[7] else None)
    n = array_len(bt) if bt else None
    total = const(n) if n is not None else slen(num, base)
    if rng[2] == "std::ops::RangeFrom":
        s = num.aff(rng[4][0])
        return (s, total, total - s) if s is not None else None
    if rng[2] == "std::ops::RangeTo":
        e = num.aff(rng[4][0])
        return (const(0), e, e) if e is not None else None
    s, e = num.aff(rng[4][0]), num.aff(rng[4][1])
    return (s, e, e - s) if (s is not None and e is not None) else None


def index_pre(num, ev, cfg):
    r = index_range(num, ev)
    if r is None:
        return []
    s, e, l = r
    base = ev[8][0]
    bt = num.ty_of(canon_slice(base)) or (ev[7][0] if ev[7] else None)
    n = array_len(bt) if bt else None
    total = const(n) if n is not None else slen(num, base)
    return [("range %s within bounds" % mir.fmt(ev[8][1])[:50], [le(s, e), le(e, total)])]


def index_post(num, ev):
    r = index_range(num, ev)
    if r is None:
        return []
    s, e, l = r
    ln = slen(num, ev[3])
    return [le(ln, l), le(l, ln)]


reg(["std::ops::Index::index", "std::ops::IndexMut::index_mut"], pre=index_pre, post=index_post)


# to_{be,le,ne}_bytes of u64 returns [u8; 8]: the length comes from the array type (array_len) at the use site
def as_slice_len_post(num, ev):
    n = array_len(ev[9])
    if n is None:
        return []
    l = slen(num, ev[3])
    return [le(l, const(n)), le(const(n), l)]


reg(["core::num::<impl u64>::to_be_bytes", "core::num::<impl u64>::to_le_bytes", "core::num::<impl u64>::to_ne_bytes"], post=as_slice_len_post)


# ---------------------------------------------------------------------------
# length bounds of codewords (trusted, one line each): used only to show that sums of lengths do not overflow.
#   gamma(n) = 2*floor(log2(n+1))+1 <= 127; delta <= 63 + 13; zeta/minimal binary parts <= 64 each; pi <= 63 + rice(63,k) <= 63+64+63;
#   omega < 256; exp-Golomb = gamma + k <= 190; vbyte <= 80.
def len_bound(bound, ok=False):
    def post(num, ev):
        r = num.aff(("okval", ev[3])) if ok else num.aff(ev[3])
        if r is None:
            return []
        return [le(const(0), r), le(r, const(bound))]
    return post


for _n, _b in (("codes::gamma::len_gamma", 127), ("codes::gamma::len_gamma_param", 127), ("codes::delta::len_delta", 80),
               ("codes::delta::len_delta_param", 80), ("codes::minimal_binary::len_minimal_binary", 64), ("codes::omega::recursive_len", 255),
               ("codes::omega::len_omega", 255), ("codes::vbyte::byte_len_vbyte", 10), ("codes::vbyte::bit_len_vbyte", 80)):
    reg(_n, post=len_bound(_b))
for _n, _b in (("codes::gamma::GammaWrite::write_gamma", 127), ("codes::gamma::GammaWriteParam::write_gamma_param", 127),
               ("codes::minimal_binary::MinimalBinaryWrite::write_minimal_binary", 64), ("codes::omega::recursive_write", 255)):
    reg(_n, post=len_bound(_b, ok=True))


# write_rice(v, k) returns (v >> k) + 1 + k  (src/codes/rice.rs): with v <= 63 as in write_pi the result is small
def write_rice_post(num, ev):
    r = num.aff(("okval", ev[3]))
    v, k = num.aff(ev[2][1]), num.aff(ev[2][2])
    if r is None or v is None or k is None:
        return []
    return [le(const(0), r), le(r, v + k + const(1))]


def len_rice_post(num, ev):
    r = num.aff(ev[3])
    v, k = num.aff(ev[2][0]), num.aff(ev[2][1])
    if r is None or v is None or k is None:
        return []
    return [le(const(0), r), le(r, v + k + const(1))]


reg("codes::rice::RiceWrite::write_rice", post=write_rice_post)
reg("codes::rice::len_rice", post=len_rice_post)


# min/max as a case split (needed when a path later learns that the result differs from one operand)
def min_fork(w, st, t, args):
    if len(args) != 2 or w.num.aff(args[0]) is None or w.num.aff(args[1]) is None:
        return None
    a, b = args
    st_n = st["ncall"]
    res = ("ret", st_n, "std::cmp::Ord::min")
    return [{"cons": [(("binop", "Le", a, b), "==", 1), (("binop", "Eq", res, a), "==", 1)]},
            {"cons": [(("binop", "Le", a, b), "==", 0), (("binop", "Eq", res, b), "==", 1)]}]


C["std::cmp::Ord::min"]["fork"] = min_fork


# Result::map_err / inspect / inspect_err keep Ok-ness and the Ok value (std docs): make them transparent for `?`
def map_err_fork(w, st, t, args):
    r = args[0]
    if not isinstance(r, tuple) or not r:
        return None
    if r[0] == "from_residual":
        return [{"res": ("from_residual", ("mapped", r[1]))}]
    if r[0] == "agg" and r[1] == "adt" and r[3] == "Ok":
        return [{"res": r}]
    if r[0] == "agg" and r[1] == "adt" and r[3] == "Err":
        return [{"res": ("from_residual", ("mapped", r))}]
    return [{"res": ("maperr", r)}]


reg(["std::result::Result::<T, E>::map_err", "std::result::Result::<T, E>::inspect", "std::result::Result::<T, E>::inspect_err"], fork=map_err_fork)


# ---------------------------------------------------------------------------
# assume-guarantee for calls of a stream's own primitives on `self` (the callee's effect is verified on its own
# body: C01.W5 / C02.R3): the callee may change the buffer counter and the backend position arbitrarily as long as
# the struct invariant holds and the ghost position moves by exactly n.
SELF_T = ("arg", 1, "self")
G_WW = ("ghost", "ww")
G_WP = ("ghost", "wp")
_fresh = [0]


def _field(name):
    return ("field", ("deref", SELF_T), name)


def _is_self(t):
    while isinstance(t, tuple) and t and t[0] in ("ref", "deref"):
        t = t[1]
    return t == SELF_T


def own_write_bits(w, st, args):
    if not _is_self(args[0]) or not (w.body.b.get("impl_self") or "").startswith("impls::buf_bit_writer::BufBitWriter<"):
        return
    W = w.cfg.w
    _fresh[0] += 1
    s_old = st["mem"].get(_field("space_left_in_buffer"), _field("space_left_in_buffer"))
    ww_old = st["mem"].get(G_WW, G_WW)
    hs = ("havoc", "own%d" % _fresh[0], "usize", "own", "space_left'")
    st["mem"][_field("space_left_in_buffer")] = hs
    # W*ww' - s' = W*ww - s + n   =>   ww' = ww + (n + s' - s)/W
    from fractions import Fraction
    st["mem"][G_WW] = ("lincomb", ((Fraction(1), ww_old), (Fraction(1, W), args[2]), (Fraction(1, W), hs), (Fraction(-1, W), s_old)), Fraction(0))
    st["mem"][_field("buffer")] = ("havoc", "ownb%d" % _fresh[0], None, "own", "buffer'")
    st["log"].append(("lin", [le(const(1), w.num.aff(hs)), le(w.num.aff(hs), const(W))]))
    return True


def own_read_bits(w, st, args):
    if not _is_self(args[0]) or not (w.body.b.get("impl_self") or "").startswith("impls::buf_bit_reader::BufBitReader<"):
        return
    W = w.cfg.w
    _fresh[0] += 1
    b_old = st["mem"].get(_field("bits_in_buffer"), _field("bits_in_buffer"))
    wp_old = st["mem"].get(G_WP, G_WP)
    hb = ("havoc", "own%d" % _fresh[0], "usize", "own", "bits_in_buffer'")
    st["mem"][_field("bits_in_buffer")] = hb
    # W*wp' - b' = W*wp - b + n   =>   wp' = wp + (n + b' - b)/W
    from fractions import Fraction
    st["mem"][G_WP] = ("lincomb", ((Fraction(1), wp_old), (Fraction(1, W), args[1]), (Fraction(1, W), hb), (Fraction(-1, W), b_old)), Fraction(0))
    hbuf = ("havoc", "ownb%d" % _fresh[0], None, "own", "buffer'")
    st["mem"][_field("buffer")] = hbuf
    # cleanliness is part of the callee's guarantee (verified on read_bits itself: R2.clean)
    is_be = "BigEndian" in (w.body.b.get("impl_self") or "")
    facts_ = w.num.__dict__.setdefault("range_facts", {})
    facts_[hbuf] = (const(2 * W) - w.num.aff(hb), const(2 * W)) if is_be else (const(0), w.num.aff(hb))
    # when the request fits the buffer no word is fetched: b' = b - n exactly (fast path of read_bits, verified in R3);
    # in general only the invariant is known
    n = w.num.aff(args[1])
    bo = w.num.aff(b_old)
    lin = [le(const(0), w.num.aff(hb)), le(w.num.aff(hb), const(2 * W - 1))]
    st["log"].append(("lin", lin))
    if n is not None and bo is not None:
        import lp
        base = w.full_store(st)
        if lp.entails(w.num.close(base, [le(n, bo)]), le(n, bo)):
            hbv = w.num.aff(hb)
            st["log"].append(("lin", [le(hbv, bo - n), le(bo - n, hbv)]))
    return True


C["traits::bits::BitWrite::write_bits"]["self_effect"] = own_write_bits
C["traits::bits::BitRead::read_bits"]["self_effect"] = own_read_bits


# ---------------------------------------------------------------------------
# operator traits on generic words: give the result the same structured term a primitive operation would have, so that the
# bit-range domain (sa/bitrange.py) can follow shifts, masks and casts through `W: Shl<usize> + BitOr + ...` code.
def _dest_ty(w, t):
    d = t["dest"]
    return w.body.local_ty(d["l"]) if not d["proj"] else None


def binop_fork(op):
    def f(w, st, t, args):
        if len(args) != 2:
            return None
        return [{"res": ("binop", op, args[0], args[1])}]
    return f


def assign_fork(op):
    def f(w, st, t, args):
        if len(args) != 2 or not (isinstance(args[0], tuple) and args[0][0] == "ref"):
            return None
        key = args[0][1]
        if key[0] == "local":
            if len(key) > 2 and key[2] == w.body.path:
                old = st["env"].get(key[1], key)
                return [{"env": {key[1]: ("binop", op, old, args[1])}, "res": ("unit",)}]
            return None
        old = st["mem"].get(key, key)
        return [{"mem": {key: ("binop", op, old, args[1])}, "res": ("unit",)}]
    return f


for _nm, _op in (("Shl::shl", "Shl"), ("Shr::shr", "Shr"), ("BitOr::bitor", "BitOr"), ("BitAnd::bitand", "BitAnd"), ("BitXor::bitxor", "BitXor")):
    C.setdefault("std::ops::" + _nm, {})["fork"] = binop_fork(_op)
for _nm, _op in (("ShlAssign::shl_assign", "Shl"), ("ShrAssign::shr_assign", "Shr"), ("BitOrAssign::bitor_assign", "BitOr"),
                 ("BitAndAssign::bitand_assign", "BitAnd"), ("BitXorAssign::bitxor_assign", "BitXor")):
    C.setdefault("std::ops::" + _nm, {})["fork"] = assign_fork(_op)


def not_fork(w, st, t, args):
    return [{"res": ("unop", "Not", args[0])}]


C.setdefault("std::ops::Not::not", {})["fork"] = not_fork


def cast_fork(w, st, t, args):
    ty = _dest_ty(w, t)
    if ty is None or len(args) != 1:
        return None
    return [{"res": ("cast", args[0], ty)}]


for _nm in ("common_traits::CastableInto::cast", "common_traits::UpcastableInto::upcast", "common_traits::DowncastableInto::downcast",
            "common_traits::CastableFrom::cast_from", "common_traits::UpcastableFrom::upcast_from", "common_traits::DowncastableFrom::downcast_from"):
    C.setdefault(_nm, {})["fork"] = cast_fork


def wordop_fork(name):
    def f(w, st, t, args):
        return [{"res": ("wordop", name) + tuple(args)}]
    return f


for _nm in ("to_be", "to_le", "rotate_left", "rotate_right"):
    C.setdefault("common_traits::Integer::" + _nm, {})["fork"] = wordop_fork(_nm)
    for _p in ("u64", "u128", "u32", "u16", "u8", "usize"):
        C.setdefault("core::num::<impl %s>::%s" % (_p, _nm), {})["fork"] = wordop_fork(_nm)


# checked arithmetic (std docs): Some(result) exactly when the mathematical result fits the type
def checked_fork(op):
    def f(w, st, t, args):
        a, b = w.num.aff(args[0]), w.num.aff(args[1])
        ty = w.num.ty_of(args[0])
        wd = w.cfg.width(ty)
        if a is None or b is None or wd is None or ty in SIGNED:
            return None
        res = ("ret", st["ncall"], "checked")
        if op == "mul":
            # by a constant: the product is linear
            if not (a.is_const() or b.is_const()):
                return None
            r = a.scale(b.k) if b.is_const() else b.scale(a.k)
            w.num.types[res] = ty
            s1, s0 = w.fork(st), w.fork(st)
            ra = w.num.aff(res)
            s1["log"].append(("lin", [le(const(0), r), le(r, const((1 << wd) - 1)), le(ra, r), le(r, ra)]))
            s0["log"].append(("lin", [le(const(1 << wd), r)]))
            out = []
            if w.state_feasible(s1):
                out.append({"state": s1, "res": ("agg", "adt", "std::option::Option", "Some", (res,), ("0",))})
            if w.state_feasible(s0):
                out.append({"state": s0, "res": ("agg", "adt", "std::option::Option", "None", (), ())})
            return out or None
        r = a + b if op == "add" else a - b
        s1, s0 = w.fork(st), w.fork(st)
        some = ("agg", "adt", "std::option::Option", "Some", (("lincomb", ((1, args[0]), (1 if op == "add" else -1, args[1])), 0),), ("0",))
        none = ("agg", "adt", "std::option::Option", "None", (), ())
        s1["log"].append(("lin", [le(const(0), r), le(r, const((1 << wd) - 1))]))
        s0["log"].append(("lin", [le(r, const(-1))] if op == "sub" else [le(const(1 << wd), r)]))
        out = []
        if w.state_feasible(s1):
            out.append({"state": s1, "res": some})
        if w.state_feasible(s0):
            out.append({"state": s0, "res": none})
        return out or None
    return f


for _ty in ("usize", "u64", "u32", "u16", "u8", "u128"):
    reg("core::num::<impl %s>::checked_sub" % _ty, fork=checked_fork("sub"))
    reg("core::num::<impl %s>::checked_add" % _ty, fork=checked_fork("add"))
    reg("core::num::<impl %s>::checked_mul" % _ty, fork=checked_fork("mul"))


# fixed-size chunk views of a slice (std docs)
def _chunk_n(fargs):
    try:
        return int(str(fargs[-1]).split("_")[0])
    except (ValueError, IndexError, TypeError):
        return None


def as_chunks_post(num, ev):
    """as_chunks::<N>() -> (chunks, remainder): N * chunks.len() + remainder.len() = len, remainder.len() < N"""
    n = _chunk_n(ev[7] or ())
    if not n:
        return []
    l = slen(num, ev[8][0])
    a, b = slen(num, ("field", ev[3], "0")), slen(num, ("field", ev[3], "1"))
    tot = a.scale(n) + b
    return [le(tot, l), le(l, tot), le(b, const(n - 1))]


reg(["core::slice::<impl [T]>::as_chunks", "core::slice::<impl [T]>::as_chunks_mut"], post=as_chunks_post)


def split_chunk_fork(w, st, t, args):
    """split_first_chunk::<N>() / split_last_chunk::<N>(): Some((chunk, rest)) exactly when len >= N, with rest.len() = len - N"""
    n = _chunk_n(t["func"].get("fn_args") or ())
    if not n:
        return None
    l = slen(w.num, args[0])
    res = ("ret", st["ncall"], "split_chunk")
    first = t["func"]["fn"].endswith("split_first_chunk") or t["func"]["fn"].endswith("split_first_chunk_mut")
    chunk, rest = ("chunkof", res), ("restof", res)
    pair = ("tuple", (chunk, rest) if first else (rest, chunk))
    some = ("agg", "adt", "std::option::Option", "Some", (pair,), ("0",))
    none = ("agg", "adt", "std::option::Option", "None", (), ())
    s1, s0 = w.fork(st), w.fork(st)
    rl, cl = slen(w.num, rest), slen(w.num, chunk)
    s1["log"].append(("lin", [le(const(n), l), le(rl, l - const(n)), le(l - const(n), rl), le(cl, const(n)), le(const(n), cl)]))
    s0["log"].append(("lin", [le(l, const(n - 1))]))
    out = []
    if w.state_feasible(s1):
        out.append({"state": s1, "res": some})
    if w.state_feasible(s0):
        out.append({"state": s0, "res": none})
    return out or None


reg(["core::slice::<impl [T]>::split_first_chunk", "core::slice::<impl [T]>::split_last_chunk",
     "core::slice::<impl [T]>::split_first_chunk_mut", "core::slice::<impl [T]>::split_last_chunk_mut"], fork=split_chunk_fork)


# saturating arithmetic (std docs): the mathematical result clamped to the type
def saturating_fork(op):
    def f(w, st, t, args):
        a, b = w.num.aff(args[0]), w.num.aff(args[1])
        ty = w.num.ty_of(args[0])
        wd = w.cfg.width(ty)
        if a is None or b is None or wd is None or ty in SIGNED:
            return None
        if op == "mul":
            if not (a.is_const() or b.is_const()):
                return None
            r = a.scale(b.k) if b.is_const() else b.scale(a.k)
        else:
            r = a + b if op == "add" else a - b
        res = ("ret", st["ncall"], "saturating")
        w.num.types[res] = ty
        ra = w.num.aff(res)
        mx = const((1 << wd) - 1)
        s_in, s_out = w.fork(st), w.fork(st)
        s_in["log"].append(("lin", [le(const(0), r), le(r, mx), le(ra, r), le(r, ra)]))
        if op == "sub":
            s_out["log"].append(("lin", [le(r, const(-1)), le(ra, const(0)), le(const(0), ra)]))
        else:
            s_out["log"].append(("lin", [le(mx + const(1), r), le(ra, mx), le(mx, ra)]))
        out = []
        if w.state_feasible(s_in):
            out.append({"state": s_in, "res": res})
        if w.state_feasible(s_out):
            out.append({"state": s_out, "res": res})
        return out or None
    return f


for _ty in ("usize", "u64", "u32", "u16", "u8", "u128"):
    for _op in ("add", "sub", "mul"):
        reg("core::num::<impl %s>::saturating_%s" % (_ty, _op), fork=saturating_fork(_op))

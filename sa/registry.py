"""Which module decides which property, at which level, over which feature sets."""

CHECKS = {
    "C10": {
        "module": "rules_c10",
        "level": "other",
        "quick_fs": ["default"],
        "thorough_fs": ["default", "checks", "no_copy_impls", "both"],
        "technique": "MIR decision-tree extraction of match arms (private helpers walked in context) + def-use resolution of call arguments; canonical code-class table; sibling cross-check; whole-domain abstract interpretation for length expressions that are not calls of a known length function; function-pointer constructors: abstract interpretation of the selection function on every variant and parameter value (match arms, range patterns or lookup tables alike), then classification of the selected closure; Codes and ConstCode: abstract interpretation of read / write / len with every code operation stubbed (records family, parameter, value and stream arguments), on every variant x parameter cell and every identifier value",
        "claim": "Exhaustive over the finite arm space of all 10 dispatch tables (3x Codes, 3x ConstCode, 4x function-pointer constructors incl. the factory: 12+51+59 keys each) and 15 forwarding wrappers: every arm performs exactly one stream operation, of the canonical code class its key names, on the dispatcher's own stream/value arguments, and returns that operation's result; read/write/len siblings agree per key; key sets agree. A length arm written as a formula instead of a call (e.g. a closed form for VByte) is compared with the class's length function on every 64-bit value by the value-partition interpreter. Decides which code is performed, not that the code's own method is right (C03/C04). The three tables of `Codes` and of `ConstCode` are derived by interpreting the methods (match arms, `if` chains, range patterns with arithmetic on the identifier alike): exactly one code operation per cell, of the class the key names, on the dispatcher's own stream and value, its result returned unchanged; unsupported identifiers panic.",
        "note": "Trusted: rustc MIR construction, the exporter, the callee->family table and the canonical identities of DESIGN.md appendix A (zeta1=pi0=expgolomb0=gamma, rice0=golomb1=unary, golomb(2^j)=rice(j)).",
        "explanation": "Exhaustive structural check of every dispatch table in the exported MIR: each match arm / "
                       "identifier / associated fn constant is resolved to the single stream-consuming call it makes and "
                       "that call's canonical code class is compared with the class the arm's key names; sibling "
                       "dispatchers are cross-checked; forwarding wrappers are checked for argument/result pass-through.",
    },
}

CHECKS["C16"] = {
    "module": "rules_c16",
    "level": "other",
    "quick_fs": ["default"],
    "thorough_fs": ["default", "both"],
    "technique": "abstract interpretation of Display::fmt and FromStr::from_str over an abstract string domain (characters, the decimal digits of the symbolic parameter, arbitrary unknown runs; sa/strdom.py); abstract interpretation of to_code_const / from_code_const / PartialEq::eq over every variant, parameter cell and identifier value (relational split of parameter comparisons); canonical code-class table; MIR decision-tree rules as the fallback",
    "claim": "For each of the 11 variants, Display is interpreted with the parameter as a symbolic value ranging over the whole type: the text written (name, or name + '(' + decimal digits + ')') is then fed to from_str, interpreted on that abstract string, which yields the same variant with the same symbolic parameter - so the round trip holds for every parameter value, whatever std string functions the parser uses (split, split_once, find and slicing, strip_prefix/suffix, comparisons, parse) and however Display assembles the text. No two variants print the same text. from_str, interpreted on malformed texts - an arbitrary unknown name with and without a parameter, the empty text, every parametrised name without a parameter / with an empty, a non-numeric and a negative one, every parameterless name given a parameter - returns an error, never a code. to_code_const and from_code_const, interpreted as functions on every (variant, parameter) and every identifier value, map between codes and identifiers of one canonical class, are mutually inverse on 0..=50 and yield an error everywhere else; PartialEq::eq, interpreted on every pair of (variant, parameter cell), declares equal only codes of one canonical class and every code equal to itself. Numeric parsing and formatting themselves are std's.",
    "note": "Trusted: rustc MIR construction and format_args lowering (byte template), the exporter, the canonical identities of DESIGN.md appendix A.2, std's str::split/parse contracts.",
    "explanation": "Display/FromStr interpreted over an abstract string domain; identifier conversions and PartialEq interpreted over all variants, parameters and identifiers.",
}

CHECKS["C05"] = {
    "module": "rules_c05",
    "level": "translation_validation",
    "quick_fs": ["default"],
    "thorough_fs": ["default", "checks", "no_copy_impls", "both"],
    "technique": "exhaustive comparison of const-evaluated tables with an independent reference definition; MIR path rules for table functions and USE_TABLE plumbing",
    "claim": "Exhaustive translation validation of all constant table data: each of the 2*(512+2048+4096) decode entries equals (value, length) of the first codeword of that look-ahead window under the reference definition of gamma/delta/zeta3 (or the missing sentinel when no whole codeword fits), each of the 2*(64+1024+1024) encode entries and 2112 LEN entries equals the reference codeword/length; sentinels cannot collide; hit lengths <= READ_BITS. Plus structural rules on every path of the 18 table functions (peek own READ_BITS, index own tables of own endianness, skip exactly the returned length on the hit path only, no stream effect on miss/peek-error) and of the 14 *_param methods and 20+ parameterless defaults (table branch only under the const flag, same default_* fallback with same arguments). Does not decide that peek_bits itself returns the right bits (C02) nor look-ahead sufficiency (T4, pending). Included obligations: a failed look-ahead fetch leaves the reader as it was (C09.E3), and the zero-extended source counts the words it synthesises (C13.K.read_word), so table-driven and bit-by-bit decoding agree on state and position also at the end of the data.",
    "note": "Trusted: rustc const evaluation, the exporter, refcodes.py (reference definitions written from the module docs).",
    "explanation": "tables vs reference definitions (exhaustive) + MIR path rules",
}

CHECKS["C14"] = {
    "module": "rules_c14",
    "level": "other",
    "quick_fs": ["default"],
    "thorough_fs": ["default", "both"],
    "technique": "abstract interpretation of every wrapper method with the wrapped stream's operations stubbed (success and failure, tracing on and off, several widths, the written value as a symbolic 64-bit input) and the length functions as tokens; MIR path rules as the fallback when the interpreter refuses the code",
    "claim": "For every method the counting and tracing wrappers implement (BitRead, BitWrite, BitSeek, gamma/delta/zeta read and write), interpreted with the operations of the wrapped stream replaced by stubs: exactly one operation is performed on the wrapped stream, it is the same operation (or the same code through its sibling method with the same parameter), it receives the method's own arguments - the written value compared as a symbolic input over all 64-bit values, in its low n_bits bits for fixed-width writes of 0, 1, 13 and 64 bits - and its result is returned unchanged, whether it succeeds or fails and whether tracing is on or off. For the counting wrappers the counter moves, on success, by exactly the declared effect of the operation (n for reads/skips of n bits, result+1 for read_unary, the returned length for writes, the length function of the code's family applied to the value read - with the method's parameter - for code reads, n for bulk copies, 0 for peeks, seeks, flush) and the constructors start it at 0. What a failed operation consumed is not constrained. Exactness of the length functions is C06.",
    "note": "Trusted: rustc MIR, exporter, std contract of Result::inspect (calls the closure with &T on Ok, returns self), declared effects table (DESIGN.md appendix B), exactness of len_* (C06).",
    "explanation": "Wrapper methods interpreted with the wrapped stream stubbed against the forwarding + declared-effect model.",
}

CHECKS["C15"] = {
    "module": "rules_c15",
    "level": "other",
    "quick_fs": ["default"],
    "thorough_fs": ["default", "both"],
    "technique": "abstract interpretation of update_many / update / best_code / add / += / + / sum / Default with the length functions replaced by tokens (uninterpreted functions recording family and parameter) on statistics with 4/5/3/4/3 array slots; MIR path rule for the wrapper's locking discipline; structural rules as the fallback when the interpreter refuses the code",
    "claim": "Decided by interpreting the methods themselves, so loops, iterator adaptors, macros and helpers are all the same: Default zeroes every slot; update_many(n, count) adds count to total, (n+1)*count to unary and len_F(n, p)*count to every other slot, where F is a length function of the slot's family applied to n, and (F, p) is exactly the code best_code reports when that slot holds the unique minimum (so totals are kept for the code they are reported for); update(n) = update_many(n, 1) and returns n; best_code returns the slot's code and the minimum for every slot in turn; add, +=, + and sum (of three, of none) give slot-wise sums and leave the right-hand side alone. The wrapper updates exactly once per successful read/write, with the value read / written, through Mutex::lock, after the operation and never on its error path. Exactness of the length functions themselves is C06; thread-safety rests on Mutex (std). Thorough tier: also with the library's default array sizes (10/20/10/10/10) and with degenerate ones (1/2/0/1/1).",
    "note": "Trusted: rustc MIR, exporter, field table of DESIGN.md appendix A.3, std Mutex contract.",
    "explanation": "Methods of CodesStats interpreted with length functions as tokens against the slot-wise model; locking discipline structural.",
}

CHECKS["C11"] = {
    "module": "rules_c11",
    "level": "other",
    "quick_fs": ["default"],
    "thorough_fs": ["default", "both"],
    "technique": "MIR call-site rules: transfer-count use for partial-transfer std::io calls, Result discipline, byte-order pairing; abstract interpretation of word_pos / set_word_pos for every word size and position",
    "claim": "Decides the structural half of loss-freedom under I/O faults by reduction to std's contracts instead of enumerating fault schedules: in WordAdapter every std::io call that may legally transfer fewer bytes than asked (Read::read / Write::write) must use its returned count, while write_all/read_exact satisfy the rule by their documented contract (loop on short counts, retry Interrupted, error otherwise); every io::Result is propagated; write_word serialises exactly its argument with the byte order read_word deserialises; for W in {u8..u128} and every stream position (residue classes of the value-partition interpreter) word_pos() = ceil(stream_position / W::BYTES) and set_word_pos(w) seeks to SeekFrom::Start(w * W::BYTES), whatever arithmetic computes them. Does not decide byte values. Included obligation: flush, drop and into_inner of the bit writer end by flushing the word sink and report its error (C01.W3), so bytes handed to the adapter reach the byte sink.",
    "note": "Trusted: std::io contracts of write_all/read_exact/seek/stream_position, rustc MIR, exporter.",
    "explanation": "Structural rules over the five WordAdapter trait methods (all paths).",
}

CHECKS["C13"] = {
    "module": "rules_c13",
    "level": "other",
    "quick_fs": ["default"],
    "thorough_fs": ["default", "both"],
    "technique": "abstract interpretation (value-partition interpreter over the exported MIR) of every method of the four word streams on storages of 0..=3 words x every cursor / argument cell, compared with the array-plus-cursor model",
    "claim": "For the four in-memory word streams, read_word / write_word / word_pos / set_word_pos / len are interpreted (helpers included, whatever the shape of the code) on storages of 0, 1, 2 and 3 pairwise different words, for every cursor position up to two beyond the end as singletons and all farther positions as one cell (set_word_pos: for every argument cell likewise): the result, the cursor afterwards and the storage afterwards equal what the array-plus-cursor model of the property prescribes - the word under the cursor and cursor+1; an error and nothing changed beyond the end of a strict stream or fixed slice; zero and cursor+1 beyond the end of the zero-extended reader; zero-filled growth to cursor+1 then the store for the vector; the cursor set to any accepted position (<= length; any for the zero-extended reader), an error and the old cursor otherwise. Per-call effects on (array, cursor) compose to every call sequence. Bounded in the storage length (<= 3 words): the methods use the length only through len()/get()/indexing, which the interpreter decides exactly in every cell. Thorough tier: storages of 0..=6 words.",
    "note": "Trusted: AsRef/AsMut/Deref on the storage parameter are identity views (std docs); std slice/Vec operations as documented; the interpreter sa/ivl.py; rustc MIR, exporter.",
    "explanation": "Every method interpreted on small storages and every cursor cell against the array+cursor model.",
}

CHECKS["C01"] = {
    "module": "rules_c01",
    "level": "proof",
    "quick_fs": ["default"],
    "thorough_fs": ["default", "checks", "no_copy_impls", "both"],
    "technique": "abstract interpretation of MIR for 5 word sizes: affine forms + linear inequalities with loop summaries and ghost accounting; a bit-sequence domain (each word = list of slices of symbolic sources with affine bounds, LP-ordered) compared with the stream specification; taint/def-use rules for endianness pairing and backend use",
    "claim": "Decides necessary structural and numeric conditions of the canonical image, not the bit values themselves: (W1) only write_word/flush ever touch the backend, so delivered words are never altered; (W2) every word handed to the backend was last converted with to_be in BE code / to_le in LE code (host-independent; invisible to tests on a little-endian host); (W3) Drop picks the flush routine of the stream's endianness, into_inner flushes exactly once before moving the backend out; (W4) for W in {u8,u16,u32,u64,u128}: every overflow/shift/bounds assert, call precondition and reachable panic of write_bits/write_unary/flush is discharged under the documented preconditions and the invariant 1 <= space_left <= W is re-established at every return; (W5) ghost accounting: write_bits returns n and appends exactly n bits, write_unary v+1, flush returns the pending count, leaves the buffer empty (idempotence) and pads with exactly one word iff bits were pending; (W6) CONTENT, in the bit-sequence domain: with P the pending bits at entry and F the field appended by the call (write_bits: bits [0, n) of value whatever its higher bits; write_unary: v zeros and a one; flush: zero padding to the boundary), on every path and for every W every word handed to the backend is exactly the next W bits of P ++ F in stream order (BE words fill from the most significant bit, LE from the least) and the buffer keeps exactly the remaining bits where the next call expects them - i.e. the canonical image of the sequence of writes, word by word. Together with W2 (byte order of each word) this is the byte image up to the backend. Undecided: copy_from and io::Write at the content level (C08/C12 have their own clauses), the backends' own storage (C11, C13). Included obligations (the sinks the image is delivered to): the in-memory sinks store each word at the cursor and advance (C13.K.write_word), the byte-stream adapter transfers every byte of every word in order with errors propagated (C11.A1-A3).",
    "note": "Trusted: rustc MIR, exporter, contract table, LP entailment. Assumptions (lemmas.json) are listed in the evidence and are never counted as discharged.",
    "explanation": "E3/E4 obligations + structural rules",
}

CHECKS["C02"] = {
    "module": "rules_c02",
    "level": "proof",
    "quick_fs": ["default"],
    "thorough_fs": ["default", "checks", "no_copy_impls", "both"],
    "technique": "abstract interpretation of MIR for 4 word sizes + unbuffered reader: affine + linear inequalities with loop summaries and ghost position; a bit-sequence domain (each word = list of slices of symbolic sources with affine bounds, LP-ordered) compared with the stream specification; taint rule for byte-order conversion of fetched words",
    "claim": "Necessary conditions of 'readers return exactly the stream's bits': (R1) every word fetched from the backend in BE code goes through to_be (LE: to_le) before any other use; (R2) for W in {u8..u64} and the unbuffered reader: all asserts, shift amounts (incl. the double-shift idioms), call preconditions and panics of refill/peek/skip_after_peek/read_bits/read_unary/skip_bits are discharged under the documented preconditions and 0 <= bits_in_buffer < 2W is re-established at every return; (R3) ghost position pos = W*word_pos - bits_in_buffer (unbuffered: bit_index) moves by exactly n for read/skip, 0 for peek (so peeking is repeatable), result+1 for read_unary on every successful path, through multi-word slow paths and loops; (R4) Clone copies every field; (R7) CONTENT, in the bit-sequence domain, for BufBitReader over u8..u64, both endiannesses, every path: with Bf the buffered bits and w_0, w_1, ... the words fetched by the call, U = Bf ++ w_0 ++ w_1 ...; read_bits(n) and peek_bits(n) return exactly the first n bits of U, zero-extended (BE: first stream bit most significant; LE: least significant), and after read_bits / peek_bits / skip_bits / skip_bits_after_peek / read_unary the buffer holds exactly the rest of U inside its valid window and zeros outside. For the unbuffered BitReader (u64 words): read_bits/peek_bits position the backend at word bit_index/64 and return exactly the n bits at offset bit_index%64 of the words fetched from there. Undecided: read_unary of the unbuffered reader at content level (R2/R3 only); position arithmetic is assumed not to overflow for streams shorter than 2^64 bits (lemmas L1-L3). Included obligations (what the readers' argument assumes): the in-memory sources return the word under the cursor and advance, zeros beyond the end of the zero-extended one (C13.K.read_word); a failed look-ahead fetch leaves the reader as it was (C09.E3).",
    "note": "Trusted: rustc MIR, exporter, contracts, ghost model of WordRead/WordSeek, LP entailment; lemmas.json entries are assumptions.",
    "explanation": "E3/E4 obligations + structural rules",
}

CHECKS["C08"] = {
    "module": "rules_c08",
    "level": "proof",
    "quick_fs": ["default", "no_copy_impls"],
    "thorough_fs": ["default", "checks", "no_copy_impls", "both"],
    "technique": "abstract interpretation of MIR over the six copy bodies x word sizes x feature sets: affine/LP obligations with ghost accounting, bit ranges, and the bit-sequence domain (content of every transfer and of the buffers); impl inventory per feature set",
    "claim": "For BufBitReader::copy_to (u8..u64), BufBitWriter::copy_from (u8..u128) and the two chunked defaults, with and without no_copy_impls: (P1) every internal call respects the <= 64 bits-per-transfer contract of read_bits/write_bits, all asserts/panics are discharged and the buffer-counter invariants are re-established; (P3) on every successful path the source advances by exactly n and the destination receives exactly n bits, so specialised and generic versions have the same declared effect; (P4) the feature removes exactly the four overrides; (P2) reader buffer clean / writer ORs disjoint after a copy; (P5) CONTENT of the four specialised copies, same endianness, every path: copy_to hands the destination, call by call, exactly the next bits of the source - the buffered bits (through the own read_bits of the excess when more than 64 are buffered), then each fetched word whole in the iteration that fetched it, then the head of the last word - and keeps exactly the rest of that word in a clean buffer; copy_from delivers P ++ r_1 as its first word, then exactly the W bits read in each iteration, keeps exactly the last value read, and (words wider than 64 bits) forwards each value read to write_bits with its width; no fetched word or value read is dropped or used twice. With C01.W6/C02.R7 (the primitives move the right bits) this is bit-for-bit equivalence with a one-bit-at-a-time transfer for the specialised paths. Undecided: content of the two chunked default implementations (accounting only).",
    "note": "Trusted: rustc MIR, exporter, contracts, ghost model, LP entailment.",
    "explanation": "E3/E4 obligations + bit-range + bit-sequence content clauses over copy implementations",
}

CHECKS["C12"] = {
    "module": "rules_c12",
    "level": "proof",
    "quick_fs": ["default"],
    "thorough_fs": ["default", "checks", "no_copy_impls", "both"],
    "technique": "abstract interpretation of MIR with slice-length contracts (chunks_exact, try_into, copy_from_slice, range indexing) per word size; structural byte-order pairing; abstract interpretation of the six io bodies on buffers of every length 0..=17 (0..=40 thorough) with bytes as tokens and the stream primitives stubbed",
    "claim": "For the io::Write impls of BufBitWriter (u8..u128) and the io::Read impls of BufBitReader (u8..u64) and BitReader: (B1) every chunk handed to <[u8; 8]>::try_from(..).unwrap() provably has 8 bytes, the remainder is narrower than 64 bits, copy_from_slice operands have equal lengths, range indices are in bounds, read_bits/write_bits widths <= 64, invariants re-established - i.e. no word size follows a panicking or truncating path; (B2) BE impls use be byte conversions, LE impls le ones, LE remainder assembled in reverse; (B3) success returns Ok(buf.len()); (B4) failures surface as io::Error. Undecided: byte values. Included obligations: every backend word fetched or delivered on the byte paths is converted with to_be/to_le of the stream (C02.R1, C01.W2). (B6) Each of the six bodies, interpreted for every buffer length 0..=17 (0..=40 in the thorough tier) with pairwise different byte tokens and write_bits / read_bits stubbed: the fields handed to write_bits, read in stream order, are exactly the buffer's bytes in order (chunks and the 1..7 byte remainder alike); the bytes stored by read are exactly the stream bytes of the values read, in order; the whole length is reported. A path that works directly on the stream's own fields is outside this rule (not decided, reported as such in the evidence).",
    "note": "Trusted: std contracts in sa/contracts.py, rustc MIR, exporter, LP entailment.",
    "explanation": "E3 obligations + structural rules over six bodies",
}

CHECKS["C20"] = {
    "module": "rules_c20",
    "level": "proof",
    "quick_fs": ["default"],
    "thorough_fs": ["default", "both"],
    "technique": "value-partition abstract interpretation of every length function over the whole 64-bit domain (monotonicity per cell and across cells, exact rational Kraft sums over cells); abstract interpretation of FindChangePoints::next (all arithmetic asserts from the search guards); structural protocol rule",
    "claim": "Partial, stated as such: (F1) every overflow/underflow assert of the exponential + binary search (current+step, step doubling, left+(right-left)/2, mid+1) is discharged from the guards for ANY function and state, so the iterator cannot wrap around and spin in release builds or panic in debug builds; (F3) the first call yields (0, f(0)), every later item is (x, f(x)) with the remembered state updated together, f is only called through the stored closure; (F4) the three LEN tables are non-decreasing and every prefix satisfies Kraft's inequality (exact rationals); (F2) every length function (gamma, delta with every table option, omega, zeta_k, pi_k, exp-Golomb_k, Rice_k for the enumerated k, VByte) is defined on [0, 2^64-2] and non-decreasing over the whole domain: on each cell of a bisection partition its MIR evaluates to a constant or to a monotone composition with exact end values, and end values do not decrease across cells; (F5) for the codes whose cells are constant (all but Rice) the exact rational sum of |cell| * 2^-len over the domain is <= 1, hence Kraft's inequality for every prefix. (F2.golomb) len_golomb(n, b) = y + c_r on each residue class with c_r <= c_(r+1) and c_(b-1) <= c_0 + 1, hence non-decreasing in n, and sum_r 2^(1-c_r) <= 1, hence Kraft (geometric series). (I1-I3) utils/implied.rs, dataflow over MIR calls: the change-point iterator is consumed only through take_while/map_while with a predicate bounding the length by a constant (so the set-up stops at the first longer code instead of visiting every change point up to 2^64); the weights are exactly collect(map(windows(change_points, 2))) and neither vector is modified afterwards; the sampler indexes change_points with idx and idx+1 only, idx drawn from the WeightedIndex over those weights - so setting up and sampling cannot run away or index out of range. NOT decided: parameters outside the enumerated lists, Kraft for Rice, the numeric value of the weights, that no change point is skipped, and termination of consumers of the iterator.",
    "note": "Trusted: rustc MIR/const evaluation, exporter, LP entailment. Hypothesis: f non-decreasing (the debug assertions stating it are not obligations).",
    "explanation": "E3 obligations + table arithmetic + structural rule",
}

CHECKS["C09"] = {
    "module": "rules_c09",
    "level": "other",
    "quick_fs": ["default"],
    "thorough_fs": ["default", "both"],
    "technique": "Result-discipline classification of every fallible fetch on the read side (CFG paths), store-before-failure ordering rule with helper inlining, array+cursor effect rules of the backends; numeric path analysis of fetch conditions (a word is fetched only when the request exceeds the buffered bits)",
    "claim": "Structural half of 'never fabricate, never lose the tail': (E1) on every path of every bit reader, code reader, backend and adapter function, each Result of a word fetch / primitive read / code read is propagated (`?`, returned, adapted-then-propagated, or matched with an error-returning Err arm) - never unwrapped, defaulted or dropped; the only exceptions are the 12 table functions, which map a failed peek to `None` (and consume nothing: C05.T2); (E2) strict backends fail exactly where get() fails without moving, the zero-extended reader yields ZERO there and never fails; (E3) in refill and on the refill path of peek_bits nothing of the reader is stored before the failing fetch, so a failed look-ahead at the tail leaves the reader intact and the bit-by-bit fallback decodes the last codes; (E5) the byte adapter fetches whole words with read_exact. The value-level half (decodes correctly) is C02/C05's remainder; exact fetch counts (E4) are covered by C02.R3's accounting. (E4) read_bits / peek_bits / skip_bits of the buffered readers fetch a backend word only on paths where n_bits > bits_in_buffer, for W in {8..64}, so a request the buffer can serve never meets the end-of-data error.",
    "note": "Trusted: rustc MIR, exporter, std contracts (read_exact), classification table in sa/rules_result.py.",
    "explanation": "Structural rules over all read-side functions (all paths; loops entered once).",
}

CHECKS["C07"] = {
    "module": "rules_c07",
    "level": "proof",
    "quick_fs": ["default"],
    "thorough_fs": ["default", "checks", "no_copy_impls", "both"],
    "technique": "affine ghost-position accounting by abstract interpretation of MIR (loop summaries, contracts for the word backends), per word size; bit-sequence domain for the buffer content after a seek; structural rules for accessors and backends",
    "claim": "Positions, for every history because each method is checked on all paths from an arbitrary invariant-satisfying state: bit_pos() returns pos = W*word_pos - bits_in_buffer and does not move; set_bit_pos(p) (never executed by the suite) establishes pos' = p via set_word_pos(p / W), the cleared buffer and the partial reload, with all divisions/shifts in range and the buffer-counter invariant restored; every read, skip, peek, unary read and skip-after-peek moves pos by exactly its declared amount for W in {u8..u64}; the unbuffered reader's accessors are exact; memory backends report/store the cursor exactly and reject only positions > len; the byte adapter divides and multiplies by the same W::BYTES; (S.content, bit-sequence domain) after set_bit_pos(p) the backend stands at word p / W and the buffer holds exactly the last W - p%W stream bits of the one word fetched (nothing when p%W = 0), zeros elsewhere - the state a fresh reader reaches after consuming p bits, from which C02.R7 gives the content of every later read. Undecided: seeks through the byte adapter beyond A4 (C11). Included obligations: a failed look-ahead fetch does not touch the counters the position is computed from (C09.E3); the unbuffered reader's read_unary stops only on a one it found (C02.R2).",
    "note": "Trusted: rustc MIR, exporter, contracts, ghost model, LP entailment; lemma L2 (no overflow for streams < 2^64 bits).",
    "explanation": "E4 accounting + E3 + structural",
}

CHECKS["C18"] = {
    "module": "rules_c18",
    "level": "other",
    "quick_fs": ["default"],
    "thorough_fs": ["default", "both"],
    "technique": "value-partition abstract interpretation of the six VByte writers and two length functions over all of u64 (interval + affine domain on MIR, bisection cells); TypeId-dispatch decision tree; Result discipline; E3 obligations",
    "claim": "NARROW, stated as such: (V1) the generic entry points vbyte_write::<E>/vbyte_read::<E> select the _be function exactly when E = BigEndian and the _le one otherwise (sealed two-element Endianness), passing arguments and result through; (V4) for EVERY 64-bit value (abstract interpretation on a partition of u64, not sampling): byte_len_vbyte/bit_len_vbyte step exactly at 2^7, 2^7+2^14, ... with lengths 1..10 bytes; each of the six writers (bit-stream BE/LE over both stream endiannesses, io BE/LE) emits exactly byte_len_vbyte(value) bytes and returns that count (x8 for bit streams); every emitted byte but the last lies in [0x80,0xFF] and the last in [0,0x7F], so a reader stops exactly after the bytes written; (V3) io writers use write_all, io readers read_exact, errors propagated; plus numeric safety of all eight functions (10-byte buffer indices, shifts) under lemma L6. NOT decided: decode(encode(v)) = v and the payload bits of each byte (values, beyond their ranges), completeness/uniqueness over all byte strings, agreement of the byte values between the io and bit-stream variants.",
    "note": "Trusted: rustc MIR, exporter, contracts. A change that alters payload bits while keeping every byte in its range and the count right is out of reach.",
    "explanation": "Structural and numeric rules over the eight VByte functions and two dispatchers.",
}

CHECKS["C03"] = {
    "module": "rules_c03",
    "level": "proof",
    "quick_fs": ["default", "checks"],
    "thorough_fs": ["default", "checks", "no_copy_impls", "both"],
    "technique": "reader/writer duality by replay in the value-partition abstract interpreter (the reader's MIR is interpreted on each cell with read primitives answered by the writer's emissions; result must be the affine form n); abstract interpretation of each code's MIR under its documented domain (affine + LP, pow2/ilog2 axioms, contracts); structural rule for default parameter selection",
    "claim": "Partial, stated as such: (K1) for gamma, delta, zeta, minimal binary, pi, Rice, Golomb, exp-Golomb, omega and VByte, under the documented domains (values up to 2^64-2, zeta k in 1..=63, k <= 63, b >= 1, max >= 1) every overflow/shift/division assert, every ilog2 argument, every read_bits/write_bits width (<= 64) and every reachable panic of the write and len functions is discharged, on the default and the `checks` feature set - exactly the large-value / large-parameter corners the suite's grid does not settle; reader functions are checked up to stream-domain assumptions (a length read in unary is bounded only by what the writer emitted); (K3) each parameterless method forwards to the *_param method of the same code on self. (K2) for gamma, delta, zeta_k, omega, pi_k, Rice_k and minimal binary (enumerated parameters, both endiannesses, non-table paths) and for EVERY value of the domain: interpreting the reader's MIR on each cell, with read_unary/read_bits(n) answered by the primitives the writer emitted on that cell (same order, same widths, low n bits of the written operand), consumes all of them and returns exactly n - round trip at the level of stream primitives, which together with C01/C02 (primitives round-trip at any offset) and C05 (tables = bit-by-bit) gives the property for these codes. Golomb_b (b enumerated) is covered the same way on residue classes n = b*y + r (K2.golomb: the reader returns b*y + r). exp-Golomb_k for k <= 3 (quick) on the classes n = 2^k*y + r. omega (both endiannesses; the reader's peek_bits(1)/skip_bits_after_peek(1)/read_bits(l+1) are answered from the writer's blocks, the first stream bit of a block being determined on every cell). NOT decided: VByte read-back (K1 only), exp-Golomb for larger k, table-driven read paths (C05), parameters outside the enumerated lists; a reader that regroups the same bits into different primitives than the writer is reported as undecidable by K2 (violation), by design. Included obligations: the VByte writers' bytes are exactly what the reader's stop rule expects (C18.V4 on bit streams); the bit primitives the codes go through return / deliver exactly the stream's bits (C01.W6, C02.R7 for the buffered and unbuffered readers; word size 64 in the quick tier, all sizes in the thorough tier) and the unbuffered read_unary stops only on a one it found (C02.R2).",
    "note": "Trusted: rustc MIR, exporter, contracts incl. codeword length bounds, LP entailment. Lemmas L4-L7 and the stream-domain assumption are listed in the evidence and never counted as discharged.",
    "explanation": "E3 obligations + structural rule",
}
CHECKS["C19"] = {
    "module": "rules_c19",
    "level": "proof",
    "quick_fs": ["default", "checks"],
    "thorough_fs": ["default", "checks", "no_copy_impls", "both"],
    "technique": "MIR differencing between feature sets with path-signature comparison; bit-range abstract domain for `value fits in n bits` at every library write_bits call site under `checks`; E3 re-run per feature set",
    "claim": "Code the pinned suite never compiles: (G1) under `checks`, at every write_bits(v, n) issued by the code writers, the specialised and generic bulk copies and io::Write, the bit-range of v lies below n (xor-with-top-bit, masks, shifts, reader-buffer cleanliness), so the argument check cannot fire on in-domain library calls (one site assumed: lemma L8; where the bit-range domain cannot see how a code writer cleans its operand the question is decided by interpreting the writer on every value over the whole parameter range); (G2) both write_bits impls carry the assertion value & mask(n) == value and no successful path skips it; (G3) every function whose MIR differs from the default build performs, on every path, the same stream calls with the same widths and the same result shape - only the value operand of write_bits differs; (G4) the numeric obligations of code writers and copy paths hold on each feature set (no shift/overflow that only one profile would trap). Quick covers {default, checks}; thorough all four sets. Undecided: equality of values across builds beyond this confinement.",
    "note": "Trusted: rustc MIR per feature set, exporter, bit-range transfer functions, contracts, LP entailment.",
    "explanation": "feature-set differencing + bit-range obligations + E3",
}

CHECKS["C06"] = {
    "module": "rules_c06",
    "level": "translation_validation",
    "quick_fs": ["default"],
    "thorough_fs": ["default", "both"],
    "technique": "value-partition abstract interpretation of writers and length functions over the whole 64-bit domain (interval + monotonicity + affine domain on MIR, cells found by bisection, common refinement compared cell by cell); symbolic comparison of len and write-return expressions (linear forms); exhaustive table comparison; dispatch-arm rules",
    "claim": "Partial, stated as such: (L1) every entry of the three LEN tables and six WRITE_LEN tables equals the reference length; (L3) for gamma, delta, zeta, minimal binary, pi, Rice, Golomb and exp-Golomb the value returned by the writer - with write_bits(_, n) counted as n, write_unary(v) as v+1 and nested code writes as their len function (C01.W5 shows these returns equal the bits appended) - is, path by path and under the same guards, the same linear expression as the len function over the same terms (ilog2, shifts, quotients, the minimal-binary limit); (L4) for gamma, delta, zeta_k, omega, pi_k, exp-Golomb_k and the six VByte writers, for both stream endiannesses and every table option, the MIR of the writer and of the length function is interpreted abstractly on a partition of [0, 2^64-1] (every branch decided per cell, cells split until the result is constant): on every cell of the common refinement the returned count equals the length function and equals the sum of the widths of the primitive emissions, so len = write return = bits handed to the backend for EVERY 64-bit value (not a sample), and both are defined up to 2^64-2; (L5) all length dispatchers name the len function of their code. (L4.golomb) the same for Golomb_b on residue classes n = b*y + r (affine in y). Not covered: consumption by readers (stream-dependent; see C03.K2), Rice/minimal binary in L4 (covered by L3 only), parameters outside the enumerated lists, and the bits appended by the backend for a given primitive call (that is C01.W5).",
    "note": "Trusted: rustc MIR/const evaluation, exporter, refcodes.py, primitive return contracts.",
    "explanation": "whole-domain abstract interpretation (len = write return = emitted widths on every cell) + symbolic equality of len and write-return expressions + tables + dispatch arms",
}

CHECKS["C04"] = {
    "module": "rules_c04",
    "level": "translation_validation",
    "quick_fs": ["default", "checks"],
    "thorough_fs": ["default", "checks", "both"],
    "technique": "exhaustive comparison of the const-evaluated encode tables with an independent executable definition; value-partition abstract interpretation of the non-table writers (affine/interval domain over MIR, bisection cells) compared field by field with a documented-structure reference; comparison of each writer's emitted field sequence (resolved MIR calls, linear-form normalisation) with the documented structure of its code",
    "claim": "Partial, stated as such: (D1) for gamma, delta and zeta3 every table codeword (values <= WRITE_MAX = 63/1023/1023, both endiannesses, 4224 entries) equals the codeword of the published definition as transcribed in refcodes.py, and the documented example table of src/codes/mod.rs agrees with both; (D2) for gamma, delta, zeta_k, minimal binary, pi_k, Rice, Golomb and exp-Golomb the bit-by-bit writer emits on every path exactly the documented sequence of fields: unary(floor(log2(n+1))) then a floor(log2(n+1))-bit field; gamma(length) for delta; Rice_k(length) for pi; unary + minimal binary with the documented arguments for zeta/Golomb; gamma(n>>k) + k bits for exp-Golomb; minimal binary's l-bit prefix first and its extra bit last in both endiannesses; (D3) for gamma, delta, zeta_k (where 2^((h+1)k) is representable), omega (BE blocks and LE rotated blocks), pi_k, Rice_k and minimal binary (enumerated k / bounds u), for both endiannesses and EVERY value of the domain: the MIR of the non-table writer, interpreted abstractly on a partition of [0, 2^64-1], emits exactly the documented primitives with the documented widths, and every field value equals the documented one modulo 2^width as an affine function of n (or as (a*n+b)>>1 / &1 for minimal binary's split word); the reference (sa/refspec.py) is written from the module docs and cross-checked against the bit-level definitions and the documented examples (which exposed a wrong example string in omega.rs, fixed as F21). D3 is run on the default and on the `checks` feature set (whose writers mask their operands); (D4) VByte: step points, byte counts and continuation-bit ranges of the six writers on every 64-bit value (the rules of C18.V4). (D3.golomb) Golomb_b on residue classes: unary(n/b) then the documented minimal binary code of n%b. NOT decided: the bit order inside primitives (C01's clauses), exp-Golomb field values for k > 3 (D3 covers k <= 3 on residue classes) and VByte payload bits (D2 structure only), parameters outside the enumerated lists.",
    "note": "Trusted: rustc const evaluation/MIR, exporter, refcodes.py and the skeleton table (both written from the module documentation). D2 compares resolved calls and linear forms, not source text; an equivalent re-derivation of the same fields with different arithmetic would need the table updated.",
    "explanation": "tables vs definitions + exact emitted fields vs documented structure on every cell of the whole domain + field skeletons",
}

CHECKS["C17"] = {
    "module": "rules_c17",
    "level": "proof",
    "quick_fs": ["default"],
    "thorough_fs": ["default", "both"],
    "technique": "abstract interpretation of the two generic MIR bodies in a modular affine x interval domain, argument partitioned by sign (to_nat) / parity (to_int), Self instantiated at each width; composition of the derived affine maps; impl inventory",
    "claim": "For i8/u8 ... i128/u128 and isize/usize (at this target's 64-bit pointer width): (Z1) the twelve implementations exist and the body each type uses is identified (an override, if any, is analysed instead of the default); (Z2) interpreting the MIR of ToNat::to_nat with the argument ranging over ALL non-negative (resp. all negative) values of the type yields exactly the affine map 2x (resp. -2x-1) in the unsigned type with no wrap on any value; ToInt::to_int on all even (resp. odd) values yields exactly u/2 (resp. -(u+1)/2) in the signed type; (Z3) composing the derived maps gives the identity in both directions on every class, so the two mappings are mutually inverse bijections over the whole type, with the documented formula. Decided from the MIR, for every value of every width (2^128 values included), without executing the functions.",
    "note": "Trusted: rustc MIR, exporter, the contracts of common_traits (to_signed/to_unsigned are same-width reinterpretations; ONE; BITS), the transfer functions of sa/ivl.py. Pointer-size types are analysed at 64 bits (this target).",
    "explanation": "whole-type abstract interpretation in a modular affine domain; obligations = formula and inverse facts per width and class",
}

NOT_APPLICABLE = {
}

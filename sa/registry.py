"""Which module decides which property, at which level, over which feature sets."""

CHECKS = {
    "C10": {
        "module": "rules_c10",
        "level": "other",
        "quick_fs": ["default"],
        "thorough_fs": ["default", "checks", "no_copy_impls", "both"],
        "technique": "MIR decision-tree extraction of match arms + def-use resolution of call arguments; canonical code-class table; sibling cross-check",
        "claim": "Exhaustive over the finite arm space of all 10 dispatch tables (3x Codes, 3x ConstCode, 4x function-pointer constructors incl. the factory: 12+51+59 keys each) and 15 forwarding wrappers: every arm performs exactly one stream operation, of the canonical code class its key names, on the dispatcher's own stream/value arguments, and returns that operation's result; read/write/len siblings agree per key; key sets agree. Decides which code is performed, not that the code's own method is right (C03/C04).",
        "note": "Trusted: rustc MIR construction, the exporter, the callee->family table and the canonical identities of DESIGN.md appendix A (zeta1=pi0=expgolomb0=gamma, rice0=golomb1=unary, golomb(2^j)=rice(j)).",
        "explanation": "Exhaustive structural check of every dispatch table in the exported MIR: each match arm / "
                       "identifier / associated fn constant is resolved to the single stream-consuming call it makes and "
                       "that call's canonical code class is compared with the class the arm's key names; sibling "
                       "dispatchers are cross-checked; forwarding wrappers are checked for argument/result pass-through.",
    },
}

NOT_APPLICABLE = {
    "C17": "a bijection over all values of six integer widths is a statement about (x>>1)^-(x&1) on 2^n values: the generic body is a chain of operator-trait calls with no table, pairing, ordering or ownership structure to check; proving the identity needs bit-vector reasoning (a solver) or running it, both outside static analysis (DESIGN.md section 6)",
}
